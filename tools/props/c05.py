"""C05 — linearised observation equations equal the true Jacobian and misclosure."""
import math
from lib.core import *
from gen import c05_linearization as tr

ID = "C05"
PROPS_FILES = ["Gama/Props/C05.lean"]
LEAN_TARGETS = ["Gama.Props.C05"]
DRIVERS = ["drv_lin"]
RULE = ("small in-memory networks (2-5 points, 1-2 stand-points, 3-9 observations) over all 13 observation classes x "
        "8 axes codes x 2 angle senses x bearing quadrants/near-axis bearings x free/fixed/constrained/unused mixes x "
        "2D/3D x national-grid magnitudes x short sights around the 1e-6 cut-off; an observation is non-trivial when "
        "it produced at least one coefficient for a free coordinate; distinct by (class, status mix, quadrant, family)")
LEVEL_TEXT = ("Lean 4 theorems over R (Mathlib HasDerivAt / Real.sqrt / Complex.arg / Real.arccos) about Lean "
              "definitions REGENERATED on every run from local_linearization.cpp and bearing.cpp by a translator; "
              "the same generated definitions are executed at Float next to the real LocalLinearization visitor "
              "(correspondence) and the implementation's coefficients are compared with finite differences of its "
              "own right-hand side (oracle).")
LEVEL_NOTE = ("Theorems are about real arithmetic and the real functions sin/cos/atan2/acos/sqrt, M_PI is read as pi; "
              "IEEE rounding and libm are not modelled (observed by the Float correspondence, tolerance 1e-12 rel.). "
              "The C++ while-loops are modelled with fuel (non-termination = error value); termination is proved over R only.")
TECHNIQUE = "Lean 4 proof against a translator-generated model + model/implementation correspondence + finite-difference oracle"
TRUSTED = ["tools/gen/c05_linearization.py (C++ mini front end: tokenizer, macro expansion, expression/statement parser)",
           "harness/c05_lin.cpp, lean/Driver/Lin.lean, generator and tolerances in tools/props/c05.py",
           "hand-written Lean models of lpoint.h status bits, Observation constructors (norm_rad_val, d<=0), "
           "PointData::xNorthAngle, index-on-first-use (Gama/Model/LinTypes.lean), tied by correspondence only"]
MODELLED = ["IEEE-754 rounding (proofs over R)", "libm sin/cos/atan2/acos/sqrt (real functions in the theorems)",
            "M_PI read as the real number pi", "termination of the wrap loops at double (fuel in the model)",
            "StandPoint::orientation() throwing when no orientation is set (precondition: set)",
            "Observation::value() = value_ + reduction(): the reduction is an input"]
ASSUMPTIONS = ["obs->from()/to()/fs() resolve to points of PointData (operator[] default-constructs otherwise)"]

CLASSES = ["Direction", "Distance", "Angle", "Azimuth", "S_Distance", "Z_Angle", "H_Diff", "X", "Y", "Z",
           "Xdiff", "Ydiff", "Zdiff"]
ANGULAR = {"Direction", "Angle", "Azimuth"}
R2CC = 200e4 / math.pi
FULL = 400e4


def hx(x):
    return float2hex(x)


def translate(ctx):
    tr.translate(ctx.repo, ctx.lean)


# ----------------------------------------------------------------------------- geometry helpers

def bearing(a, b):
    dx, dy = b[0] - a[0], b[1] - a[1]
    s = math.atan2(dy, dx)
    return s if s >= 0 else s + 2 * math.pi


def xnorth(cs, rh):
    lh = {0: 300, 6: 300, 1: 400, 4: 400, 2: 200, 5: 200, 3: 100, 7: 100}[cs]
    if rh:
        lh = 400 - lh
    if lh == 400:
        lh = 0
    return lh * math.pi / 200.0


def true_value(cls, P, frm, to, fs, ori, xn):
    """the observation function of class cls at geometry P (radians / metres), None if singular"""
    a, b = P[frm], P[to]
    dx, dy, dz = b[0] - a[0], b[1] - a[1], b[2] - a[2]
    d = math.hypot(dx, dy)
    sd = math.sqrt(dx * dx + dy * dy + dz * dz)
    if cls == "Direction":
        return (bearing(a, b) - ori) % (2 * math.pi)
    if cls == "Azimuth":
        return (bearing(a, b) - xn) % (2 * math.pi)
    if cls == "Angle":
        return (bearing(a, P[fs]) - bearing(a, b)) % (2 * math.pi)
    if cls == "Distance":
        return d
    if cls == "S_Distance":
        return sd
    if cls == "Z_Angle":
        return math.acos(dz / sd) if sd > 0 else None
    if cls in ("H_Diff", "Zdiff"):
        return dz
    if cls == "Xdiff":
        return dx
    if cls == "Ydiff":
        return dy
    return {"X": a[0], "Y": a[1], "Z": a[2]}[cls]


# ----------------------------------------------------------------------------- generator

FAMILIES = ["generic", "grid", "short", "cutoff", "axis", "coincident", "vertical", "steep"]


def gen_points(rng, n, fam):
    base = [0.0, 0.0, 0.0]
    if fam == "grid" or rng.random() < 0.15:
        base = [rng.choice([1, -1]) * rng.uniform(4e5, 1.3e6), rng.choice([1, -1]) * rng.uniform(4e5, 6e6), rng.uniform(0, 3000)]
    p0 = [base[0] + rng.uniform(-500, 500), base[1] + rng.uniform(-500, 500), base[2] + rng.uniform(-50, 50)]
    pts = [p0]
    for i in range(1, n):
        f = fam if i == 1 or rng.random() < 0.5 else "generic"
        q = pts[rng.randrange(len(pts))] if f != "generic" else p0
        if f in ("generic", "grid"):
            r = 10 ** rng.uniform(0, 3.5)
            t = rng.uniform(0, 2 * math.pi)
            p = [q[0] + r * math.cos(t), q[1] + r * math.sin(t), q[2] + rng.uniform(-0.3, 0.3) * r]
        elif f == "short":
            r = 10 ** rng.uniform(-5.5, -1)
            t = rng.uniform(0, 2 * math.pi)
            p = [q[0] + r * math.cos(t), q[1] + r * math.sin(t), q[2] + rng.uniform(-1, 1) * r]
        elif f == "cutoff":      # around `d < 1e-6`
            r = 1e-6 * rng.choice([0.5, 0.999, 1.0, 1.001, 2.0])
            t = rng.choice([0, 0.5, 1, 1.5]) * math.pi + rng.choice([0, 0.3])
            p = [q[0] + r * math.cos(t), q[1] + r * math.sin(t), q[2] + rng.choice([0, 1e-6, 0.5])]
        elif f == "axis":        # bearings k*pi/2 +- tiny
            r = 10 ** rng.uniform(0, 3)
            k = rng.randrange(4)
            e = rng.choice([0.0, 1e-9, -1e-9, 1e-13, -1e-13])
            t = k * math.pi / 2 + e
            c, s = [(1, 0), (0, 1), (-1, 0), (0, -1)][k]
            if e == 0.0:
                p = [q[0] + r * c, q[1] + r * s, q[2] + rng.uniform(-0.2, 0.2) * r]
            else:
                p = [q[0] + r * math.cos(t), q[1] + r * math.sin(t), q[2] + rng.uniform(-0.2, 0.2) * r]
        elif f == "coincident":
            p = [q[0], q[1], q[2] + rng.choice([0.0, 0.0, 1.5])]
        elif f == "vertical":
            p = [q[0], q[1], q[2] + rng.choice([-1, 1]) * 10 ** rng.uniform(-1, 2)]
        else:                    # steep
            r = 10 ** rng.uniform(-3, 0)
            t = rng.uniform(0, 2 * math.pi)
            p = [q[0] + r * math.cos(t), q[1] + r * math.sin(t), q[2] + rng.choice([-1, 1]) * 10 ** rng.uniform(0, 2)]
        pts.append(p)
    return pts


def gen_case(rng, fam=None):
    """returns (lines, meta); meta = dict(cs, rh, pts{name:(x,y,z,sxy,sz)}, sps{k:(station,ori)}, obs[...])"""
    fam = fam or rng.choice(FAMILIES)
    n = rng.randint(2, 5)
    names = [f"P{i}" for i in range(n)]
    co = gen_points(rng, n, fam)
    dim3 = rng.random() < 0.6
    mix = rng.choice(["allfree", "mixed", "mixed", "mixed", "fixed"])
    pts = {}
    for nm, c in zip(names, co):
        if mix == "allfree":
            sxy, sz = "a", "a"
        elif mix == "fixed":
            sxy, sz = rng.choice("fa"), rng.choice("fa")
        else:
            sxy, sz = rng.choice("ufacaac"), rng.choice("ufacaac")
        if not dim3 and rng.random() < 0.7:
            sz = rng.choice("uf")
        pts[nm] = (c[0], c[1], c[2], sxy, sz)
    cs, rh = rng.randrange(8), rng.randrange(2)
    xn = xnorth(cs, rh)
    sps = {}
    for k in range(1, rng.randint(1, 2) + 1):
        ori = rng.choice([rng.uniform(0, 2 * math.pi), 0.0, rng.uniform(-7, 14), 2 * math.pi, 1e-17])
        sps[k] = (rng.choice(names), ori)
    lines = [f"cs {cs} {rh}", "xnorth"]
    for nm, p in pts.items():
        lines.append(f"pt {nm} {hx(p[0])} {hx(p[1])} {hx(p[2])} {p[3]} {p[4]}")
    for k, (st, ori) in sps.items():
        lines.append(f"sp {k} {st} {hx(ori)}")
    obs = []
    P = {nm: p[:3] for nm, p in pts.items()}
    for _ in range(rng.randint(3, 9)):
        cls = rng.choice(CLASSES)
        k = "-"
        if cls == "Direction":
            k = rng.choice(list(sps))
            frm = sps[k][0] if rng.random() < 0.9 else rng.choice(names)
        else:
            frm = rng.choice(names)
        others = [x for x in names if x != frm]
        to = rng.choice(others) if rng.random() < 0.97 else frm
        fs = "-"
        if cls == "Angle":
            fs = rng.choice(others) if rng.random() < 0.97 else frm
        ori = sps[k][1] if k != "-" else 0.0
        tv = true_value(cls, P, frm, to, fs if fs != "-" else to, ori, xn)
        r = rng.random()
        if tv is None or r < 0.08:
            val = rng.uniform(-1, 8) if cls in ANGULAR or cls == "Z_Angle" else rng.uniform(-5, 500)
        elif cls in ANGULAR:
            if r < 0.30:       # misclosure next to +-200 gon
                val = tv + rng.choice([-1, 1]) * math.pi + rng.choice([0, 0, 1e-15, -1e-15, 1e-9, -1e-9, 1e-4, -1e-4])
            elif r < 0.36:
                val = tv + rng.choice([-2, 2, 4]) * math.pi + rng.uniform(-1e-5, 1e-5)
            else:
                val = tv + rng.gauss(0, 1e-5)
        elif cls == "Z_Angle":
            val = tv + rng.gauss(0, 1e-5)
            if r < 0.2:
                val = 2 * math.pi - tv + rng.gauss(0, 1e-5)    # second-face reading (> pi)
            elif r < 0.25:
                val = math.pi + rng.choice([0, 1e-16, -1e-16])
        else:
            val = tv + rng.gauss(0, 1e-3)
            if r < 0.12:
                val = rng.choice([0.0, -1.0, tv])
        lines.append(f"obs {cls} {k} {frm} {to} {fs} {hx(val)}")
        obs.append({"cls": cls, "k": k, "frm": frm, "to": to, "fs": fs, "val": val, "line": len(lines) - 1})
    for nm in names:
        lines.append(f"idx {nm}")
    for k in sps:
        lines.append(f"idxo {k}")
    return lines, {"fam": fam, "cs": cs, "rh": rh, "pts": pts, "sps": sps, "obs": obs, "names": names, "mix": mix}


def corner_cases():
    """deterministic cases always run first (former F12 boundary inputs, aliased points)"""
    z = hx(0.0)
    cases = []
    # F12: misclosure exactly -200 gon / +200 gon at double
    cases.append(["cs 4 0", f"pt A {z} {z} {z} a a", f"pt B {hx(-100.0)} {z} {z} a a", f"sp 1 A {z}",
                  f"obs Direction 1 A B - {z}", f"obs Azimuth - A B - {z}", "idx A", "idx B", "idxo 1"])
    cases.append(["cs 4 0", f"pt A {z} {z} {z} a a", f"pt B {hx(100.0)} {z} {z} a a", f"sp 1 A {z}",
                  f"obs Direction 1 A B - {hx(math.pi)}", f"obs Azimuth - A B - {hx(math.pi)}", "idx A", "idx B"])
    # bs == fs, from == to
    cases.append(["cs 0 1", f"pt A {z} {z} {z} a a", f"pt B {hx(3.0)} {hx(4.0)} {hx(1.0)} a a", f"pt C {hx(-3.0)} {hx(4.0)} {hx(2.0)} c f",
                  f"obs Angle - A B B {hx(0.5)}", f"obs Angle - A B A {hx(0.5)}", f"obs Distance - A A - {hx(1.0)}",
                  f"obs S_Distance - A A - {hx(1.0)}", f"obs Z_Angle - A A - {hx(1.0)}", f"obs Angle - A B C {hx(6.0)}",
                  "idx A", "idx B", "idx C"])
    return cases


# ----------------------------------------------------------------------------- oracle (implementation only)

def parse_lin(line):
    t = line.split()
    if not t or t[0] != "lin":
        return None
    n = int(t[3])
    rows = [(int(t[4 + 2 * i]), hex2float(t[5 + 2 * i])) for i in range(n)]
    return {"value": hex2float(t[1]), "rhs": hex2float(t[2]), "rows": rows, "maxn": int(t[4 + 2 * n])}


def single_obs_lines(meta, ob, pts=None, ori_shift=0.0):
    """a fresh mini network holding exactly one observation"""
    pts = pts or meta["pts"]
    lines = [f"cs {meta['cs']} {meta['rh']}"]
    for nm in meta["names"]:
        p = pts[nm]
        lines.append(f"pt {nm} {hx(p[0])} {hx(p[1])} {hx(p[2])} {p[3]} {p[4]}")
    if ob["k"] != "-":
        st, ori = meta["sps"][ob["k"]]
        lines.append(f"sp {ob['k']} {st} {hx(ori + ori_shift)}")
    lines.append(f"obs {ob['cls']} {ob['k']} {ob['frm']} {ob['to']} {ob['fs']} {hx(ob['val'])}")
    for nm in meta["names"]:
        lines.append(f"idx {nm}")
    if ob["k"] != "-":
        lines.append(f"idxo {ob['k']}")
    return lines


def fd_plan(meta, ob):
    """cases for central differences of the implementation's own rhs; returns (cases, descr) or None"""
    P = meta["pts"]
    a, b = P[ob["frm"]], P[ob["to"]]
    c = P[ob["fs"]] if ob["fs"] != "-" else None
    roles = [ob["frm"], ob["to"]] + ([ob["fs"]] if c else [])
    if len(set(roles)) != len(roles):
        return None                                     # aliased points: see report (bs == fs)
    dh = math.hypot(b[0] - a[0], b[1] - a[1])
    sd = math.sqrt(dh * dh + (b[2] - a[2]) ** 2)
    cls = ob["cls"]
    scale = None
    if cls in ("Direction", "Azimuth", "Distance"):
        scale = dh
    elif cls == "Angle":
        scale = min(dh, math.hypot(c[0] - a[0], c[1] - a[1]))
    elif cls == "S_Distance":
        scale = sd
    elif cls == "Z_Angle":
        scale = min(dh, sd)
    else:
        scale = 1.0
    mag = max(abs(v) for nm in roles for v in P[nm][:3])
    if scale < 1e-2 or mag > 1e7:
        return None
    h = 1e-4 * min(scale, 100.0)
    cases, descr = [single_obs_lines(meta, ob)], []
    for nm in roles:
        for ci, cn in enumerate("xyz"):
            got = []
            for sgn in (+1, -1):
                q = dict(P)
                v = list(P[nm])
                v[ci] += sgn * h
                got.append(v[ci])
                q[nm] = tuple(v)
                cases.append(single_obs_lines(meta, ob, q))
            # the step actually taken (coordinates of national-grid size quantise a 1e-6 m bump)
            descr.append((nm, cn, (got[0] - got[1]) / 2 * 1000.0))            # step in mm
    if ob["k"] != "-":
        ho = 1e-6
        for sgn in (+1, -1):
            cases.append(single_obs_lines(meta, ob, None, sgn * ho))
        descr.append((("sp", ob["k"]), "ori", ho * R2CC))  # step in cc
    return cases, descr, h


def fd_check(meta, ob, outs, descr):
    """outs: harness outputs of the cases of fd_plan.  returns None or a failure description"""
    base = outs[0]
    li = [parse_lin(l) for l in base if l.startswith("lin")]
    if not li:
        return None            # constructor/linearisation threw: nothing to differentiate
    L = li[0]
    if not all(math.isfinite(c) for _, c in L["rows"]) or not math.isfinite(L["rhs"]):
        return None
    names = meta["names"]
    idxlines = [l for l in base if l.startswith("int")]
    unk = {}
    for nm, l in zip(names, idxlines):
        ix, iy, iz = map(int, l.split()[1:4])
        unk[(nm, "x")], unk[(nm, "y")], unk[(nm, "z")] = ix, iy, iz
    if ob["k"] != "-":
        unk[(("sp", ob["k"]), "ori")] = int(idxlines[len(names)].split()[1])
    coeff = {}
    for i, c in L["rows"]:
        coeff[i] = coeff.get(i, 0.0) + c
    cmax = max([abs(c) for c in coeff.values()] + [1e-300])
    angular = ob["cls"] in ANGULAR or ob["cls"] == "Z_Angle"
    # rounding noise of the implementation's rhs (not a property of the coefficients): eps * |rhs|, plus for
    # zenith angles the conditioning of acos(dz/sd) near the vertical, eps * sd/d radians
    P = meta["pts"]
    pa, pb = P[ob["frm"]], P[ob["to"]]
    dh = math.hypot(pb[0] - pa[0], pb[1] - pa[1])
    sd = math.sqrt(dh * dh + (pb[2] - pa[2]) ** 2)
    rnoise = 4.5e-16 * (abs(L["rhs"]) + (R2CC * (1 + sd / dh) if ob["cls"] == "Z_Angle" and dh > 0 else 0.0))
    for j, (who, cn, step) in enumerate(descr):
        lp = [parse_lin(l) for l in outs[1 + 2 * j] if l.startswith("lin")]
        lm = [parse_lin(l) for l in outs[2 + 2 * j] if l.startswith("lin")]
        if not lp or not lm:
            return None
        dr = lp[0]["rhs"] - lm[0]["rhs"]
        if angular:
            dr = dr - FULL * round(dr / FULL)
        fd = -dr / (2 * step)            # d(computed)/d(unknown) in (mm|cc)/(mm|cc)
        i = unk.get((who, cn), 0)
        status = meta["pts"][who][3 if cn in "xy" else 4] if isinstance(who, str) else "a"
        free = status in "ac"
        have = coeff.get(i, None) if i else None
        if have is None:
            # no coefficient: the unknown must be not free, or the function must not depend on it
            if free and abs(fd) > 1e-4 * cmax + 1e-7 + 8 * rnoise / step:
                return {"what": "missing coefficient", "unknown": [str(who), cn], "finite_difference": fd, "coeffs": L["rows"]}
            continue
        if not free:
            return {"what": "coefficient for a non-free coordinate", "unknown": [str(who), cn], "coeff": have}
        if abs(fd - have) > 2e-4 * cmax + 1e-7 + 8 * rnoise / step:
            return {"what": "coefficient differs from the finite difference of the implementation's own rhs",
                    "unknown": [str(who), cn], "coeff": have, "finite_difference": fd, "step": step}
    return None


def rhs_check(meta, ob, L, xn):
    """rhs = unit * (observed - computed), angular ones reduced into (-200e4, 200e4] (what the loops give)"""
    P = {nm: p[:3] for nm, p in meta["pts"].items()}
    cls = ob["cls"]
    ori = meta["sps"][ob["k"]][1] if ob["k"] != "-" else 0.0
    tv = true_value(cls, P, ob["frm"], ob["to"], ob["fs"] if ob["fs"] != "-" else ob["to"], ori, xn)
    if tv is None or not math.isfinite(L["rhs"]):
        return None
    a, b = P[ob["frm"]], P[ob["to"]]
    if cls in ANGULAR or cls in ("Distance",):
        if math.hypot(b[0] - a[0], b[1] - a[1]) < 1e-6:
            return None          # the cut-off zeroes bearing and distance (excluded in the theorems too)
        if cls == "Angle":
            c = P[ob["fs"]]
            if math.hypot(c[0] - a[0], c[1] - a[1]) < 1e-6:
                return None
    val = L["value"]
    mag = max(abs(v) for nm in (ob["frm"], ob["to"]) for v in P[nm])
    if cls in ANGULAR:
        if not (-200e4 < L["rhs"] <= 200e4):
            return {"what": "angular rhs outside the half-open range (-200e4, 200e4]", "rhs": L["rhs"]}
        want = (val - tv) * R2CC
        diff = L["rhs"] - want
        diff -= FULL * round(diff / FULL)
        dmin = math.hypot(b[0] - a[0], b[1] - a[1])
        if cls == "Angle":
            c = P[ob["fs"]]
            dmin = min(dmin, math.hypot(c[0] - a[0], c[1] - a[1]))
        tol = 1e-6 + 1e-9 * R2CC * (1 + mag * 1e-7 / max(dmin, 1e-6))
        if abs(diff) > tol:
            return {"what": "angular rhs is not (observed - computed) mod 400e4 cc", "rhs": L["rhs"], "expected_mod": want}
        return None
    if cls == "Z_Angle":
        comp = 2 * math.pi - tv if val > math.pi else tv
        want = (val - comp) * R2CC
        sd = math.sqrt(sum((b[i] - a[i]) ** 2 for i in range(3)))
        dh = math.hypot(b[0] - a[0], b[1] - a[1])
        if dh == 0 or sd == 0:
            return None
        tol = 1e-6 + 1e-9 * R2CC * (1 + mag * 1e-7 / dh) + abs(want) * 1e-9
    else:
        want = (val - tv) * 1e3
        tol = 1e-9 * (1 + abs(want)) + 1e-6 * mag * 1e-3
    if abs(L["rhs"] - want) > tol:
        return {"what": "rhs is not unit*(observed - computed)", "rhs": L["rhs"], "expected": want}
    return None


# ----------------------------------------------------------------------------- correspondence

def harness(ctx):
    loc = ctx.repo / "lib" / "gnu_gama" / "local"
    srcs = [ctx.verif / "harness" / "c05_lin.cpp"] + [loc / f for f in
            ("local_linearization.cpp", "bearing.cpp", "gamadata.cpp", "observation.cpp", "pointid.cpp", "language.cpp")] + \
           [ctx.repo / "lib" / "gnu_gama" / f for f in ("utf8.cpp", "gon2deg.cpp")]
    return ctx.build_cpp("c05_lin", srcs, flags=["-fno-sanitize=vptr", "-ffunction-sections", "-fdata-sections"],
                         libs=["-Wl,--gc-sections"])


def key_of(meta, ob, L):
    P = meta["pts"]
    a, b = P[ob["frm"]], P[ob["to"]]
    quad = int(bearing(a, b) // (math.pi / 2)) if (a[0], a[1]) != (b[0], b[1]) else -1
    st = "".join(P[n][3] + P[n][4] for n in (ob["frm"], ob["to"]) + ((ob["fs"],) if ob["fs"] != "-" else ()))
    return (ob["cls"], st, quad, meta["fam"], meta["cs"] if ob["cls"] == "Azimuth" else -1, len(L["rows"]))


def run_oracle(ctx, exe, metas, corr, per_case=2, stop_first=False):
    """finite-difference oracle on the implementation; metas = [(case lines, meta)]"""
    plans, cases = [], []
    for ci, (c, meta) in enumerate(metas):
        obs = list(meta["obs"])
        ctx.rng.shuffle(obs)
        k = 0
        for ob in obs:
            if k >= per_case:
                break
            if ob["cls"] == "Z_Angle" and ob["val"] > math.pi:
                corr.count("oracle_fd_zenith_second_face")
            pl = fd_plan(meta, ob)
            if not pl:
                continue
            k += 1
            plans.append((meta, ob, len(cases), len(pl[0]), pl[1]))
            cases += pl[0]
    outs, crashes = run_cases(exe, cases)
    nfd = 0
    fails = []
    for meta, ob, start, n, descr in plans:
        if any(start <= i < start + n for i in crashes):
            continue
        bad = fd_check(meta, ob, outs[start:start + n], descr)
        nfd += len(descr)
        if bad:
            fails.append((meta, ob, bad, cases[start]))
            if stop_first:
                break
    corr.count("oracle_fd_observations", len(plans))
    corr.count("oracle_fd_derivatives", nfd)
    return fails




def correspond(ctx, corr):
    exe = harness(ctx)
    drv = ctx.driver("drv_lin")
    metas = []
    cases = []
    corpus = ctx.verif / "corpus" / "C05"
    ncorpus = 0
    if corpus.exists():
        for f in sorted(corpus.glob("lin-*.txt")):
            cases.append([l for l in f.read_text().split("\n") if l and not l.startswith("#")])
            metas.append(None)
            ncorpus += 1
    for c in corner_cases():
        cases.append(c)
        metas.append(None)
    ngen = ctx.size(700, 40000)
    for i in range(ngen):
        fam = FAMILIES[i % len(FAMILIES)] if i < 4 * len(FAMILIES) else None
        c, meta = gen_case(ctx.rng, fam)
        cases.append(c)
        metas.append(meta)
    impl, crashes = run_cases(exe, cases)
    model, mcr = run_cases(drv, cases)
    maxdev = 0.0
    nobs = 0
    f12 = 0
    for i, c in enumerate(cases):
        meta = metas[i]
        if i in crashes:
            corr.case()
            corr.fail("LocalLinearization harness crashed (sanitizer)", {"stream": "lin", "ops": c},
                      "LocalLinearization", crashes[i][1])
            continue
        same = len(impl[i]) == len(model[i]) and all(lines_equal(a, b, rtol=1e-12, atol=1e-300) for a, b in zip(impl[i], model[i]))
        if not same:
            # tolerate cancellation noise on rhs only: |rhs dev| small relative to the full circle / magnitude of inputs
            same = len(impl[i]) == len(model[i]) and all(
                lines_equal(a, b, rtol=1e-9, atol=1e-6) for a, b in zip(impl[i], model[i]))
            if same:
                corr.count("cases_needing_loose_tolerance")
        if not same:
            corr.disagree("lin", c, impl[i], model[i])
        for a, b in zip(impl[i], model[i]):
            for x, y in zip(a.split(), b.split()):
                if is_hex(x) and is_hex(y):
                    u, v = hex2float(x), hex2float(y)
                    if math.isfinite(u) and math.isfinite(v) and u != v:
                        maxdev = max(maxdev, abs(u - v) / max(abs(u), abs(v)))
        # statistics + rhs oracle
        lins = [l for l in impl[i] if l.startswith(("lin", "throw"))]
        for l in impl[i]:
            if l.startswith("throw"):
                corr.count("throw_" + l.split()[1])
        if meta is None:
            corr.case(key=("corner", i), sample={"ops": c[:8], "impl": impl[i][:8]} if i == ncorpus else None)
            for l in impl[i]:
                L = parse_lin(l)
                if L and abs(L["rhs"]) == 200e4:
                    f12 += 1
            continue
        xn = xnorth(meta["cs"], meta["rh"])
        obs_out = [l for l in impl[i] if l.startswith(("lin", "throw", "bad-op"))]
        for ob, l in zip(meta["obs"], obs_out):
            nobs += 1
            L = parse_lin(l)
            corr.count("obs_" + ob["cls"])
            if L is None:
                corr.case()
                continue
            nonfinite = not all(math.isfinite(x) for _, x in L["rows"])
            if nonfinite:
                corr.count("nonfinite_coefficients(d<1e-6 cut-off)")
            corr.case(key=key_of(meta, ob, L) if L["rows"] and not nonfinite else None,
                      sample={"obs": c[ob["line"]], "impl": l} if nobs <= 3 else None)
            if abs(L["rhs"]) == 200e4:
                f12 += 1
            bad = rhs_check(meta, ob, L, xn)
            if bad:
                corr.fail(bad["what"], {"stream": "lin", "ops": single_obs_lines(meta, ob), "detail": bad, "meta": meta, "ob": ob},
                          "LocalLinearization::" + ob["cls"].lower(), json.dumps(bad))
    corr.maxstat("max_rel_dev_model_vs_impl", maxdev)
    corr.count("observations", nobs)
    corr.count("rhs_exactly_+200e4(closed end of the range)", f12)
    # finite-difference oracle on the implementation
    fails = run_oracle(ctx, exe, [(c, m) for c, m in zip(cases, metas) if m is not None], corr,
                       per_case=ctx.size(2, 3))
    for meta, ob, bad, lines in fails[:20]:
        corr.fail(bad["what"], {"stream": "lin-fd", "ops": lines, "detail": bad, "meta": meta, "ob": ob},
                  "LocalLinearization::" + ob["cls"].lower(), json.dumps(bad))
    if nobs and len(corr.nontrivial) < 200:
        corr.inconclusive.append(f"only {len(corr.nontrivial)} distinct non-trivial observations")
    for cls in CLASSES:
        if corr.stats.get("obs_" + cls, 0) < 20:
            corr.inconclusive.append(f"class {cls} generated fewer than 20 times")


# ----------------------------------------------------------------------------- search

def search(ctx, broken, corr):
    """A proof / translator / correspondence broke: look for a concrete observation on which the
    implementation's coefficients or rhs differ from finite differences / observed - computed."""
    exe = harness(ctx)
    out = []
    try:
        for rnd in range(ctx.size(6, 40)):
            metas = []
            for i in range(400):
                c, meta = gen_case(ctx.rng, rng_family(ctx, i))
                metas.append((c, meta))
            # rhs / wrap oracle
            impl, crashes = run_cases(exe, [c for c, _ in metas])
            for (c, meta), o in zip(metas, impl):
                xn = xnorth(meta["cs"], meta["rh"])
                obs_out = [l for l in o if l.startswith(("lin", "throw", "bad-op"))]
                for ob, l in zip(meta["obs"], obs_out):
                    L = parse_lin(l)
                    if L:
                        bad = rhs_check(meta, ob, L, xn)
                        if bad:
                            out.append(Failure(bad["what"], {"stream": "lin", "ops": single_obs_lines(meta, ob), "detail": bad, "meta": meta, "ob": ob},
                                               "LocalLinearization::" + ob["cls"].lower(), json.dumps(bad)))
                            return out
            fails = run_oracle(ctx, exe, metas, Corr(), per_case=9, stop_first=True)
            if fails:
                meta, ob, bad, lines = fails[0]
                out.append(Failure(bad["what"], {"stream": "lin-fd", "ops": lines, "detail": bad, "meta": meta, "ob": ob},
                                   "LocalLinearization::" + ob["cls"].lower(), json.dumps(bad)))
                return out
    finally:
        pass
    return out


def rng_family(ctx, i):
    return ["generic", "grid", "axis", "steep", "generic", "short"][i % 6]


def classify(ctx, failure):
    d = (failure.replay or {}).get("detail") or {}
    ops = " ".join((failure.replay or {}).get("ops") or [])
    return None


def _meta_from_json(m):
    m = dict(m)
    m["sps"] = {int(k): tuple(v) for k, v in m["sps"].items()}
    m["pts"] = {k: tuple(v) for k, v in m["pts"].items()}
    return m


def replay(ctx, payload):
    """re-run the recorded failing observation on the current tree: prints the implementation's
    answer and re-evaluates the oracle (rhs = observed - computed; coefficients vs central
    differences of the implementation's own rhs).  rc 1 = still failing."""
    f = payload.get("failure")
    if not f:
        print(json.dumps(payload.get("no_longer_checks"), indent=1)[:4000])
        return 0
    inp = f["input"]
    ops = inp.get("ops")
    exe = harness(ctx)
    impl, crashes = run_cases(exe, [ops])
    print("input:")
    for l in ops:
        print("  ", l)
    print("implementation now:")
    for l in impl[0]:
        L = parse_lin(l)
        if L:
            print("   lin value=%r rhs=%r rows=%r" % (L["value"], L["rhs"], L["rows"]))
        else:
            print("  ", l)
    print("recorded:", json.dumps(inp.get("detail")))
    if crashes:
        print("harness crashed:", crashes[0][1][-1500:])
        return 1
    if not inp.get("meta"):
        return 0
    meta, ob = _meta_from_json(inp["meta"]), inp["ob"]
    still = None
    for l in impl[0]:
        L = parse_lin(l)
        if L:
            still = rhs_check(meta, ob, L, xnorth(meta["cs"], meta["rh"]))
            break
    if not still:
        pl = fd_plan(meta, ob)
        if pl:
            outs, cr = run_cases(exe, pl[0])
            if not cr:
                still = fd_check(meta, ob, outs, pl[1])
    print("oracle now:", json.dumps(still) if still else "passes")
    return 1 if still else 0
