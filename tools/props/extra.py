"""Cross-property extensions of the plugins (applied by lib.core.load_plugin to every consumer: check.py, setup.py,
mkmanifest.py, mkstatus.py).  Work that serves several properties at once (the real-printer number codec, the model
of project_equations, …) registers its Props files, drivers and correspondence streams here, so that a property's own
plugin stays the file of its builder.  Each entry: property id -> dict(props=[…], targets=[…], drivers=[…],
streams=[callable(ctx, corr)], replays=[callable(ctx, inp) -> rc or None], level_note=str)."""


def _codec(ctx, corr):
    from gen.codec_probe import check_codec
    check_codec(ctx, corr)


def _pe(ctx, corr):
    from gen.pe_stream import pe_stream
    for f in pe_stream(ctx, corr, ctx.size(25, 400))[:20]:
        corr.failures.append(f)


def _pe_replay(ctx, inp):
    if inp.get("stream") == "pe":
        from gen.pe_stream import replay_pe
        return replay_pe(ctx, inp)
    return None


EXTRA = {
    "C12": dict(props=["Gama/Props/C12Codec.lean"], targets=["Gama.Props.C12Codec"], drivers=["drv_codec"], streams=[_codec],
                level_note="Number round trips are instantiated for the real printers (fixed / scientific / %g over Q, "
                           "Props/C12Codec.lean), whose text is compared with libstdc++ on every run (codec_probe)."),
    "C13": dict(props=["Gama/Props/C13Codec.lean"], targets=["Gama.Props.C13Codec"], drivers=["drv_codec"], streams=[_codec],
                level_note="Network round trip and fixed point are instantiated for the real %g printer over Q "
                           "(Props/C13Codec.lean); the real %g and sexagesimal gon2deg(·,0,4)/deg2gon printers over Q, angles=400 and 360."),
    "C19": dict(props=["Gama/Props/C19Codec.lean"], targets=["Gama.Props.C19Codec"], drivers=["drv_codec"], streams=[_codec],
                level_note="The adjustment-data dump round trip is instantiated for the real precision(16) %g printer over Q "
                           "(Props/C19Codec.lean)."),
    "C05": dict(props=["Gama/Props/C05ProjectEquations.lean"], targets=["Gama.Props.C05ProjectEquations"],
                drivers=["drv_pe"], streams=[_pe], replays=[_pe_replay],
                level_note="The whole LocalNetwork::project_equations() is executed as ONE model (Model/ProjectEquations.lean, "
                           "stream pe) composed of the linearisation pass, the numbering, min_x_ and the cluster walk."),
    "C01": dict(props=[], targets=[], drivers=[], streams=[]),
    "C06": dict(props=["Gama/Props/C06Assembled.lean"], targets=["Gama.Props.C06Assembled"], drivers=[], streams=[]),
}


def apply(plugin):
    e = EXTRA.get(getattr(plugin, "ID", None))
    if not e or getattr(plugin, "_extra_applied", False):
        return plugin
    plugin._extra_applied = True
    for attr, key in (("PROPS_FILES", "props"), ("LEAN_TARGETS", "targets"), ("DRIVERS", "drivers")):
        cur = list(getattr(plugin, attr, []))
        for x in e.get(key, []):
            if x not in cur:
                cur.append(x)
        setattr(plugin, attr, cur)
    if e.get("level_note"):
        plugin.LEVEL_NOTE = (getattr(plugin, "LEVEL_NOTE", "") + " " + e["level_note"]).strip()
    streams = e.get("streams") or []
    if streams:
        base = plugin.correspond

        def correspond(ctx, corr, _base=base, _streams=streams):
            _base(ctx, corr)
            for s in _streams:
                s(ctx, corr)
        plugin.correspond = correspond
    reps = e.get("replays") or []
    if reps and hasattr(plugin, "replay"):
        base_r = plugin.replay

        def replay(ctx, payload, _base=base_r, _reps=reps):
            inp = ((payload.get("failure") or {}).get("input")) or {}
            for r in _reps:
                rc = r(ctx, inp) if isinstance(inp, dict) else None
                if rc is not None:
                    return rc
            return _base(ctx, payload)
        plugin.replay = replay
    return plugin
