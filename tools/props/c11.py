"""C11 — any input is either adjusted or refused with a located diagnostic, safely."""
import concurrent.futures
import random
import glob as _glob
import importlib.util
import tempfile
from lib.core import *

ID = "C11"
PROPS_FILES = ["Gama/Props/C11.lean", "Gama/Props/C11Lang.lean", "Gama/Props/C11Values.lean", "Gama/Props/C11Valid.lean",
               "Gama/Props/C11Refuse.lean", "Gama/Props/C11Xsd.lean", "Gama/Props/C11LitEq.lean"]
LEAN_TARGETS = ["Gama.Props.C11", "Gama.Props.C11Lang", "Gama.Props.C11Values", "Gama.Props.C11Valid", "Gama.Props.C11Refuse",
                "Gama.Props.C11Xsd", "Gama.Props.C11LitEq"]
DRIVERS = ["drv_gkf"]

LEVEL_TEXT = (
    "Lean 4 theorems (all event sequences / all strings, unbounded) about an executable model of the GKF input "
    "parser: the (state, tag) automaton, the attribute-name sets and the handler skeletons are REGENERATED from "
    "gkfparser.cpp/.h on every run and the proofs re-checked; the error discipline (first error wins, absorbing "
    "error state, exception after the chunk), the numeric-literal recognisers (IsFloat, IsInteger, toIndex, deg2gon) "
    "and the cov-mat element accounting are hand-written models tied to the C++ by differential correspondence "
    "(state after every SAX event incl. every (state, tag) pair and 2-chunk delivery; all strings up to length 5/6 "
    "over a 10-letter alphabet).  Round 3: language of the GKF automaton = an explicit element grammar (both inclusions), "
    "the literal recognisers = their regular languages (iff, all strings), the cov-mat fill writes exactly the band positions; "
    "the adjustment-results reader (LocalNetworkAdjustmentResults::Parser) and the gama-g3 DataParser have their own translators "
    "(tagfun / next-after-stag-etag tables and the statement skeleton of every handler, regenerated on every run), run models in which "
    "error() does not leave the handler, theorems (state == s_error <=> located error recorded, absorbing, first error wins, "
    "every <flt> store inside the covariance storage of its moment) and event correspondences against the real parsers "
    "(state, first error, stack depth, iterator offsets after every expat callback).  "
    "Round 4: the value checks of every process_* (conversion toDouble/toInteger/toIndex/deg2gon, range test, enumeration per attribute; "
    "required variables, x/y pair rule, constructor refusals d<=0 / from==fs, band<dim per handler) are REGENERATED from the handler bodies "
    "(statement-level parse; also observation.h, xsd.h) into Gen/GkfValueChecks.lean; the run model Gkf.crun computes the dataOk bit from the "
    "real attribute strings with the proved literal recognisers and carries the members later checks read (standpoint_id, pp_id, idim/iband, "
    "observation count, cov_mat_data); it is by construction Gkf.run on computed events (C11_value_run_is_run); theorems: every attribute read "
    "has a check and only numerically checked values reach a conversion, conversions = literal languages, documented values are accepted "
    "(generated table vs hand-written documented table by decide), a valid document with documented values is accepted "
    "(C11_valid_document_accepted_partial: GIVEN the bookkeeping conditions allDocOk evaluated in the model's context - that hypothesis is "
    "discharged from the document alone in round 7), a malformed number is refused with the index of its element; correspondence: the driver "
    "gets the real attribute strings of every event and must predict state/error/line itself (only the Cholesky verdict is an input bit).  "
    "DataParser::pure_data (the test behind every numeric element of the gama-g3 / adjustment input): the order of its early returns and "
    "its 31 call sites are regenerated, the model (libstdc++ `>> double` / `>> string` / since round 7 `>> int` / `>> size_t` + pure_data) is proved to accept exactly 'no extraction "
    "failed and only white space follows' for every chain of extractions and is compared with the real iostream/pure_data on all strings up to "
    "length 4/5; oracle on gama-g3 inputs: a numeric leaf holding a non-number (incl. a number cut off at the end of the text) is refused with a "
    "located error; the diagnostic of every refused document must name the line of the event during which error() was first recorded "
    "(harness: whole chunk; gama-local: start tags spanning several lines).  "
    "Round 7: validity of a GKF document is a decidable predicate of the document TREE with its real strings (Doc'.valid / Doc'.valuesOk, "
    "Model/GkfDocTree.lean: required attributes, from inherited from <obs from=..>, x with y, positive distances, from != fs, band < dim, "
    "dim of a <cov-mat> = number of observations of its cluster, number of covariance words = number of band elements; hand-written from "
    "the xsd/manual) and every valid document with documented values is accepted (C11_valid_document_accepted: no hypothesis about the "
    "parser's bookkeeping; only the positive-definiteness bit is an input); the hand rules are compared with the regenerated requiredVars / "
    "requiredPairs / crossRules / effects / finishSpec tables in BOTH directions by decide, which also gives the refusal half (an element "
    "breaking a documented rule is refused at its start tag, a dim mismatch at the cluster's closing tag); oracle on the implementation: "
    "155 documents breaking exactly one documented rule must be refused naming that line.  "
    "Round 7, DataParser: every handler is regenerated once more with each condition described (Gen/DataParserConds.lean: pure_data / failed "
    "extraction over text_buffer with the kinds of the extracted variables, or 'other'), the run model DP.crun carries text_buffer and computes "
    "the number-format bits (it projects to DP.run: C11_dp_value_run_is_run); pure_data(istr >> double) accepts exactly FloatLang with a finite "
    "value, for all strings (C11_dp_numberOk_language; = toDouble of the GKF parser), and for the 19 elements read by one pure_data test: accepted "
    "iff the pooled text is in the chain language (given the guard bit), otherwise refused at the index of the element's END event whatever "
    "follows (C11_dp_field_accept_or_located); stream dp_values compares acceptance bit and line with the real parser.  Round 7, results reader: "
    "a self-consistent <cov-mat> is accepted for every dim/band/word list with the exact final state, a malformed or missing <flt> is located "
    "(C11_adjres_covmat_accepted / _bad_flt_located / _too_few_located; the stack shape is a hypothesis), whole documents of a sub-grammar are "
    "accepted (C11_adjres_document_accepted_partial); every allocation is bounded by the unknowns announced (C11_adjres_dim_bounded_by_unknowns).  "
    "Round 9: the refusal half at document level: Doc'.firstBad (Model/GkfDocRefuse.lean) = the first violating element of the tree, and for "
    "every document in the documented vocabulary (Doc'.inVocab: documented attribute names, the 7 attributes on which the code's check differs "
    "from the documented one - computed from the regenerated table, C11_loose_attributes - hold documented values, no empty "
    "<height-differences/>) the first error the parser records IS firstBad (C11_first_error_is_first_violation), firstBad = none <=> valid with "
    "documented values, hence accepted <=> valid (C11_document_accepted_iff) and invalid => refused at the first violating element "
    "(C11_invalid_document_refused_located; valid except dim => the cluster's closing tag, C11_dim_mismatch_document_located); blank character "
    "data between elements changes neither state, error kind nor members (C11_blank_text_same_verdict, any event list); oracle: 30 documents "
    "with two violations must be refused naming the line of the FIRST, and the same documents without white space between elements on line 2.  "
    "DataParser: the deg2gon / IsFloat / IsInteger tests of 60 handlers are computed (Cond.lit; 15 handlers keep named oracle conditions), every "
    "event gets a verdict ok/struct/field/computed/oracle and a document is accepted <=> no verdict other than ok occurs and its element "
    "sequence followed through the tables alone ends in s_stop (C11_dp_document_accepted_iff); 188 stale-text_buffer documents with expectations "
    "from the documented format.  Results reader: every token sequence the regenerated writer skeleton (C12 Gen/XmlSkeleton, re-generated by this "
    "check too) can produce, whose operands are in the hand table of operand languages leafKind and whose two cov-mat number tests hold "
    "(WriterData), is accepted by the reader model (C11_reader_accepts_writer_output; structure by one decide of an abstract run of the "
    "reader's control over the skeleton, C11_reader_structure_covers_writer); oracle: gama-local's own results through the real reader.  "
    "Round 11: xml/gama-local.xsd is translated on every run (tools/gen/c11_xsd.py -> Gen/GkfXsd.lean) and the documented tables are compared with it by "
    "decide in both directions (C11_document_rules_match_xsd: names equal except xmlns, required = use=required plus from of dh/vec, value kinds and "
    "enumerations equal; C11_xsd_nesting_is_grammar: content models with occurrence bounds = the tree type and Cluster.valid; C11_rules_beyond_xsd, "
    "C11_ranges_beyond_xsd: what the documented rules add, as data); the rule documents of the oracle are generated from the schema's required "
    "attributes and 114 schema-valid documents (an optional attribute dropped) must be accepted; the three Lean copies of IsInteger/IsFloat (C11 Lit, "
    "C18 Literals, C07 PointId) are proved equal for all strings with the two exact differences stated (C11_literal_recognisers_agree).  "
    "Results reader: leafKind = kind of the format of the site in C12's regenerated Gen/XmlFmtSites.lean (159 element sites, decide), renderings are in the "
    "reader's languages, hence every document of the writer MODEL (operands = renderings of arbitrary rationals / ints in their site's format) that meets the two "
    "cov-mat count tests is accepted (C11_reader_accepts_writer_model_output).  "
    "Memory safety, termination and the located diagnostic of the real process are NOT "
    "proved: they are explored by running gama-local built with ASan+UBSan on grammar-derived, mutated and truncated inputs.")
LEVEL_NOTE = (
    "Trusted: Lean kernel; statements in Props/C11*.lean (12 files); the translators tools/gen/c11_gkf_automaton.py, c11_gkf_values.py, "
    "c11_adjres.py, c11_dataparser.py (validated by executing their output next to the C++ on every run); harness/c11_gkf.cpp, c11_adjres.cpp, "
    "c11_dataparser.cpp; generators; the hand-written documented value table "
    "Model/GkfDocValues.lean and the documented rule table docRules / Leaf'.count of Model/GkfDocTree.lean (from gama-local.xsd + manual, read by no tool). In the value model the only abstract bit left is the positive-definiteness "
    "verdict of finish_* (taken from the implementation's message in the correspondence); the older event stream with one bit per event is kept. "
    "The iff accepted <=> valid holds for documents in the documented vocabulary (hypothesis Doc'.inVocab; the parser's liberal spots are outside it and are accepted). "
    "DataParser: the conditions that are not number formats (Cond.other of 15 handlers: xmlns loop, id lookups, N/E status, g3_obs, g3_obs_cov behind the dimensions, "
    "counters and matrix code of the adjustment input; the guards g3->model != nullptr and dim>0 && width<dim) stay input bits, named by the conjunct oracleBitsOk of "
    "C11_dp_document_accepted_iff. Results reader: acceptance of the writer's output is relative to WriterData (hand table leafKind of operand languages; finite double "
    "rendered in scientific format is in FloatLang: not proved; the two cov-mat count tests). expat, atof/atoi, iostream extraction, heap behaviour are outside the model.")
TECHNIQUE = ("Lean 4 proof over a model regenerated from the source (translator) + model/implementation correspondence "
             "+ sanitizer-instrumented input search for the runtime clauses")
RULE = ("documents: per element a valid context with one or two attribute values replaced by strings of the literal languages and their "
        "complements (floats, integers, d-m-s, range borders, enumerations, ids) or a required attribute dropped; "
        "grammar-derived (valid values), one structural/attribute/value mutation of those, every (state, tag) "
        "probe, archived inputs, each whole and in 2-chunk splits; distinct by SAX event text; non-trivial = at least 6 "
        "events. literals: every string of length <= 5 (quick) / 6 (thorough) over {0,1,9,+,-,.,e,E,' ',x} plus random "
        "longer ones; distinct by string. cov-mat: dim/band/text variants; distinct by triple. executable runs: distinct by file bytes")
TRUSTED = ["tools/gen/c11_gkf_automaton.py (mini-parser of gkfparser.cpp/.h; raises TieBroken on anything unrecognised)",
           "tools/gen/c11_gkf_values.py (statement-level parser of every process_* body, observation.h constructors, xsd.h; normal form "
           "per attribute + per handler, TieBroken on any statement it does not recognise)",
           "tools/gen/c11_adjres.py, tools/gen/c11_dataparser.py (same, for localnetwork_adjustment_results.{h,cpp} and dataparser*.cpp; "
           "the fixed callbacks startElement/endElement/get_int/... are compared textually with what the run model was written for; "
           "c11_dataparser.py also emits Gen/DataParserConds.lean: every condition as pure / fails / lit / other with the kinds of the extracted variables)",
           "tools/gen/c12_skeleton.py + c12_sites.py (C12's translators of LocalNetworkXML::write, called by the C11 check to regenerate "
           "Gen/XmlSkeleton.lean / Gen/XmlSites.lean, the writer side of C11_reader_accepts_writer_output)",
           "tools/gen/c11_xsd.py (reader of xml/gama-local.xsd: only the schema constructs that occur in the file, TieBroken on anything else)",
           "Model/GkfDocTree.lean / GkfDocRefuse.lean / GkfDocValues.lean: hand definitions Doc'.valid, valuesOk, firstBad, inVocab over the hand tables "
           "docRules, docCheck, Leaf'.count, tagHandler, bandElems, kidTags: since round 11 compared by decide with the REGENERATED schema (Gen/GkfXsd.lean: "
           "attribute names, required attributes, value kinds and enumerations, children and occurrence bounds; differences are data: xmlns, from of "
           "dh/vec, the rules and ranges beyond the schema) and with the regenerated tables of the parser, both in both directions; what stays trusted of "
           "them is what neither states: Leaf'.count, bandElems (compared with finish_cov), the five ranges from the manual, emptyAbsent flags",
           "Model/AdjResWriter.lean: the tables leafKind / attrReq are since round 11 checked by decide against C12's regenerated Gen/XmlFmtSites.lean and "
           "Gen/XmlSites.lean (C11_leafKind_is_site_format, _is_table_kind, _tags_have_sites, C11_nonnumeric_operands_are_source) and every fixed / sci / gen "
           "rendering of a rational resp. decimal rendering of an Int is in the reader's language (C11_rendering_in_reader_language), so the operand languages "
           "hold for the writer model (C11_reader_accepts_writer_model_output); left: the hypothesis RunDemand (cov-mat count tests dim <= unknowns, tmp_i == tmp_e), "
           "the .int site classification of tools/gen/c12_skeleton.py (a tag-name table), the macro -> URL resolution in tools/gen/c11_adjres.py, inf/nan (over Q out of scope); "
           "the C11 check's translate regenerates three C12 Gen files (XmlSites, XmlSkeleton, XmlFmtSites) through C12's generators, written only on change",
           "harness/c11_adjres.cpp: includes the header with `private` re-defined (access only) and re-registers expat trampolines "
           "around the real `final` callbacks; members the constructor leaves unassigned are preset (tmp_i == tmp_e)",
           "harness/c11_gkf.cpp: subclass of GKFparser printing expat's events and the protected state/errCode/errString",
           "libexpat (event delivery, well-formedness, line numbers)"]
MODELLED = ["the Cholesky (positive definite) test inside finish_* (one input bit per cluster end in Gkf.crun); in Gkf.run all value checks are one bit per event",
            "literals whose atof is zero/denormal only through the *G2R scaling of a z-angle; toIndex values >= 2^31 (cast undefined in C++; modelled as refused)",
            "expat", "atof/atoi/istringstream number conversion "
            "(only the accepted language of deg2gon's extractions is modelled, overflow to HUGE_VAL excluded)",
            "memory safety and termination of the C++ process (sanitizer search only)",
            "adjustment-results reader and DataParser: the values stored into the result objects (only control state, error, "
            "stack of open elements, covariance storage size / iterators / writes / allocations, the unknowns counter of the reader, and since round 7 "
            "DataParser's text_buffer with the number-format conditions are modelled; the other DataParser conditions are one input bit each); "
            "HtmlParser (sanitizer search only)"]
ASSUMPTIONS = ["expat delivers a prefix of a well-nested event sequence (one root element)",
               "'C' locale for isspace/isdigit", "char values >= 0x80 are neither blank nor digit",
               "memory safety / termination / located diagnostic: explored under ASan+UBSan on generated inputs, not proved"]

_spec = importlib.util.spec_from_file_location("c11_gkf_automaton", str(VERIF / "tools" / "gen" / "c11_gkf_automaton.py"))
_tr = importlib.util.module_from_spec(_spec)
_spec.loader.exec_module(_tr)
_tr.TieBroken = TieBroken
_spx = importlib.util.spec_from_file_location("c11_xsd", str(VERIF / "tools" / "gen" / "c11_xsd.py"))
_xsd = importlib.util.module_from_spec(_spx)
_spx.loader.exec_module(_xsd)
_xsd.TieBroken = TieBroken


# the other two parsers of the property's statement: own translator + model + event stream each
def _load(name):
    sp = importlib.util.spec_from_file_location(name, str(VERIF / "tools" / "props" / (name + ".py")))
    m = importlib.util.module_from_spec(sp)
    sp.loader.exec_module(m)
    return m


SUBS = [_load(n) for n in ("c11_adjres", "c11_dataparser") if (VERIF / "tools" / "props" / (n + ".py")).exists()]
for _m in SUBS:
    PROPS_FILES = PROPS_FILES + _m.PROPS_FILES
    LEAN_TARGETS = LEAN_TARGETS + _m.LEAN_TARGETS
    DRIVERS = DRIVERS + _m.DRIVERS


def translate(ctx):
    errs = []
    for f in [lambda c: _tr.run(c.repo, c.verif), lambda c: _xsd.run(c.repo, c.verif)] + [m.translate for m in SUBS]:
        try:
            f(ctx)
        except TieBroken as e:       # regenerate the other tables all the same; report the first broken translator
            errs.append(e)
    if errs:
        raise errs[0]



# ------------------------------------------------------------------ termination = CPU time, never wall time
CPU_LIMIT = 20        # seconds of CPU time a run may use: the non-termination criterion (RLIMIT_CPU, soft; SIGXCPU)
WALL_LIMIT = 900      # generous wall clock; expiring WITHOUT CPU exhaustion only means the machine is loaded


def sh_cpu(cmd, cpu=CPU_LIMIT, wall=WALL_LIMIT):
    """-> (rc, out, err).  rc == "cpu": the process used up its CPU-time limit (reported as non-termination);
    rc == "wall": the wall clock expired before the CPU limit (load): inconclusive, counted, never a violation.
    The limit is set by the shell that execs the command (no preexec_fn: these calls run on 16 threads)."""
    wrapped = ["/bin/sh", "-c", f'ulimit -S -t {cpu}; ulimit -H -t {cpu + 5}; exec "$@"', "sh"] + [str(c) for c in cmd]
    try:
        rc, out, err = sh(wrapped, timeout=wall)
    except subprocess.TimeoutExpired:
        return "wall", "", ""
    if rc in (-24, 128 + 24):          # SIGXCPU
        return "cpu", out, err
    return rc, out, err


def wall_inconclusive(corr, what):
    corr.count("wall_clock_expired_without_cpu_exhaustion")
    msg = "wall-clock limit expired without CPU exhaustion (loaded machine): " + what
    if len(corr.inconclusive) < 20:
        corr.inconclusive.append(msg)


def is_wall_timeout(crash):
    """run_cases reports a wall-clock expiry of the whole batch as (-9, "timeout") on its first case"""
    return crash is not None and crash[0] == -9 and crash[1] == "timeout"


def decorate_failures(ctx, corr):
    """every oracle failure carries the label of its input and the first 200 bytes (hex) in `what`/`detail`,
    and the first few are written to the log as one line each"""
    if getattr(corr, "_c11_decorated", False):
        return
    orig, shown = corr.fail, [0]

    def fail(what, replay, site="", detail=""):
        lab, hx = "", ""
        if isinstance(replay, dict):
            lab = str(replay.get("label") or replay.get("name") or replay.get("file") or "")
            if replay.get("doc_hex"):
                hx = str(replay["doc_hex"])[:400]
            elif isinstance(replay.get("doc"), str):
                hx = replay["doc"].encode("utf-8", "replace")[:200].hex()
            elif isinstance(replay.get("doc"), (bytes, bytearray)):
                hx = bytes(replay["doc"])[:200].hex()
            elif replay.get("ops") is not None:
                hx = " ".join(map(str, replay["ops"]))[:200].encode("utf-8", "replace").hex()
        if lab and lab not in what:
            what = f"{what} [{lab}]"
        head = f"[input: {lab or '?'} | first 200 bytes (hex): {hx or '-'}]"
        detail = head + "\n" + (detail or "")
        if len(detail) > 3900:
            detail = detail[:3000 - len(head)] + "\n[...]\n" + detail[-(800 - len(head)):] + "\n" + head
        orig(what, replay, site, detail)
        if shown[0] < 10:
            shown[0] += 1
            ctx.log("ORACLE-FAILURE:", what[:400], "| site:", site, "| first bytes (hex):", hx[:400] or "-")
    corr.fail = fail
    corr._c11_decorated = True

# ------------------------------------------------------------------ documents

XMLNS = "http://www.gnu.org/software/gama/gama-local"


class El:
    def __init__(self, tag, attrs=None, kids=None, text=None):
        self.tag, self.attrs, self.kids, self.text = tag, list(attrs or []), list(kids or []), text

    def clone(self):
        return El(self.tag, list(self.attrs), [k.clone() for k in self.kids], self.text)


def esc(s):
    return s.replace("&", "&amp;").replace("<", "&lt;").replace('"', "&quot;")


def ser(e, nl="\n"):
    a = "".join(f' {k}="{esc(v)}"' for k, v in e.attrs)
    if not e.kids and e.text is None:
        return f"<{e.tag}{a}/>{nl}"
    body = esc(e.text) if e.text is not None else nl + "".join(ser(k, nl) for k in e.kids)
    return f"<{e.tag}{a}>{body}</{e.tag}>{nl}"


def doc_text(root, decl=True):
    return ('<?xml version="1.0" ?>\n' if decl else "") + ser(root)


def fl(rng, lo=-500.0, hi=500.0):
    x = rng.uniform(lo, hi)
    return rng.choice(["%.3f" % x, "%.1f" % x, "%d" % int(x), "%.4e" % x, " %.2f " % x, "+%.2f" % abs(x)])


def pos(rng, lo=0.5, hi=20.0):
    return "%.2f" % rng.uniform(lo, hi)


def cov_text(rng, dim, band, diag=None):
    """upper band, row by row, diagonally dominant -> positive definite"""
    out = []
    for r in range(dim):
        for c in range(r, min(dim, r + band + 1)):
            out.append("%.1f" % (diag or rng.uniform(20, 40)) if c == r else "%.2f" % rng.uniform(-1, 1))
    sep = rng.choice([" ", "\n", "  ", " \n "])
    return sep + sep.join(out) + sep


def gen_network(rng, size=None):
    """a grammar-derived document with valid values (a small real network: points on a jittered grid)"""
    n = size or rng.randint(3, 6)
    pts = [(f"P{i}", 100.0 * (i % 3) + rng.uniform(-20, 20), 100.0 * (i // 3) + rng.uniform(-20, 20), rng.uniform(200, 260))
           for i in range(n)]
    import math
    po = []
    for i, (pid, x, y, z) in enumerate(pts):
        a = [("id", pid), ("x", "%.3f" % x), ("y", "%.3f" % y)]
        if rng.random() < 0.7:
            a.append(("z", "%.3f" % z))
        a.append(("fix", rng.choice(["xy", "xyz", "XY"])) if i < 2 else ("adj", rng.choice(["xy", "xyz", "XYZ", "xyZ"])))
        if rng.random() < 0.3:
            rng.shuffle(a)
        po.append(El("point", a))

    def dist(a, b):
        return math.hypot(a[1] - b[1], a[2] - b[2])

    def bearing(a, b):
        return (math.atan2(b[1] - a[1], b[2] - a[2]) * 200 / math.pi) % 400   # gons, axes ne
    for _ in range(rng.randint(1, 3)):
        st = rng.choice(pts)
        others = [p for p in pts if p is not st]
        kids = []
        ori = rng.uniform(0, 400)
        for tg in rng.sample(others, min(len(others), rng.randint(1, 4))):
            kind = rng.choice(["direction", "distance", "distance", "angle", "s-distance", "z-angle", "azimuth"])
            if kind == "direction":
                a = [("to", tg[0]), ("val", "%.4f" % ((bearing(st, tg) - ori) % 400))]
                if rng.random() < 0.4:
                    a.append(("stdev", pos(rng)))
            elif kind == "distance":
                a = [("to", tg[0]), ("val", "%.3f" % dist(st, tg))]
                if rng.random() < 0.3:
                    a.insert(0, ("from", st[0]))
                if rng.random() < 0.4:
                    a.append(("stdev", pos(rng)))
            elif kind == "angle":
                t2 = rng.choice([p for p in others if p is not tg] or [tg])
                a = [("bs", tg[0]), ("fs", t2[0]), ("val", "%.4f" % ((bearing(st, t2) - bearing(st, tg)) % 400))]
                if rng.random() < 0.3:
                    a.append(("stdev", pos(rng)))
            elif kind == "s-distance":
                a = [("to", tg[0]), ("val", "%.3f" % math.sqrt(dist(st, tg) ** 2 + (tg[3] - st[3]) ** 2)), ("stdev", pos(rng))]
            elif kind == "z-angle":
                a = [("to", tg[0]), ("val", "%.4f" % (100 - math.atan2(tg[3] - st[3], dist(st, tg)) * 200 / math.pi)), ("stdev", pos(rng))]
            else:
                a = [("to", tg[0]), ("val", "%.4f" % bearing(st, tg)), ("stdev", pos(rng))]
            if rng.random() < 0.15:
                a.append(("from_dh", "%.2f" % rng.uniform(1, 2)))
            if rng.random() < 0.1:
                a.append(("extern", "e%d" % rng.randint(1, 99)))
            kids.append(El(kind, a))
        if rng.random() < 0.35:
            d = len(kids)
            b = rng.randint(0, d - 1)
            kids.append(El("cov-mat", [("dim", str(d)), ("band", str(b))], text=cov_text(rng, d, b, diag=25.0)))
        oa = [("from", st[0])]
        if rng.random() < 0.2:
            oa.append(("orientation", "%.2f" % ori))
        po.append(El("obs", oa, kids))
    if rng.random() < 0.5:
        kids = []
        for _ in range(rng.randint(1, 3)):
            a, b = rng.sample(pts, 2)
            at = [("from", a[0]), ("to", b[0]), ("val", "%.4f" % (b[3] - a[3]))]
            at.append(("stdev", pos(rng))) if rng.random() < 0.6 else at.append(("dist", "%.2f" % (dist(a, b) / 1000 + 0.1)))
            kids.append(El("dh", at))
        if rng.random() < 0.5:
            d = len(kids)
            b = rng.randint(0, d - 1)
            kids.append(El("cov-mat", [("dim", str(d)), ("band", str(b))], text=cov_text(rng, d, b)))
        po.append(El("height-differences", [], kids))
    if rng.random() < 0.4:
        kids, d = [], 0
        for p in rng.sample(pts, rng.randint(1, 2)):
            if rng.random() < 0.6:
                kids.append(El("point", [("id", p[0]), ("x", "%.3f" % p[1]), ("y", "%.3f" % p[2])]))
                d += 2
            else:
                kids.append(El("point", [("id", p[0]), ("z", "%.3f" % p[3])]))
                d += 1
        b = rng.randint(0, d - 1)
        kids.append(El("cov-mat", [("dim", str(d)), ("band", str(b))], text=cov_text(rng, d, b)))
        po.append(El("coordinates", [("extern", "c1")] if rng.random() < 0.2 else [], kids))
    if rng.random() < 0.4:
        kids = []
        for _ in range(rng.randint(1, 2)):
            a, b = rng.sample(pts, 2)
            kids.append(El("vec", [("from", a[0]), ("to", b[0]), ("dx", "%.3f" % (b[1] - a[1])), ("dy", "%.3f" % (b[2] - a[2])),
                                   ("dz", "%.3f" % (b[3] - a[3]))]))
        d = 3 * len(kids)
        b = rng.randint(0, d - 1)
        kids.append(El("cov-mat", [("dim", str(d)), ("band", str(b))], text=cov_text(rng, d, b)))
        po.append(El("vectors", [], kids))
    head = [p for p in po if p.tag == "point"]
    tail = [p for p in po if p.tag != "point"]
    rng.shuffle(tail)
    poa = [("distance-stdev", rng.choice(["5", "5 3", "5 3 1", " 4.0  2 "])), ("direction-stdev", pos(rng)), ("angle-stdev", pos(rng))]
    poa.append(("zenith-angle-stdev", pos(rng)))
    poa.append(("azimuth-stdev", pos(rng)))
    net_kids = []
    if rng.random() < 0.6:
        net_kids.append(El("description", text=rng.choice(["net", "a <b> & c", "  ", "multi\nline text"])))
    if rng.random() < 0.7:
        pa = [("sigma-apr", pos(rng)), ("conf-pr", rng.choice(["0.95", "0.9", "0.99"])), ("tol-abs", "1000"),
              ("sigma-act", rng.choice(["aposteriori", "apriori"]))]
        if rng.random() < 0.4:
            pa.append(("algorithm", rng.choice(["gso", "svd", "cholesky", "envelope"])))
        if rng.random() < 0.3:
            pa.append(("angular", rng.choice(["400", "360"])))
        if rng.random() < 0.2:
            pa.append(("cov-band", rng.choice(["-1", "0", "2"])))
        if rng.random() < 0.2:
            pa.append(("latitude", rng.choice(["50", "49-30-10.5"])))
        if rng.random() < 0.2:
            pa.append(("ellipsoid", "wgs84"))
        net_kids.append(El("parameters", pa[:rng.randint(0, len(pa))] if rng.random() < 0.3 else pa))
    net_kids.append(El("points-observations", poa, head + tail))
    rng.shuffle(net_kids)
    na = []
    if rng.random() < 0.5:
        na.append(("axes-xy", "ne"))
    if rng.random() < 0.3:
        na.append(("angles", "left-handed"))
    if rng.random() < 0.2:
        na.append(("epoch", "2020.5"))
    return El("gama-local", [("xmlns", XMLNS)], [El("network", na, net_kids)])


ALL_TAGS = ["gama-local", "gama-xml", "network", "description", "parameters", "points-observations", "point", "obs", "cov-mat",
            "direction", "distance", "angle", "s-distance", "z-angle", "height-differences", "dh", "coordinates", "vectors",
            "vec", "azimuth", "bogus"]


def walk(e, out=None, parent=None):
    out = [] if out is None else out
    out.append((e, parent))
    for k in e.kids:
        walk(k, out, e)
    return out


def mutate(rng, root):
    """one mutation of a valid document; returns (root, description)"""
    r = root.clone()
    nodes = walk(r)
    kind = rng.choice(["insert", "insert", "rename", "delete", "attr", "attr", "value", "value", "text", "dupcov", "dropcov", "emptyattr"])
    e, par = rng.choice(nodes)
    if kind == "insert":
        t = rng.choice(ALL_TAGS)
        e.text = None
        e.kids.insert(rng.randint(0, len(e.kids)), El(t, []))
        return r, f"insert <{t}> into <{e.tag}>"
    if kind == "rename":
        old = e.tag
        e.tag = rng.choice(ALL_TAGS)
        return r, f"rename <{old}> to <{e.tag}>"
    if kind == "delete" and par is not None:
        par.kids.remove(e)
        return r, f"delete <{e.tag}>"
    if kind == "attr":
        e.attrs.insert(rng.randint(0, len(e.attrs)), (rng.choice(["bogus", "extern", "from", "to", "val", "stdev", "id", "x", "language", "encoding", "dim"]), "1"))
        names = [k for k, _ in e.attrs]
        if len(set(names)) != len(names):      # duplicate attribute = not well-formed; keep it, expat refuses
            pass
        return r, f"attribute on <{e.tag}>"
    if kind == "value" and e.attrs:
        i = rng.randrange(len(e.attrs))
        k, v = e.attrs[i]
        e.attrs[i] = (k, rng.choice(["", "abc", "1e", "1.2.3", "-", "1 1", v + "x", "١٢", "1e999", "1e300", "-1e18", "99999999999", "-5", "0", "1.5", "NaN", "inf"]))
        return r, f"value {k}={e.attrs[i][1]!r} on <{e.tag}>"
    if kind == "text":
        e.kids.insert(rng.randint(0, len(e.kids)), El("__text__", text=rng.choice(["x", " 1 2 ", "\t\n", "&amp;"])))
        return r, f"text into <{e.tag}>"
    if kind == "dupcov":
        covs = [(x, p) for x, p in nodes if x.tag == "cov-mat"]
        if covs:
            x, p = rng.choice(covs)
            p.kids.append(x.clone())
            return r, "second cov-mat"
    if kind == "dropcov":
        covs = [(x, p) for x, p in nodes if x.tag == "cov-mat"]
        if covs:
            x, p = rng.choice(covs)
            p.kids.remove(x)
            return r, f"drop cov-mat of <{p.tag}>"
    if kind == "emptyattr" and e.attrs:
        i = rng.randrange(len(e.attrs))
        e.attrs[i] = (e.attrs[i][0], "")
        return r, f"empty {e.attrs[i][0]} on <{e.tag}>"
    e.attrs.append(("bogus", "1"))
    return r, f"attribute on <{e.tag}>"


def ser_mut(e, nl="\n"):
    """serialiser that understands the pseudo element __text__ (raw character data between children)"""
    if e.tag == "__text__":
        return e.text
    a = "".join(f' {k}="{esc(v)}"' for k, v in e.attrs)
    if not e.kids and e.text is None:
        return f"<{e.tag}{a}/>{nl}"
    body = esc(e.text) if e.text is not None else nl + "".join(ser_mut(k, nl) for k in e.kids)
    return f"<{e.tag}{a}>{body}</{e.tag}>{nl}"


# prefixes that reach every state of the automaton; the probe then tries every tag and an end tag
def state_prefixes():
    g = f'<gama-local xmlns="{XMLNS}">'
    n = g + "<network>"
    p = n + '<points-observations>'
    o = p + '<obs from="A">'
    h = p + "<height-differences>"
    c = p + "<coordinates>"
    v = p + "<vectors>"
    cov = '<cov-mat dim="1" band="0">'
    return {
        "start": "", "gama_xml": g, "network": n, "description": n + "<description>", "parameters": n + "<parameters>",
        "point_obs": p, "point": p + '<point id="A" x="1" y="2">', "obs": o,
        "obs_direction": o + '<direction to="B" val="1">', "obs_distance": o + '<distance to="B" val="1">',
        "obs_angle": o + '<angle bs="B" fs="C" val="1">', "obs_sdistance": o + '<s-distance to="B" val="1">',
        "obs_zangle": o + '<z-angle to="B" val="1">', "obs_azimuth": o + '<azimuth to="B" val="1">',
        "obs_cov": o + '<distance to="B" val="1"/>' + cov, "obs_after_cov": o + '<distance to="B" val="1"/>' + cov + "1</cov-mat>",
        "coords": c, "coords_point": c + '<point id="A" z="1">', "coords_cov": c + '<point id="A" z="1"/>' + cov,
        "coords_after_cov": c + '<point id="A" z="1"/>' + cov + "1</cov-mat>",
        "hdiffs": h, "hdiffs_dh": h + '<dh from="A" to="B" val="1">', "hdiffs_cov": h + '<dh from="A" to="B" val="1"/>' + cov,
        "hdiffs_after_cov": h + '<dh from="A" to="B" val="1"/>' + cov + "1</cov-mat>",
        "vectors": v, "vectors_vec": v + '<vec from="A" to="B" dx="1" dy="1" dz="1">',
        "vectors_cov": v + '<vec from="A" to="B" dx="1" dy="1" dz="1"/><cov-mat dim="3" band="0">',
        "vectors_after_cov": v + '<vec from="A" to="B" dx="1" dy="1" dz="1"/><cov-mat dim="3" band="0">1 1 1</cov-mat>',
        "stop": g + "</gama-local>", "error": g + "<bogus/>",
    }


def probe_docs():
    docs = []
    for st, pre in state_prefixes().items():
        for t in ALL_TAGS:
            docs.append((f"probe {st} <{t}>", pre + f"<{t}>"))
        docs.append((f"probe {st} text", pre + "x"))
        docs.append((f"probe {st} blank", pre + " \n"))
        # close the innermost open element (if any), then one more
        opened = re.findall(r"<(/?)([\w-]+)[^>]*?(/?)>", pre)
        stack = []
        for close, name, selfc in opened:
            if close:
                stack.pop()
            elif not selfc:
                stack.append(name)
        tail = ""
        for name in reversed(stack):
            tail += f"</{name}>"
            docs.append((f"probe {st} close x{tail.count('</')}", pre + tail))
    return docs



# ------------------------------------------------------------------ documents that exercise the VALUE checks
# (gap #8: events carry the real attribute strings; values are drawn from the literal languages AND their complements)

FLOAT_OK = ["1", "+1.5", "-2", ".5", "5.", "1e3", "1E-3", " 7 ", "007", "1e+308", "0", "-0", "0.0", "1e-400", "-1e-400", "12.25",
            "\t3\n", "1.7976931348623157e308", "100", "0.001", "399.9999", "2.5e0"]
FLOAT_BAD = ["", " ", "abc", "1e", "1.2.3", "-", "+", "1 1", "1x", "0x10", "NaN", "inf", "1e999", "-1e999", "1,5", "١٢", ".", "e5",
             "--1", "1e+", ".e1", "1d3", "1.7976931348623159e308", "+-1", "1e 3"]
INT_POOL = ["5", "-1", "+3", " 2 ", "007", "2147483647", "2147483648", "99999999999", "-", "+", "1.0", "1e2", ""]
DMS_POOL = ["10-20-30", "10-20-30.5", "-10-20-30", "+0-0-0", "0-0-0", "10-20", "10-20-30-40", "10--20-30", "400-0-0", "1-2-3e2",
            " 1-2-3 ", "1 -2-3", "-0-0-0.5", "0-0-1e-5", "1-2-", "1-2-x", "2147483648-0-0", "0-61-61"]
RANGE_POOL = ["0", "-0", "1", "0.99999999999999999999", "0.9999999999999999", "1.0000000000000001", "1.00000000000000000001", "0.5", "2", "-5",
              "1e-400", "0.95", "1e0", "10e-1", "0.1e1", "9.9e-1"]
ENUM_POOL = ["xy", "XY", "z", "Z", "xyz", "XYZ", "XYz", "xyZ", "xY", "Xy", "XY ", "", "ne", "sw", "NE", "left-handed", "right-handed", "400",
             "360", "200", "apriori", "aposteriori", "gso", "svd", "nonsense", "http://www.gnu.org/software/gama/gama-local", "http://x"]
ID_POOL = ["A", "B", "C", " A ", "A  B", "", "1", "01", "é"]
ALL_VALUES = FLOAT_OK + FLOAT_BAD + INT_POOL + DMS_POOL + RANGE_POOL + ENUM_POOL[:12] + ID_POOL

FLOAT_RX = re.compile(r"[ \t\n\r\f\v]*[+-]?(\d+\.?\d*|\.\d+)([eE][+-]?\d+)?[ \t\n\r\f\v]*\Z")
DMS_RX = re.compile(r"[ \t\n\r\f\v]*[+-]?\d+-\d+-\d+(\.\d*)?([eE][+-]?\d+)?[ \t\n\r\f\v]*\Z")
# documented type of the attribute (gama-local.xsd): 'double' | 'angle' (NMTOKEN: gons or d-m-s)
DOC_NUMERIC = {}
for _t, _as in {"network": ["epoch"], "parameters": ["sigma-apr", "conf-pr", "tol-abs"],
                "points-observations": ["direction-stdev", "angle-stdev", "zenith-angle-stdev", "azimuth-stdev"],
                "point": ["x", "y", "z"], "obs": ["orientation", "from_dh"],
                "direction": ["stdev", "from_dh", "to_dh"], "distance": ["val", "stdev", "from_dh", "to_dh"],
                "angle": ["stdev", "from_dh", "bs_dh", "fs_dh"], "s-distance": ["val", "stdev", "from_dh", "to_dh"],
                "z-angle": ["stdev", "from_dh", "to_dh"], "azimuth": ["stdev", "from_dh", "to_dh"],
                "dh": ["val", "stdev", "dist"], "vec": ["dx", "dy", "dz", "from_dh", "to_dh"]}.items():
    for _a in _as:
        DOC_NUMERIC[(_t, _a)] = "double"
for _t in ("direction", "angle", "z-angle", "azimuth"):
    DOC_NUMERIC[(_t, "val")] = "angle"


def doc_literal_ok(kind, v):
    """is v a literal of the documented language (finite double; for 'angle' also d-m-s)?"""
    if FLOAT_RX.match(v):
        try:
            return abs(float(v.strip())) != float("inf")
        except ValueError:
            return False
    return kind == "angle" and bool(DMS_RX.match(v))


def value_contexts():
    """(tag, valid attributes, function that wraps the element into a document; the element is alone on its line)"""
    P = [El("point", [("id", "A"), ("x", "0"), ("y", "0"), ("z", "10")]), El("point", [("id", "B"), ("x", "100"), ("y", "0"), ("z", "12")]),
         El("point", [("id", "C"), ("x", "0"), ("y", "100"), ("z", "14")])]

    def docw(po_kids, po_attrs=None, net_kids=None, net_attrs=None, root_attrs=None):
        po = El("points-observations", po_attrs if po_attrs is not None else [("direction-stdev", "10"), ("distance-stdev", "5"),
                                                                             ("angle-stdev", "10"), ("zenith-angle-stdev", "10"),
                                                                             ("azimuth-stdev", "10")], [p.clone() for p in P] + po_kids)
        return El("gama-local", root_attrs if root_attrs is not None else [("xmlns", XMLNS)],
                  [El("network", net_attrs or [], (net_kids or []) + [po])])
    cov1 = lambda n: El("cov-mat", [("dim", str(n)), ("band", "0")], text=" ".join(["4"] * n))
    ctx = []
    ctx.append(("gama-local", [("xmlns", XMLNS), ("version", "2.0")], lambda e: docw([], root_attrs=e.attrs)))
    ctx.append(("network", [("axes-xy", "ne"), ("angles", "left-handed"), ("epoch", "2020.5")], lambda e: docw([], net_attrs=e.attrs)))
    ctx.append(("parameters", [("sigma-apr", "10"), ("conf-pr", "0.95"), ("tol-abs", "1000"), ("sigma-act", "apriori"), ("angular", "400"),
                               ("algorithm", "gso"), ("cov-band", "-1"), ("latitude", "50"), ("ellipsoid", "wgs84"), ("language", "en"),
                               ("encoding", "utf-8"), ("angles", "400")], lambda e: docw([], net_kids=[e])))
    ctx.append(("points-observations", [("distance-stdev", "5 3 1"), ("direction-stdev", "10"), ("angle-stdev", "10"),
                                        ("zenith-angle-stdev", "10"), ("azimuth-stdev", "10")], lambda e: docw([], po_attrs=e.attrs)))
    ctx.append(("point", [("id", "D"), ("x", "5"), ("y", "6"), ("z", "7"), ("fix", "xy"), ("adj", "z")], lambda e: docw([e])))
    ctx.append(("obs", [("from", "A"), ("orientation", "10"), ("from_dh", "1.5")],
                lambda e: docw([El("obs", e.attrs, [El("distance", [("to", "B"), ("val", "100")])])])))
    for t, a in [("direction", [("to", "B"), ("val", "10.5"), ("stdev", "10"), ("from_dh", "1"), ("to_dh", "2"), ("extern", "e")]),
                 ("distance", [("from", "A"), ("to", "B"), ("val", "100"), ("stdev", "5"), ("from_dh", "1"), ("to_dh", "2"), ("extern", "e")]),
                 ("angle", [("from", "A"), ("bs", "B"), ("fs", "C"), ("val", "100"), ("stdev", "5"), ("from_dh", "1"), ("bs_dh", "2"),
                            ("fs_dh", "3"), ("extern", "e")]),
                 ("s-distance", [("from", "A"), ("to", "B"), ("val", "100"), ("stdev", "5"), ("from_dh", "1"), ("to_dh", "2"), ("extern", "e")]),
                 ("z-angle", [("from", "A"), ("to", "B"), ("val", "98"), ("stdev", "5"), ("from_dh", "1"), ("to_dh", "2"), ("extern", "e")]),
                 ("azimuth", [("from", "A"), ("to", "B"), ("val", "100"), ("stdev", "5"), ("from_dh", "1"), ("to_dh", "2"), ("extern", "e")])]:
        ctx.append((t, a, lambda e: docw([El("obs", [("from", "A")], [e])])))
        ctx.append((t, a, lambda e: docw([El("obs", [], [e])])))                       # no standpoint on <obs>
        ctx.append((t, a, lambda e: docw([El("obs", [("from", "A")], [e, cov1(1)])])))
    ctx.append(("dh", [("from", "A"), ("to", "B"), ("val", "2"), ("stdev", "1"), ("dist", "0.1"), ("extern", "e")],
                lambda e: docw([El("height-differences", [], [e])])))
    ctx.append(("dh", [("from", "A"), ("to", "B"), ("val", "2"), ("dist", "0.1")],
                lambda e: docw([El("height-differences", [], [e, cov1(1)])])))
    ctx.append(("point", [("id", "A"), ("x", "1"), ("y", "2"), ("z", "3")], lambda e: docw([El("coordinates", [], [e, cov1(3)])])))
    ctx.append(("point", [("id", "A"), ("z", "3")], lambda e: docw([El("coordinates", [("extern", "x")], [e, cov1(1)])])))
    ctx.append(("point", [("id", "A"), ("x", "1"), ("y", "2")], lambda e: docw([El("coordinates", [], [e, cov1(2)])])))
    ctx.append(("vec", [("from", "A"), ("to", "B"), ("dx", "100"), ("dy", "0"), ("dz", "2"), ("from_dh", "1"), ("to_dh", "2"), ("extern", "e")],
                lambda e: docw([El("vectors", [], [e, cov1(3)])])))
    for n, kids in [(1, lambda: [El("distance", [("to", "B"), ("val", "100")])]),
                    (2, lambda: [El("distance", [("to", "B"), ("val", "100")]), El("direction", [("to", "C"), ("val", "5")])])]:
        ctx.append(("cov-mat", [("dim", str(n)), ("band", "0")],
                    (lambda kids, n: lambda e: docw([El("obs", [("from", "A")], kids() + [El("cov-mat", e.attrs, text=" ".join(["4"] * n))])]))(kids, n)))
    ctx.append(("cov-mat", [("dim", "3"), ("band", "1")],
                lambda e: docw([El("vectors", [], [El("vec", [("from", "A"), ("to", "B"), ("dx", "1"), ("dy", "2"), ("dz", "3")]),
                                                   El("cov-mat", e.attrs, text="4 0.1 4 0.1 4")])])))
    ctx.append(("coordinates", [("extern", "x")], lambda e: docw([El("coordinates", e.attrs, [El("point", [("id", "A"), ("z", "1")]), cov1(1)])])))
    return ctx


SWEEP_VALUES = ["abc", "1e", "", "10-20-30", "0", "1", "-1", "1e999", "0.5"]


def value_docs(rng, n):
    """-> list of (label, bytes, split, expect); expect = ('refuse', line) when a documented-numeric attribute got a value
    outside its documented literal language: the document must be refused with that line.
    First a deterministic sweep (every context x every attribute x SWEEP_VALUES: a non-number, a truncated number, the empty
    string, degrees, the range borders 0 / 1 / -1, an overflowing number), then n random documents."""
    ctxs = value_contexts()
    out = []
    sweep = [(ci, j, v) for ci, (_t, at, _w) in enumerate(ctxs) for j in range(len(at)) for v in SWEEP_VALUES]
    for i in range(len(sweep) + n):
        if i < len(sweep):
            tag, attrs, wrap = ctxs[sweep[i][0]]
        else:
            tag, attrs, wrap = rng.choice(ctxs)
        attrs = list(attrs)
        expect = None
        what = []
        r = rng.random() if i >= len(sweep) else 2.0
        if i < len(sweep):
            k = attrs[sweep[i][1]][0]
            attrs[sweep[i][1]] = (k, sweep[i][2])
            what.append(f"{k}={sweep[i][2]!r}")
        elif r < 0.08:
            label_kind = "valid"
        elif r < 0.16 and attrs:
            j = rng.randrange(len(attrs))
            what.append(f"drop {attrs[j][0]}")
            del attrs[j]
        else:
            for _ in range(1 if rng.random() < 0.85 else 2):
                j = rng.randrange(len(attrs))
                k, _old = attrs[j]
                pool = rng.choice([FLOAT_OK, FLOAT_BAD, FLOAT_BAD, INT_POOL, DMS_POOL, RANGE_POOL, ENUM_POOL, ID_POOL, ALL_VALUES])
                v = rng.choice(pool)
                attrs[j] = (k, v)
                what.append(f"{k}={v!r}")
        if rng.random() < 0.15:
            rng.shuffle(attrs)
        el = El(tag, attrs)
        root = wrap(el)
        text = doc_text(root)
        # the line of the element under test: it is the only element with exactly these attributes
        needle = ser(El(tag, attrs, el.kids, el.text)).split(">")[0] if False else None
        line = None
        ser_el = "<" + tag + "".join(f' {k}="{esc(v)}"' for k, v in el.attrs)
        pos = text.find(ser_el + ">") if (ser_el + ">") in text else text.find(ser_el + "/>")
        if pos >= 0:
            line = text.count("\n", 0, pos) + 1
        bad = [(k, v) for k, v in el.attrs if (tag, k) in DOC_NUMERIC and v != "" and not doc_literal_ok(DOC_NUMERIC[(tag, k)], v)]
        if tag == "parameters":
            for k, v in el.attrs:
                if k == "conf-pr" and FLOAT_RX.match(v):
                    try:
                        x = float(v.strip())
                        if x <= 0 or x >= 1:
                            bad.append((k, v))
                    except ValueError:
                        pass
        if bad and line is not None and "\n" not in "".join(v for _, v in el.attrs):
            expect = ("refuse", line, bad[0])
        out.append((f"value {i}: <{tag}> " + (", ".join(what) or "valid"), text.encode("utf-8"), -1, expect))
    return out


# documented rules that are not about one value (Model/GkfDocTree.lean `docRules`, hand-written from gama-local.xsd + manual):
# attributes an element must give (`from` of an observation may be inherited from <obs from=..>: not listed there)
REQ_ATTRS = {"point": ["id"], "direction": ["to", "val"], "distance": ["to", "val"], "s-distance": ["to", "val"],
             "z-angle": ["to", "val"], "azimuth": ["to", "val"], "angle": ["bs", "fs", "val"], "dh": ["from", "to", "val"],
             "vec": ["from", "to", "dx", "dy", "dz"], "cov-mat": ["dim", "band"]}


# required by the documented rules and the parser, optional in the schema (Lemmas/GkfXsd.lean `requiredDiff`)
REQ_BEYOND_XSD = {"dh": ["from"], "vec": ["from"]}


def xsd_required(repo):
    """the required attributes per element as the CURRENT xml/gama-local.xsd declares them (tools/gen/c11_xsd.py) plus REQ_BEYOND_XSD;
    on the unchanged tree this is REQ_ATTRS (C11_document_rules_match_xsd); the oracle documents of rule_docs() are generated from it, so
    an attribute the schema newly requires and the parser does not check yields a concrete accepted document.  None if unreadable."""
    try:
        _ns, elements = _xsd.read_schema(repo)
    except TieBroken:
        return None
    req = {}
    for name, _parts, attrs, _mixed in elements:
        r = REQ_BEYOND_XSD.get(name, []) + [a for a, _ty, required, _d in attrs if required]
        if r:
            req[name] = r
    return req


def xsd_optional_docs(repo):
    """the other direction of C11_document_rules_match_xsd on the IMPLEMENTATION: in every valid context, an attribute the CURRENT
    xml/gama-local.xsd declares OPTIONAL for the element is dropped; the document stays schema-valid and must be ACCEPTED — except where a
    documented rule beyond the schema applies (C11_rules_beyond_xsd / requiredDiff), which is decided here from the document text:
    `from` of <dh>/<vec> (REQ_BEYOND_XSD), `from` of an observation inside an <obs> without `from` (reqFrom, inherited), x without y / y without x
    (pair), a coordinate of a <point> inside <coordinates> (changes the number of observations of the cluster: dim rule).
    So an attribute the schema newly calls optional although the parser requires it yields a concrete refused document.  Deterministic."""
    try:
        _ns, elements = _xsd.read_schema(repo)
    except TieBroken:
        return []
    optional = {name: [a for a, _ty, required, _d in attrs if not required] for name, _p, attrs, _m in elements}
    out = []
    for ci, (tag, attrs, wrap) in enumerate(value_contexts()):
        for k in [a for a, _ in attrs]:
            if k not in optional.get(tag, []) or k in REQ_BEYOND_XSD.get(tag, []):
                continue
            at = [(a, v) for a, v in attrs if a != k]
            text = doc_text(wrap(El(tag, at)))
            if k == "from" and tag != "obs" and "<obs>" in text:
                continue                                     # reqFrom: nothing to inherit
            if tag == "direction" and "<obs>" in text:
                continue                                     # inherited: a <direction> has no `from` of its own
            if tag == "obs" and k == "from":
                continue                                     # its <distance> then has no standpoint
            if tag == "point" and k in ("x", "y", "z") and ("<coordinates" in text or k in ("x", "y")):
                continue                                     # pair rule / number of observations of <coordinates>
            out.append((f"xsd-optional: context {ci} <{tag}> without optional attribute {k}", text.encode("utf-8"), -1, "accept"))
    return out


def rule_docs(req_attrs=None):
    """documents that break exactly ONE documented rule (theorems C11_rule_violation_located / C11_dim_mismatch_located):
    a required attribute absent or empty, `from` neither on the observation nor on <obs>, x without y, a non-positive distance,
    `fs` = standpoint, band >= dim  -> refused naming the line of that element;  `dim` of <cov-mat> != number of observations of the
    cluster (all four kinds), too few / too many covariance words -> refused naming the line of the cluster's closing tag.
    Deterministic. -> list of (label, bytes, split, ("refuse", line, (what, detail), reason))"""
    out = []

    def line_of(text, needle):
        pos = text.find(needle)
        return text.count("\n", 0, pos) + 1 if pos >= 0 and text.count(needle) == 1 else None

    def add(label, root, needle, what, reason):
        text = doc_text(root)
        ln = line_of(text, needle)
        if ln is not None:
            out.append((f"rule: {label}", text.encode("utf-8"), -1, ("refuse", ln, what, reason)))

    for ci, (tag, attrs, wrap) in enumerate(value_contexts()):
        for k in (req_attrs if req_attrs is not None else REQ_ATTRS).get(tag, []):
            if k not in [a for a, _ in attrs]:
                continue
            for mode in ("absent", "empty"):
                at = [(a, v) for a, v in attrs if a != k] if mode == "absent" else [(a, ("" if a == k else v)) for a, v in attrs]
                el = El(tag, at)
                ser_el = "<" + tag + "".join(f' {a}="{esc(v)}"' for a, v in at)
                add(f"context {ci} <{tag}> required attribute {k} {mode}", wrap(el), ser_el, (k, "<" + mode + ">"),
                    f"required attribute {k} is {mode}")
    P = [El("point", [("id", "A"), ("x", "0"), ("y", "0"), ("z", "10")]), El("point", [("id", "B"), ("x", "100"), ("y", "0"), ("z", "12")]),
         El("point", [("id", "C"), ("x", "0"), ("y", "100"), ("z", "14")])]

    def docw(kids):
        return El("gama-local", [("xmlns", XMLNS)], [El("network", [], [El("points-observations", [("direction-stdev", "10"),
                  ("distance-stdev", "5")], [p.clone() for p in P] + kids)])])
    one = [("no from on the observation nor on <obs>", El("distance", [("to", "B"), ("val", "100")]), [], "from", "<absent>"),
           ("from=\"\" on the observation although <obs> has one", El("distance", [("from", ""), ("to", "B"), ("val", "100")]),
            [("from", "A")], "from", ""),
           ("direction in <obs> without from", El("direction", [("to", "B"), ("val", "10")]), [], "from", "<absent>"),
           ("distance val=0", El("distance", [("to", "B"), ("val", "0")]), [("from", "A")], "val", "0"),
           ("distance val=-5", El("distance", [("to", "B"), ("val", "-5")]), [("from", "A")], "val", "-5"),
           ("s-distance val=-0.0", El("s-distance", [("to", "B"), ("val", "-0.0")]), [("from", "A")], "val", "-0.0"),
           ("z-angle val=0", El("z-angle", [("to", "B"), ("val", "0")]), [("from", "A")], "val", "0"),
           ("angle fs = standpoint", El("angle", [("bs", "B"), ("fs", " A "), ("val", "10")]), [("from", "A")], "fs", " A ")]
    for lab, el, oa, k, v in one:
        ser_el = "<" + el.tag + "".join(f' {a}="{esc(x)}"' for a, x in el.attrs)
        add(lab, docw([El("obs", oa, [el])]), ser_el, (k, v), lab)
    add("point x without y", docw([El("point", [("id", "D"), ("x", "1")])]), '<point id="D" x="1"', ("y", "<absent>"), "x without y")
    add("point y without x", docw([El("point", [("id", "D"), ("y", "1")])]), '<point id="D" y="1"', ("x", "<absent>"), "y without x")
    add("point with a blank id", docw([El("point", [("id", "  "), ("z", "1")])]), '<point id="  "', ("id", "  "), "blank point id")
    add("point inside coordinates without coordinates", docw([El("coordinates", [], [El("point", [("id", "A")]),
        El("cov-mat", [("dim", "1"), ("band", "0")], text="4")])]), '<point id="A"/>', ("x", "<absent>"), "neither xy nor z")
    dist = lambda to: El("distance", [("to", to), ("val", "100")])
    covm = lambda d, b, words: El("cov-mat", [("dim", str(d)), ("band", str(b))], text=" ".join(["4"] * words))
    add("band = dim", docw([El("obs", [("from", "A")], [dist("B"), dist("C"), covm(2, 2, 3)])]), '<cov-mat dim="2" band="2"', ("band", "2"),
        "band >= dim")
    clusters = [("obs", [("from", "A")], lambda: [dist("B"), dist("C")], 2),
                ("height-differences", [], lambda: [El("dh", [("from", "A"), ("to", "B"), ("val", "2")]),
                                                     El("dh", [("from", "B"), ("to", "C"), ("val", "2")])], 2),
                ("vectors", [], lambda: [El("vec", [("from", "A"), ("to", "B"), ("dx", "1"), ("dy", "2"), ("dz", "3")])], 3),
                ("coordinates", [], lambda: [El("point", [("id", "A"), ("x", "1"), ("y", "2")]), El("point", [("id", "B"), ("z", "3")])], 3)]
    for name, ca, kids, n in clusters:
        for d in (n - 1, n + 1, 2 * n):
            add(f"<{name}> with {n} observations, cov-mat dim={d}", docw([El(name, ca, kids() + [covm(d, 0, d)])]), f"</{name}>",
                ("dim", str(d)), f"dim {d} differs from the number of observations {n}")
        for w in (n - 1, n + 1):
            add(f"<{name}> dim={n} band=0 with {w} covariance elements", docw([El(name, ca, kids() + [covm(n, 0, w)])]), f"</{name}>",
                ("cov-mat", f"{w} elements"), f"{w} covariance elements where {n} are needed")
    for name, ca, kids, n in clusters[2:]:
        add(f"<{name}> without cov-mat", docw([El(name, ca, kids())]), f"</{name}>", ("cov-mat", "<absent>"), "cov-mat required")
    return out



def first_violation_docs():
    """next to C11_invalid_document_refused_located / C11_first_error_is_first_violation / C11_blank_text_same_verdict (round 9):
    (a) documents with TWO violating elements in two different clusters, every ordered pair of the kinds below: the refusal
        must name the line of the FIRST violating element (start tag of the element, closing tag of the cluster for dim / number
        of covariance words / missing cov-mat);
    (b) the one-violation documents of rule_docs() and the two-violation documents WITHOUT any white space between the elements
        (everything on line 2 after the declaration): same verdict, line 2 — character data between elements is not part of
        the document tree; and the valid base document compact: accepted.
    Deterministic. -> list of (label, bytes, split, expect)"""
    P = [El("point", [("id", "A"), ("x", "0"), ("y", "0"), ("z", "10")]), El("point", [("id", "B"), ("x", "100"), ("y", "0"), ("z", "12")]),
         El("point", [("id", "C"), ("x", "0"), ("y", "100"), ("z", "14")])]

    def docw(kids):
        return El("gama-local", [("xmlns", XMLNS)], [El("network", [], [El("points-observations", [("direction-stdev", "10"),
                  ("distance-stdev", "5")], [p.clone() for p in P] + kids)])])
    dist = lambda to, val="100": El("distance", [("to", to), ("val", val)])
    covm = lambda d, b, words: El("cov-mat", [("dim", str(d)), ("band", str(b))], text=" ".join(["4"] * words))
    # (label, cluster builder, needle whose FIRST occurrence is the violating tag, reason)
    V = [("required attribute to absent", lambda: El("obs", [("from", "A")], [dist("B"), El("distance", [("val", "7")])]),
          '<distance val="7"', "required attribute to is absent"),
         ("malformed number", lambda: El("obs", [("from", "B")], [dist("C"), dist("A", "1e")]), '<distance to="A" val="1e"',
          "val=1e outside the float language"),
         ("non-positive distance", lambda: El("obs", [("from", "C")], [dist("A", "-3")]), '<distance to="A" val="-3"', "val <= 0"),
         ("dim differs", lambda: El("height-differences", [], [El("dh", [("from", "A"), ("to", "B"), ("val", "2")]), covm(2, 0, 2)]),
          "</height-differences>", "dim 2 differs from the number of observations 1"),
         ("covariance words", lambda: El("vectors", [], [El("vec", [("from", "A"), ("to", "B"), ("dx", "1"), ("dy", "2"), ("dz", "3")]),
                                                        covm(3, 0, 2)]), "</vectors>", "2 covariance elements where 3 are needed"),
         ("cov-mat required", lambda: El("coordinates", [], [El("point", [("id", "A"), ("x", "1"), ("y", "2")])]), "</coordinates>",
          "cov-mat required")]
    out = []
    pairs = []
    for i, (la, ba, na, ra) in enumerate(V):
        for j, (lb, bb, nb, rb) in enumerate(V):
            if i != j:
                pairs.append((f"first violation: {la} THEN {lb}", docw([ba(), bb()]), na, ra))
    for label, root, needle, reason in pairs:
        text = doc_text(root)
        pos = text.find(needle)
        if pos < 0:
            continue
        out.append((label, text.encode("utf-8"), -1, ("refuse", text.count("\n", 0, pos) + 1, (needle, "first of two"), reason)))
        compact = '<?xml version="1.0" ?>\n' + ser(root, nl="")
        out.append((label + " (no white space between elements)", compact.encode("utf-8"), -1,
                    ("refuse", 2, (needle, "first of two"), reason)))
    for la, ba, na, ra in V:
        compact = '<?xml version="1.0" ?>\n' + ser(docw([ba()]), nl="")
        out.append((f"one violation, no white space between elements: {la}", compact.encode("utf-8"), -1, ("refuse", 2, (na, "compact"), ra)))
    ok = docw([El("obs", [("from", "A")], [dist("B"), dist("C"), El("cov-mat", [("dim", "2"), ("band", "1")], text="4 1 4")]),
               El("height-differences", [], [El("dh", [("from", "A"), ("to", "B"), ("val", "2"), ("stdev", "1")])])])
    out.append(("valid document, no white space between elements", ('<?xml version="1.0" ?>\n' + ser(ok, nl="")).encode("utf-8"), -1, "accept"))
    out.append(("valid document, pretty-printed", doc_text(ok).encode("utf-8"), -1, "accept"))
    return out


# regression inputs with an expectation: file name -> ("refuse", line)
CORPUS_EXPECT = {"point-without-id-reuses-previous.gkf": ("refuse", 7, ("id", "<absent>"))}
EXPECT_LINE = {}          # sha(document) -> line the diagnostic of gama-local must name (filled by located_docs)


def located_docs(rng, n):
    """a refused start tag that SPANS THREE LINES, followed ON ITS CLOSING LINE by another (valid) element: the diagnostic must
    name the line where the offending tag STARTS.  gama-local feeds expat line by line, so the handler of the offending tag
    and that of the next element run in the same chunk; the harness feeds the whole document as one chunk, where every
    later start tag runs in the same chunk.  -> list of (label, bytes, split, ("refuse", line, (attr, value)))"""
    leaf = [c for c in value_contexts() if c[0] in ("point", "direction", "distance", "angle", "s-distance", "z-angle", "azimuth",
                                                    "dh", "vec", "parameters")]
    out = []
    for i in range(n):
        tag, attrs, wrap = leaf[i % len(leaf)] if i < len(leaf) else rng.choice(leaf)
        cand = [j for j, (k, _v) in enumerate(attrs) if (tag, k) in DOC_NUMERIC]
        if not cand:
            continue
        j = rng.choice(cand)
        bad = list(attrs)
        v = rng.choice(["abc", "1e", "1.2.3", "-", "1x", "NaN", "1,5", "--1"])
        bad[j] = (bad[j][0], v)
        text = doc_text(wrap(El(tag, bad)))
        one = "<" + tag + "".join(f' {k}="{esc(x)}"' for k, x in bad) + "/>\n"
        if text.count(one) != 1:
            continue
        valid = "<" + tag + "".join(f' {k}="{esc(x)}"' for k, x in attrs) + "/>"
        multi = "<" + tag + "\n" + "\n".join(f'    {k}="{esc(x)}"' for k, x in bad) + "/>" + valid + "\n"
        pos = text.find(one)
        line = text.count("\n", 0, pos) + 1
        doc = (text[:pos] + multi + text[pos + len(one):]).encode("utf-8")
        EXPECT_LINE[sha(doc)] = line
        out.append((f"located {i}: <{tag}> over 3 lines {bad[j][0]}={v!r}, next element on its closing line", doc, -1,
                    ("refuse", line, (bad[j][0], v))))
    return out

# ------------------------------------------------------------------ correspondence

def hexs(b):
    return b.hex() if b else "-"


def run_docs(ctx, corr, exe, docs, stream):
    """docs: list of (label, bytes, split, expect) ; expect in (None, 'accept')"""
    cases = [[f"doc {hexs(d)} {k}"] for _, d, k, _ in docs]
    impl, crashes = run_cases(exe, cases, timeout=3600)
    mcases, keep = [], []
    for i, out in enumerate(impl):
        ev, cev = [], []
        for l in out:
            if l.startswith("E "):
                t = l.split()
                if (t[1] == "start" and t[4] == "x") or (t[1] == "stop" and t[3] == "x"):
                    break            # an exception left this handler: the event has no result line
                ev.append(l[2:])
            elif l.startswith("C "):
                cev.append(l)        # the same event with the real attribute strings (value model, Gkf.crun)
        mcases.append(ev + ["end"] + cev + ["cend"])
    model, mcr = run_cases(ctx.driver("drv_gkf"), mcases, timeout=3600)
    for i, (label, d, k, expect) in enumerate(docs):
        out = impl[i]
        R = [l for l in out if l.startswith("R ")]
        O = [l for l in out if l.startswith("O ")]
        X = [l for l in out if l.startswith("X ")]
        nev = len(R)
        key = sha("\n".join(mcases[i])) if nev >= 6 else None
        corr.case(key=key, sample={"stream": stream, "doc": label, "events": nev, "outcome": O[:1]} if i < 2 else None)
        corr.count(f"{stream}_docs")
        payload = {"stream": stream, "label": label, "doc": d.decode("utf-8", "replace"), "split": k}
        if i in crashes:
            if is_wall_timeout(crashes[i]):
                wall_inconclusive(corr, f"event stream batch starting at {label}")
            elif crashes[i][0] == 88:
                corr.fail(f"GKFparser does not terminate (10 s CPU-time limit) on {label}", payload, "GKFparser::startElement", "harness CPU timer")
            else:
                corr.fail(f"parser harness crashed/sanitizer report on {label}", payload, "GKFparser", crashes[i][1])
            continue
        if i in mcr:
            if is_wall_timeout(mcr[i]):
                wall_inconclusive(corr, f"model driver batch starting at {label}")
            else:
                corr.disagree(stream, [label], out[-3:], model[i][-3:], "model driver crashed: " + mcr[i][1][-300:])
            continue
        if not O:
            corr.disagree(stream, [label], out[-3:], model[i][-3:], "no outcome line from the harness")
            continue
        corr.count("outcome_" + O[0].split()[1] + ("_expat" if O[0].startswith("O parser") and int(O[0].split()[3]) > 0 else ""))
        for l in out:
            if l.startswith("M "):
                corr.count("msg_" + l[2:])
        mR = [l for l in model[i] if l.startswith("R ")]
        mO = [l for l in model[i] if l.startswith("O ")]
        if X:
            corr.count("exception_through_expat")
            corr.fail(f"exception {X[0][2:]} leaves an expat callback: diagnostic has no line ({label})", payload,
                      "GKFparser::startElement", "\n".join(out[-4:]))
            if mR[:len(R)] != R:
                corr.disagree(stream, payload, R[-5:], mR[:len(R)][-5:], "states before the exception differ")
            continue
        expat_err = O[0].startswith("O parser") and int(O[0].split()[3]) > 0
        if mR != R:
            j = next((j for j in range(min(len(R), len(mR))) if R[j] != mR[j]), min(len(R), len(mR)))
            corr.disagree(stream, payload, {"event": mcases[i][j] if j < len(mcases[i]) else None, "index": j, "R": R[max(0, j - 2):j + 1]},
                          mR[max(0, j - 2):j + 1], "state/error after an event differs")
        elif not expat_err and mO != O:
            corr.disagree(stream, payload, O, mO, "outcome differs")
        # ---- the value model: same events with the real attribute strings; the dataOk bit is COMPUTED (only `pd` is input)
        vR = ["R" + l[2:] for l in model[i] if l.startswith("VR ")]
        vO = ["O" + l[2:] for l in model[i] if l.startswith("VO ")]
        corr.count("value_model_docs")
        if vR != R:
            j = next((j for j in range(min(len(R), len(vR))) if R[j] != vR[j]), min(len(R), len(vR)))
            cl = [l for l in mcases[i] if l.startswith("C ")]
            corr.disagree(stream + "-values", payload, {"event": cl[j] if j < len(cl) else None, "index": j, "R": R[max(0, j - 2):j + 1]},
                          vR[max(0, j - 2):j + 1], "value model: state/error after an event differs (dataOk computed from the attribute strings)")
        elif not expat_err and vO != O:
            corr.disagree(stream + "-values", payload, O, vO, "value model: outcome differs")
        # ---- oracle on the implementation's own answers
        if O[0].startswith("O parser") and not expat_err:
            # first error wins INCLUDING its line: the diagnostic names the line of the event during which error() was first
            # recorded (the harness prints expat's current line with every event), whatever was handled after it in the chunk
            Elines = [l for l in out if l.startswith("E ")]
            jerr = next((j for j, r in enumerate(R) if r.split()[2] != "-"), None)
            if jerr is not None and jerr < len(Elines):
                t = Elines[jerr].split()
                evline = int(t[3]) if t[1] == "start" else int(t[2])
                corr.count("located_first_error_checks")
                if int(O[0].split()[2]) != evline:
                    corr.fail(f"the diagnostic names line {O[0].split()[2]} but error() was first recorded while handling the "
                              f"{t[1]} event of line {evline} (a later error() call overwrote the line?) : {label}", payload,
                              "CoreParser::error", "\n".join(out[-6:]))
        if O[0].startswith("O parser"):
            line = int(O[0].split()[2])
            if line < 1:
                corr.fail(f"refused without a line number ({O[0]}) : {label}", payload, "GKFparser::endElement", "\n".join(out[-4:]))
        if O[0] == "O ok" and any(l.startswith("M ") for l in out):
            corr.fail(f"error() was recorded but the document was accepted (error lost) : {label}", payload,
                      "GKFparser::process_coords_point", "\n".join(l for l in out if l.startswith("M ")))
        if expect == "accept" and O[0] != "O ok":
            corr.fail(f"grammar-derived document refused ({O[0]}) : {label}", payload, "GKFparser", "\n".join(out[-4:]))
        if isinstance(expect, tuple) and expect[0] == "refuse":
            corr.count("value_docs_expect_refusal")
            want = f"O parser {expect[1]} -1"
            if O[0] != want:
                why = (f"documented rule broken ({expect[3]})" if len(expect) > 3 else
                       f"attribute {expect[2][0]}={expect[2][1]!r} is outside the documented literal language/range")
                if len(expect) > 3:
                    corr.count("rule_docs_expect_refusal")
                corr.fail(f"{why} but the answer is "
                          f"{O[0]} instead of a refusal naming line {expect[1]} : {label}", payload,
                          "GKFparser::finish_*" if len(expect) > 3 and
                          any(w in expect[3] for w in ("differs", "covariance elements", "cov-mat required")) else "GKFparser::process_*", "\n".join(out[-4:]))


LIT_ALPHABET = b"019+-.eE x"


def run_literals(ctx, corr, exe):
    nmax = ctx.size(5, 6)
    cases = [[f"enum {hexs(LIT_ALPHABET)} {n}"] for n in range(0, nmax + 1)]
    rnd = []
    pieces = ["0", "1", "9", "+", "-", ".", "e", "E", " ", "x", "12", "-0", "0-0-0", "10-20-30", "1e5", ".5", "5.", "e+", "\t", "\n", "99999999999", "-1-"]
    for _ in range(ctx.size(3000, 60000)):
        s = "".join(ctx.rng.choice(pieces) for _ in range(ctx.rng.randint(1, 7)))
        if re.search(r"-.*[eE][+]?\d{3,}", s):
            continue                     # deg2gon's seconds (`>> double`) overflowing to HUGE_VAL are outside its modelled language
        rnd.append(s.encode())
    for s in [b"", b" ", b"+", b"1e+5", b"1e", b"1 1", b"0-0-0", b"+-0-0-0", b"-+5-10-20", b"+ 5-10-20.5e1", b"2147483648-0-0",
              b"2147483647-0-0", b"0-0-0.", b"0-0-.5", b" 12 ", b"\xc3\xa9", b"1\x00", b"12\t", b"0012", b"1-2147483648-0"]:
        rnd.append(s)
    # CoreParser::toDouble = IsFloat and isfinite(atof): the overflow border DBL_MAX + ulp/2 = 2^1024 - 2^970, exactly
    T = 2 ** 1024 - 2 ** 970
    for s in ["1e999", "-1e999", " +1E+400 ", "1e308", "1.7976931348623157e308", "1.7976931348623158e308", "1.7976931348623159e308",
              "1.8e308", "0e999", "0.0e99999999999999999999", "1e-999", "1e-99999999999999999999", "17976931348623158e292",
              "0.00017976931348623159e312", str(T), str(T - 1), str(T + 1), str(T) + ".0", str(T - 1) + ".999", "0" * 50 + str(T - 1),
              " " + str(T - 1) + " ", "9" * 308, "9" * 309, "9" * 400, "1" + "0" * 308, "1" + "0" * 309, "." + "0" * 400 + "1e709", "." + "0" * 400 + "1e710",
              str(T)[:200] + "." + str(T)[200:] + "e109", str(T - 1)[:200] + "." + str(T - 1)[200:] + "e109"]:
        rnd.append(s.encode())
    for _ in range(ctx.size(300, 3000)):       # random literals around the border
        m = str(ctx.rng.randrange(1, 10 ** ctx.rng.randint(1, 20)))
        k = ctx.rng.randint(0, len(m))
        e = ctx.rng.choice([308, 309, 307, 300, 310, 290, 320, 999, -400, 0]) - (len(m) - 1 if ctx.rng.random() < 0.8 else 0) + (len(m) - k)
        rnd.append((m[:k] + ctx.rng.choice([".", "", "."]) + m[k:] + ctx.rng.choice(["e", "E"]) + ctx.rng.choice(["", "+"] if e >= 0 else [""]) + str(e)).encode())
    cases.append([f"lit {hexs(s)}" for s in rnd])
    impl, crashes = run_cases(exe, cases, timeout=3600)
    model, mcr = run_cases(ctx.driver("drv_gkf"), cases, timeout=3600)
    tot = acc = 0
    for i, c in enumerate(cases):
        if i in crashes:
            if is_wall_timeout(crashes[i]):
                wall_inconclusive(corr, "literal stream")
                continue
            corr.fail("literal recogniser crashed (sanitizer)", {"stream": "literals", "label": "literal ops " + " ".join(c[:2])[:80], "ops": c[:3]},
                      "IsFloat/deg2gon", crashes[i][1])
            continue
        a = [x for l in impl[i] for x in l.split()]
        b = [x for l in model[i] for x in l.split()]
        if i < len(cases) - 1:
            n = i
            tot += len(LIT_ALPHABET) ** n
            if a != b:
                j = next((j for j in range(min(len(a), len(b))) if a[j] != b[j]), min(len(a), len(b)))
                s, jj = "", j
                for _ in range(n):
                    s = chr(LIT_ALPHABET[jj % len(LIT_ALPHABET)]) + s
                    jj //= len(LIT_ALPHABET)
                corr.disagree("literals", {"string": s, "len": n}, a[j:j + 1], b[j:j + 1], "IsFloat+2*IsInteger+4*deg2gon+8*toDouble : toIndex")
            acc += sum(1 for x in a if x[0] not in "0c")
        else:
            tot += len(rnd)
            for s, x, y in zip(rnd, impl[i], model[i]):
                if x != y:
                    corr.disagree("literals", {"string": repr(s)}, x, y, "random literal")
                    break
            if len(impl[i]) != len(model[i]):
                corr.disagree("literals", "random", len(impl[i]), len(model[i]), "line count")
    corr.evaluations += tot
    corr.nontrivial.update(("lit", n) for n in range(min(tot, 10 ** 7)) if False)
    corr.count("literal_strings", tot)
    corr.count("literal_strings_accepted_by_some_recogniser", acc)
    corr.stats["literal_max_exhaustive_len"] = nmax
    return tot


def run_cov(ctx, corr, exe):
    """cov-mat accounting through a <height-differences> cluster with exactly `dim` dh elements"""
    rng = ctx.rng
    items = []
    for _ in range(ctx.size(600, 6000)):
        dim = rng.randint(1, 6)
        band = rng.randint(0, dim - 1)
        need = dim * (band + 1) - band * (band + 1) // 2
        sdim, sband = str(dim), str(band)
        r = rng.random()
        n = need
        if r < 0.2:
            n = need + rng.randint(1, 2)
        elif r < 0.4:
            n = max(0, need - rng.randint(1, 2))
        elif r < 0.5:
            sband = rng.choice([str(dim), str(dim + 1), "-1", "", "x", "1.0", " %d " % band, "+1"])
        elif r < 0.6:
            sdim = rng.choice(["0", "", "x", "-%d" % dim, " %d" % dim, "%d.0" % dim, "1e1"])
        toks = []
        k = 0
        for rr in range(dim):
            for cc in range(rr, min(dim, rr + band + 1)):
                toks.append("30" if cc == rr else "0.5")
        toks = (toks + ["30"] * 3)[:n] if n >= len(toks) else toks[:n]
        if r >= 0.6 and r < 0.7 and toks:
            toks[rng.randrange(len(toks))] = rng.choice(["x", "1e", "1,5", ".", "+", "1.2.3", "--1", "1e999", "-1e400", "1.8e308", "1.7e308", "1e-999"])
        sep = rng.choice([" ", "\n", "\t ", "  "])
        text = rng.choice(["", sep]) + sep.join(toks) + rng.choice(["", sep])
        try:
            nd = int(sdim)
        except ValueError:
            nd = dim
        ndh = dim
        items.append((sdim, sband, text, ndh))
    docs, mops = [], []
    for sdim, sband, text, ndh in items:
        dh = "".join(f'<dh from="A" to="B{j}" val="1.0" stdev="1"/>' for j in range(ndh))
        doc = (f'<gama-local xmlns="{XMLNS}"><network><points-observations><height-differences>{dh}'
               f'<cov-mat dim="{sdim}" band="{sband}">{text}</cov-mat></height-differences></points-observations></network></gama-local>')
        docs.append(doc.encode())
        mops.append(f"cov {hexs(sdim.encode())} {hexs(sband.encode())} {hexs(text.encode())}")
    impl, crashes = run_cases(exe, [[f"doc {hexs(d)} -1"] for d in docs], timeout=3600)
    model, _ = run_cases(ctx.driver("drv_gkf"), [[m] for m in mops], timeout=3600)
    for i, (sdim, sband, text, ndh) in enumerate(items):
        corr.case(key=("cov", sdim, sband, text))
        payload = {"stream": "cov", "dim": sdim, "band": sband, "text": text, "doc": docs[i].decode()}
        if i in crashes:
            if is_wall_timeout(crashes[i]):
                wall_inconclusive(corr, "cov stream")
                continue
            corr.fail("cov-mat document crashed the parser (sanitizer)", payload, "GKFparser::finish_cov", crashes[i][1])
            continue
        msgs = [l[2:] for l in impl[i] if l.startswith("M ")]
        got = msgs[0] if msgs else "ok"
        if got in ("cov_not_posdef",):
            got = "ok"
        want = (model[i][0].split()[1] if model[i] and model[i][0].startswith("cov ") else "?")
        corr.count("cov_" + want)
        if got != want:
            corr.disagree("cov", payload, got, want, "cov-mat verdict")



# ------------------------------------------------------------------ adjustment-result readers, gama-g3 input (sanitizer stream)

def byte_mutation(rng, b):
    m = bytearray(b)
    for _ in range(rng.choice([1, 1, 2, 4])):
        if not m:
            break
        p = rng.randrange(len(m))
        op = rng.random()
        if op < 0.4:
            m[p] = rng.choice(b"<>/\"'=& \n\x00\xff0123456789-+.eE")
        elif op < 0.6:
            del m[p]
        elif op < 0.8:
            m.insert(p, rng.choice(b"<>/\"'=& 019-.e"))
        else:
            q = rng.randrange(len(m))
            a, z = min(p, q), max(p, q)
            m[a:z] = m[a:z] * 2 if z - a < 300 else b""
    return bytes(m)


NUM_RE = re.compile(rb">\s*(-?\d[\d.eE+-]*)\s*<")
HUGE = [b"1e999", b"-1e999", b"1e300", b"99999999999999999999", b"2147483647", b"-2147483648", b"-1", b"0", b"", b"x", b"1e", b"NaN", b"1 1", b"0x10"]


def xml_line_mutation(rng, b):
    """structural mutation of a line-oriented result / g3 XML; returns (bytes, what)"""
    lines = b.split(b"\n")
    kind = rng.choice(["dup", "dup", "del", "del", "num", "num", "dimband", "dimband", "swap", "child", "trunc-line", "tagname"])
    idx = [i for i, l in enumerate(lines) if l.strip()]
    if not idx:
        return b, "empty"
    if kind in ("dup", "del"):
        pref = [i for i in idx if re.search(rb"<(flt|ind|id|x|y|z|dim|band|point|orientation|original-index|cov-mat|vector|obs|dx|height|n|e|u)\b", lines[i])]
        i = rng.choice(pref or idx)
        if kind == "dup":
            n = rng.choice([1, 1, 2, 5])
            lines[i:i] = [lines[i]] * n
            return b"\n".join(lines), f"duplicate x{n}: {lines[i][:40]!r}"
        gone = lines.pop(i)
        return b"\n".join(lines), f"remove: {gone[:40]!r}"
    if kind == "num":
        cand = [i for i in idx if NUM_RE.search(lines[i])]
        if cand:
            i = rng.choice(cand)
            ms = list(NUM_RE.finditer(lines[i]))
            m = rng.choice(ms)
            v = rng.choice(HUGE)
            lines[i] = lines[i][:m.start(1)] + v + lines[i][m.end(1):]
            return b"\n".join(lines), f"number -> {v!r} in {lines[i][:50]!r}"
    if kind == "dimband":
        cand = [i for i in idx if b"<dim>" in lines[i] or b"<band>" in lines[i]]
        if cand:
            i = rng.choice(cand)
            t = rng.choice([b"dim", b"band"])
            v = rng.choice([b"0", b"1", b"2", b"5", b"40", b"-1", b"-7", b"100", b"3000", b"70000", b"2147483647", b"1.5", b""])
            lines[i] = re.sub(rb"<" + t + rb">[^<]*</" + t + rb">", b"<" + t + b">" + v + b"</" + t + b">", lines[i])
            return b"\n".join(lines), f"<{t.decode()}> := {v!r}"
    if kind == "swap" and len(idx) > 2:
        i, j = rng.sample(idx, 2)
        lines[i], lines[j] = lines[j], lines[i]
        return b"\n".join(lines), "swap two lines"
    if kind == "child":
        cand = [i for i in idx if b"<point>" in lines[i] or b"<point " in lines[i] or b"<orientation>" in lines[i]]
        if cand:
            i = rng.choice(cand)
            extra = rng.choice([b"<x>1</x>", b"<z>2</z><z>3</z>", b"<id>Q</id>", b"<y>5</y>", b"<X>1</X>", b"<point><id>N</id></point>", b"<ind>7</ind>", b"<flt>1</flt>"])
            lines[i] = lines[i].replace(b">", b">" + extra, 1)
            return b"\n".join(lines), f"extra child {extra!r}"
    if kind == "tagname":
        i = rng.choice(idx)
        m = re.search(rb"<([a-zA-Z][\w-]*)", lines[i])
        if m:
            lines[i] = lines[i].replace(m.group(1), rng.choice([b"flt", b"ind", b"point", b"bogus", b"dim", b"cov-mat", b"id"]))
            return b"\n".join(lines), "rename a tag"
    i = rng.choice(idx)
    lines[i] = lines[i][:rng.randrange(len(lines[i]) + 1)]
    return b"\n".join(lines), "truncate a line"


def result_bases(ctx, n_gen, n_arch):
    """gama-local's own result XML/HTML for generated and archived networks"""
    gl = ctx.build_gama(sanitize=True) / "gama-local"
    rng = ctx.rng
    srcs = []
    files = sorted(_glob.glob(str(ctx.repo / "tests" / "gama-local" / "input" / "*.gkf")))
    small = [f for f in files if os.path.getsize(f) < 9000]
    for f in rng.sample(small, min(n_arch, len(small))):
        srcs.append((os.path.basename(f), Path(f).read_bytes()))
    tries = 0
    while len(srcs) < n_arch + n_gen and tries < 6 * n_gen:
        tries += 1
        srcs.append((f"generated{tries}", doc_text(gen_network(rng)).encode()))
    out = []
    with tempfile.TemporaryDirectory(prefix="c11res_") as td:
        for k, (name, data) in enumerate(srcs):
            g, x, h = Path(td) / f"{k}.gkf", Path(td) / f"{k}.xml", Path(td) / f"{k}.html"
            g.write_bytes(data)
            band = rng.choice([(), ("--cov-band", "0"), ("--cov-band", "1"), ("--cov-band", "-1")])
            rc_, _o, _e = sh_cpu([str(gl), str(g), "--xml", str(x), "--html", str(h), "--text", "/dev/null"] + list(band))
            if rc_ in ("cpu", "wall"):
                continue
            if x.exists() and b"<cov-mat>" in x.read_bytes():
                out.append((name, x.read_bytes(), h.read_bytes() if h.exists() else None))
    return out


def reader_verdict(out, crash):
    """oracle on one harness answer -> None or (what, site)"""
    if is_wall_timeout(crash):
        return None       # wall clock of the batch expired (loaded machine): says nothing about this document
    if crash is not None:
        rc, err = crash
        if rc == 88:
            return ("does not terminate (10 s CPU-time limit)", "reader")
        m = re.search(r"SUMMARY: \w+: (\S+)", err or "")
        fr = re.findall(r"#\d+ 0x[0-9a-f]+ in (\S+)", err or "")
        site = next((x for x in fr if x.startswith("GNU_gama")), fr[0] if fr else "")
        what = m.group(1) if m else ((re.search(r"runtime error: ([^\n]*)", err or "") or [None, "abnormal exit"])[1])
        return (f"sanitizer report / abnormal exit rc={rc}: {what}", site)
    O = [l for l in out if l.startswith("O ")]
    if not O:
        return ("no outcome from the harness", "harness")
    t = O[0].split()
    if t[1] == "exc":
        return (f"exception {t[2]} leaves the reader (through the expat callback): diagnostic has no line", "reader handler")
    if t[1] == "parser" and int(t[2]) < 1:
        return (f"refused without a line number ({' '.join(t[:4])})", "reader")
    return None


def readers_exe(ctx):
    d = ctx.build_gama(sanitize=True)
    objs = sorted(_glob.glob(str(d / "CMakeFiles" / "libgama.dir" / "**" / "*.o"), recursive=True))
    return d, ctx.build_cpp("c11_results", [ctx.verif / "harness" / "c11_results.cpp"], includes=[ctx.verif / "harness"], libs=objs + ["-lexpat"])


def reader_run_one(exe, op, b):
    """one document through the reader harness -> oracle verdict (None = fine)"""
    outs, crashes = run_cases(exe, [[f"{op} {hexs(b)}"]], timeout=3600)
    return reader_verdict(outs[0], crashes.get(0)), (crashes[0][1] if 0 in crashes else "\n".join(outs[0][-2:]))


def verdict_class(v):
    """what must stay the same while a failing document is shrunk: kind of failure and the frame it is attributed to"""
    if v is None:
        return None
    m = re.match(r"(does not terminate|sanitizer report / abnormal exit rc=\d+: \S+|exception \S+|refused without a line number|no outcome)", v[0])
    return (m.group(1) if m else v[0][:40], v[1])


def shrink_reader_doc(exe, op, b, budget=260):
    """ddmin over lines, then over bytes: a smaller document with the same verdict class (or `b` itself)"""
    want = verdict_class(reader_run_one(exe, op, b)[0])
    if want is None:
        return b
    left = [budget]

    def fails(cand):
        if left[0] <= 0:
            return False
        left[0] -= 1
        return verdict_class(reader_run_one(exe, op, cand)[0]) == want
    lines = b.split(b"\n")
    if len(lines) > 1:
        lines = ddmin(lines, lambda ls: fails(b"\n".join(ls)), max_tests=budget // 2)
    bb = b"\n".join(lines)
    if len(bb) <= 6000 and left[0] > 0:
        # tokens `<...>` / text keep the document well formed more often than single bytes
        toks = re.findall(rb"<[^>]*>|[^<]+", bb)
        toks = ddmin(toks, lambda ts: fails(b"".join(ts)), max_tests=left[0])
        bb = b"".join(toks)
    return bb if verdict_class(reader_run_one(exe, op, bb)[0]) == want else b


def run_readers(ctx, corr):
    rng = ctx.rng
    d, exe = readers_exe(ctx)
    t0 = time.time()
    bases = result_bases(ctx, ctx.size(4, 30), ctx.size(4, 20))
    items = []      # (op, label, bytes, expect_ok)
    corpus = ctx.verif / "corpus" / "C11"
    if corpus.exists():
        for f in sorted(corpus.glob("result-*.xml")):
            items.append(("xml", "corpus " + f.name, f.read_bytes(), False))
        for f in sorted(corpus.glob("g3-*.xml")):
            items.append(("g3", "corpus " + f.name, f.read_bytes(), False))
        for f in sorted(corpus.glob("html-*.html")):
            items.append(("html", "corpus " + f.name, f.read_bytes(), False))
    for name, x, h in bases:
        items.append(("xml", f"result of {name}", x, True))
        if h:
            items.append(("html", f"html result of {name}", h, True))
        cuts = range(len(x)) if ctx.thorough and len(x) < 6000 else sorted(rng.sample(range(len(x)), min(len(x), ctx.size(25, 600))))
        for c in cuts:
            items.append(("xml", f"result of {name} truncated at {c}", x[:c], False))
        for _ in range(ctx.size(60, 900)):
            m, what = xml_line_mutation(rng, x)
            items.append(("xml", f"result of {name}: {what}", m, False))
        for _ in range(ctx.size(15, 300)):
            items.append(("xml", f"result of {name}: byte mutation", byte_mutation(rng, x), False))
        if h:
            for _ in range(ctx.size(8, 150)):
                items.append(("html", f"html result of {name}: byte mutation", byte_mutation(rng, h), False))
            for c in sorted(rng.sample(range(len(h)), min(len(h), ctx.size(6, 100)))):
                items.append(("html", f"html result of {name} truncated at {c}", h[:c], False))
    g3files = sorted(_glob.glob(str(ctx.repo / "tests" / "gama-g3" / "input" / "*.xml")))
    for f in g3files:
        b = Path(f).read_bytes()
        nm = os.path.basename(f)
        items.append(("g3", f"g3 {nm}", b, True))
        for c in sorted(rng.sample(range(len(b)), min(len(b), ctx.size(8, 300)))):
            items.append(("g3", f"g3 {nm} truncated at {c}", b[:c], False))
        for _ in range(ctx.size(25, 500)):
            m, what = xml_line_mutation(rng, b)
            items.append(("g3", f"g3 {nm}: {what}", m, False))
        for _ in range(ctx.size(8, 200)):
            items.append(("g3", f"g3 {nm}: byte mutation", byte_mutation(rng, b), False))
    cases = [[f"{op} {hexs(b)}"] for op, _, b, _ in items]
    outs, crashes = run_cases(exe, cases, timeout=3600)
    for i, (op, label, b, expect_ok) in enumerate(items):
        corr.case(key=("reader", op, sha(b)) if len(b) > 200 else None,
                  sample={"stream": "readers", "op": op, "label": label, "out": outs[i][:1]} if i < 1 else None)
        corr.count(f"reader_{op}_docs")
        O = [l for l in outs[i] if l.startswith("O ")]
        if O:
            corr.count(f"reader_{op}_" + O[0].split()[1])
        v = reader_verdict(outs[i], crashes.get(i))
        payload = {"stream": "readers", "op": op, "label": label, "doc": b.decode("utf-8", "replace") if len(b) < 30000 else None,
                   "doc_hex": b.hex(), "bytes": len(b)}
        if v:
            det = crashes[i][1] if i in crashes else "\n".join(outs[i][-2:])
            n_shrunk = corr.stats.get("reader_failures_shrunk", 0)
            if n_shrunk < ctx.size(4, 12):          # delta-debug the first few failing documents of a run
                corr.count("reader_failures_shrunk")
                sb = shrink_reader_doc(exe, op, b)
                if len(sb) < len(b):
                    v2, det2 = reader_run_one(exe, op, sb)
                    if v2:
                        payload.update({"doc": sb.decode("utf-8", "replace"), "doc_hex": sb.hex(), "bytes": len(sb),
                                        "shrunk_from_bytes": len(b), "original_sha": sha(b)})
                        v, det = v2, det2
            corr.fail(f"{op} reader: {v[0]} [{label}]", payload, v[1], (det[:2200] + "\n[...]\n" + det[-600:]) if len(det) > 2900 else det)
        elif expect_ok and not (O and O[0].startswith("O ok")):
            corr.fail(f"{op} reader refuses gama's own output [{label}]: {O[:1]}", payload, "reader", "\n".join(outs[i][-2:]))
    n_harness = len(items)
    # ---- the consumers of result files: compare-xyz, gama-local-deformation (sanitized executables)
    cons = []
    for name, x, h in bases[:ctx.size(3, 12)]:
        for _ in range(ctx.size(10, 120)):
            r = rng.random()
            if r < 0.3:
                m, what = x[:rng.randrange(len(x))], "truncated"
            elif r < 0.8:
                m, what = xml_line_mutation(rng, x)
            else:
                m, what = byte_mutation(rng, x), "byte mutation"
            cons.append((rng.choice(["compare-xyz", "gama-local-deformation"]), f"result of {name}: {what}", x, m))
    if corpus.exists():
        for f in sorted(corpus.glob("result-*.xml")):
            if bases:
                for tool in ("compare-xyz", "gama-local-deformation"):
                    cons.append((tool, "corpus " + f.name, bases[0][1], f.read_bytes()))

    def one(it):
        tool, label, good, bad = it
        with tempfile.TemporaryDirectory(prefix="c11cons_") as td:
            a, b2 = Path(td) / "a.xml", Path(td) / "b.xml"
            a.write_bytes(good)
            b2.write_bytes(bad)
            args = [str(d / tool), str(a), str(b2)] + (["--text", "/dev/null"] if tool == "gama-local-deformation" else [])
            rc, out, err = sh_cpu(args)
            return it, rc, err
    with concurrent.futures.ThreadPoolExecutor(max_workers=16) as ex:
        res = list(ex.map(one, cons))
    for (tool, label, good, bad), rc, err in res:
        corr.case(key=("consumer", tool, sha(bad)))
        corr.count(f"consumer_{tool}_rc_{rc}")
        what = None
        if rc == "wall":
            wall_inconclusive(corr, f"{tool} [{label}]")
            continue
        if rc == "cpu":
            what = f"does not terminate ({CPU_LIMIT} s CPU-time limit)"
        elif SAN_MARK.search(err) or rc in (86, 87):
            m = re.search(r"SUMMARY: \w+: (\S+)", err)
            what = f"sanitizer report rc={rc}: " + (m.group(1) if m else (re.search(r"runtime error: ([^\n]*)", err) or [0, "?"])[1])
        elif isinstance(rc, int) and rc < 0:
            what = f"killed by signal {-rc}" + (" (uncaught exception: terminate)" if "terminate called" in err else "")
        if what:
            fr = re.findall(r"#\d+ 0x[0-9a-f]+ in (\S+)", err)
            site = next((x for x in fr if x.startswith("GNU_gama")), tool)
            corr.fail(f"{tool}: {what} [{label}]", {"stream": "consumers", "tool": tool, "label": label,
                                                   "doc": bad.decode("utf-8", "replace") if len(bad) < 30000 else None,
                                                   "doc_hex": bad.hex() if len(bad) < 30000 else None,
                                                   "good_hex": good.hex() if len(good) < 30000 else None},
                      site, (err[:2200] + "\n[...]\n" + err[-600:]) if len(err) > 2900 else err)
    corr.count("consumer_runs", len(cons))
    ctx.log(f"reader stream: {n_harness} documents through LocalNetworkAdjustmentResults/DataParser, {len(cons)} consumer runs, "
            f"{len(bases)} base results, {time.time() - t0:.1f}s")
    return bases


# ------------------------------------------------------------------ executable-level search / oracle

# the diagnostic of gama-local for a refused input, in the languages the option sweep uses (en, cz)
LINE_RX = r"(?:On line number|Na řádku číslo) (-?\d+) :"
SAN_MARK = re.compile(r"ERROR: AddressSanitizer|runtime error:|ERROR: LeakSanitizer|AddressSanitizer:DEADLYSIGNAL|UndefinedBehaviorSanitizer")


def run_gama(gl, data, extra=(), timeout=None, xml=True):
    with tempfile.NamedTemporaryFile(prefix="c11_", suffix=".gkf", delete=False) as f:
        f.write(data)
        name = f.name
    try:
        # with --xml a refusal by the parser is written into the XML file as an error document and the exit status is 0;
        # without it the diagnostic goes to stderr and the exit status is 3 (the form the located-diagnostic oracle reads)
        return sh_cpu([str(gl), name, "--text", "/dev/null"] + (["--xml", "/dev/null"] if xml else []) + list(extra))
    finally:
        os.unlink(name)


def judge(rc, out, err):
    """-> None if fine, else (what, site)"""
    if rc == "wall":
        return None       # wall clock expired before the CPU limit: says nothing about termination (counted by the caller)
    if rc == "cpu":
        return (f"does not terminate within the CPU-time limit ({CPU_LIMIT} s)", "gama-local")
    if SAN_MARK.search(err) or rc in (86, 87) or (isinstance(rc, int) and rc < 0):
        m = re.search(r"SUMMARY: \w+: (\S+) (\S+)", err)
        site = ""
        fr = re.findall(r"#\d+ 0x[0-9a-f]+ in (\S+)", err)
        if fr:
            site = next((x for x in fr if x.startswith("GNU_gama")), fr[0])
        return (f"sanitizer report / abnormal exit rc={rc}: " + (m.group(1) if m else "signal"), site)
    if rc == 3:
        m = re.search(LINE_RX + r"(.*)", err)
        if not m:
            return ("refused by the parser without a line in the diagnostic", "gama-local main")
        if int(m.group(1)) < 1:
            return (f"refused with line number {m.group(1)} and message '{m.group(2).strip()}'", "GKFparser::endElement")
        return None
    if rc == 2:
        return ("refused while reading the input, diagnostic names no line: " + " ".join(err.split())[:120], "GKFparser::process_parameters")
    if rc in (0, 1):
        return None       # adjusted, or refused by a later stage with a message (network-level diagnostics)
    return (f"unexpected exit status {rc}", "gama-local")


def exec_inputs(ctx, thorough_override=None):
    rng = ctx.rng
    thorough = ctx.thorough if thorough_override is None else thorough_override
    inputs = []          # (label, bytes)
    corpus = ctx.verif / "corpus" / "C11"
    if corpus.exists():
        for f in sorted(corpus.glob("*.gkf")):
            inputs.append(("corpus " + f.name, f.read_bytes()))
            if f.name in CORPUS_EXPECT:
                EXPECT_LINE[sha(f.read_bytes())] = CORPUS_EXPECT[f.name][1]
    for lab, d, _k, _e in located_docs(random.Random(f"{ctx.seed}-located"), 40 if not ctx.thorough else 300):
        inputs.append((lab, d))
    files = sorted(_glob.glob(str(ctx.repo / "tests" / "gama-local" / "input" / "*.gkf")))
    small = [f for f in files if os.path.getsize(f) < 6000]
    for f in (files if thorough else rng.sample(files, min(10, len(files)))):
        inputs.append(("archived " + os.path.basename(f), Path(f).read_bytes()))
    gen = [doc_text(gen_network(rng)).encode() for _ in range(150 if thorough else 40)]
    for i, g in enumerate(gen):
        inputs.append((f"generated {i}", g))
    bases = [Path(f).read_bytes() for f in (small if thorough else rng.sample(small, min(3, len(small))))] + gen[:(10 if thorough else 3)]
    # truncation at every byte (thorough) / sampled (quick)
    for bi, b in enumerate(bases):
        cuts = range(len(b)) if thorough and len(b) < 2500 else sorted(rng.sample(range(len(b)), min(len(b), 400 if thorough else 40)))
        for c in cuts:
            inputs.append((f"truncate base{bi} at {c}", b[:c]))
        for _ in range(600 if thorough else 40):
            m = bytearray(b)
            for _ in range(rng.choice([1, 1, 2, 4])):
                p = rng.randrange(len(m))
                op = rng.random()
                if op < 0.4:
                    m[p] = rng.choice(b"<>/\"'=& \n\x00\xff0123456789-+.eE")
                elif op < 0.6:
                    del m[p]
                elif op < 0.8:
                    m.insert(p, rng.choice(b"<>/\"'=& 019-.e"))
                else:
                    q = rng.randrange(len(m))
                    a, z = min(p, q), max(p, q)
                    m[a:z] = m[a:z] * 2 if z - a < 200 else b""
            inputs.append((f"byte mutation base{bi}", bytes(m)))
    # structural mutations and numeric literals in attribute positions
    for i in range(3000 if thorough else 200):
        r, what = mutate(rng, gen_network(rng))
        inputs.append((f"mutation: {what}", ('<?xml version="1.0" ?>\n' + ser_mut(r)).encode()))
    lits = ["", " ", "+", "-", ".", "e", "1e", "1e+", "1e5", "1E-3", "+.5", "5.", "1 1", "1.2.3", "0x10", "1e999", "-1e999", "99999999999999999999",
            "2147483648", "-2147483649", "4294967297", "1-2-3", "-1-2-3", "+-1-2-3", "400-0-0", "0-60-60", "1-2-3e400", "NaN", "inf", "١", "1\t", "\n1\n",
            "1e300", "-1e300", "1e18", "1e-320", "99999999-59-59.9"]
    attrs = [("parameters", "sigma-apr"), ("parameters", "conf-pr"), ("parameters", "tol-abs"), ("parameters", "cov-band"), ("parameters", "latitude"),
             ("network", "epoch"), ("points-observations", "distance-stdev"), ("points-observations", "direction-stdev"),
             ("point", "x"), ("point", "z"), ("distance", "val"), ("direction", "val"), ("angle", "val"), ("obs", "orientation"), ("obs", "from_dh"),
             ("dh", "val"), ("dh", "dist"), ("vec", "dx"), ("cov-mat", "dim"), ("cov-mat", "band"), ("distance", "stdev")]
    combos = [(t, a, v) for (t, a) in attrs for v in lits]
    for (t, a, v) in (combos if thorough else rng.sample(combos, 150)):
        root = gen_network(random.Random(f"{ctx.seed}-{t}"), size=4)
        nodes = [e for e, _ in walk(root) if e.tag == t]
        if not nodes:
            if t in ("parameters",):
                root.kids[0].kids.insert(0, El("parameters", []))
                nodes = [root.kids[0].kids[0]]
            else:
                continue
        e = nodes[0]
        e.attrs = [(k, x) for k, x in e.attrs if k != a] + [(a, v)]
        inputs.append((f"literal {t}/@{a}={v!r}", doc_text(root).encode()))
    # cov-mat dimension vs number of observations, huge dimensions
    for t in ("obs", "height-differences", "coordinates", "vectors"):
        for _ in range(40 if thorough else 5):
            for _try in range(30):
                root = gen_network(rng)
                cl = [e for e, _ in walk(root) if e.tag == t and any(k.tag == "cov-mat" for k in e.kids)]
                if cl:
                    break
            else:
                continue
            cm = [k for k in cl[0].kids if k.tag == "cov-mat"][0]
            d = int(dict(cm.attrs)["dim"]) + rng.choice([-1, 1, 2])
            if d < 1:
                d = 2 + int(dict(cm.attrs)["dim"])
            b = rng.randint(0, d - 1)
            cm.attrs = [("dim", str(d)), ("band", str(b))]
            cm.text = cov_text(rng, d, b)
            inputs.append((f"cov-mat dim {d} differs from the number of observations in <{t}>", doc_text(root).encode()))
    # bounded open/close sequences over the tag alphabet (random walks; the exhaustive one-step probes are in the correspondence)
    for _ in range(4000 if thorough else 150):
        s, stack = "", []
        for _ in range(rng.randint(1, 6)):
            if stack and rng.random() < 0.4:
                s += f"</{stack.pop()}>"
            else:
                t = rng.choice(ALL_TAGS)
                s += f"<{t}>"
                stack.append(t)
        if rng.random() < 0.7:
            while stack:
                s += f"</{stack.pop()}>"
        inputs.append(("tag sequence " + s[:60], s.encode()))
    return inputs


def exec_oracle(ctx, corr, inputs):
    gl = ctx.build_gama(sanitize=True) / "gama-local"
    seen, uniq = set(), []
    for lab, d in inputs:
        h = sha(d)
        if h not in seen:
            seen.add(h)
            uniq.append((lab, d))
    opts = [(), ("--algorithm", "gso"), ("--algorithm", "svd"), ("--algorithm", "cholesky"), ("--cov-band", "0"), ("--angular", "360"),
            ("--iterations", "0"), ("--language", "cz"), ("--encoding", "cp-1250"), ("--latitude", "45"), ("--ellipsoid", "wgs84")]

    def one(item):
        i, (lab, d) = item
        extra = opts[i % len(opts)] if i % 3 == 0 else ()
        rc, out, err = run_gama(gl, d, extra, xml=(i % 2 == 0 and sha(d) not in EXPECT_LINE))
        return i, lab, d, extra, rc, judge(rc, out, err), err
    t0 = time.time()
    with concurrent.futures.ThreadPoolExecutor(max_workers=16) as ex:
        results = list(ex.map(one, enumerate(uniq)))
    for i, lab, d, extra, rc, verdict, err in results:
        corr.case(key=("exec", sha(d)) if len(d) > 40 else None)
        corr.count("exec_rc_%s" % rc)
        if rc == "wall":
            wall_inconclusive(corr, f"gama-local [{lab}]")
        want = EXPECT_LINE.get(sha(d))
        if want is not None and not verdict and rc not in ("wall", "cpu"):
            corr.count("exec_located_checks")
            m = re.search(LINE_RX, err)
            if rc != 3 or not m:
                verdict = (f"expected a refusal by the parser naming line {want}, got exit status {rc}", "gama-local main")
            elif int(m.group(1)) != want:
                verdict = (f"the diagnostic names line {m.group(1)}, the offending element starts on line {want}", "CoreParser::error")
        if verdict:
            corr.fail(f"gama-local: {verdict[0]} [{lab}]", {"stream": "exec", "label": lab, "options": list(extra),
                                                            "doc": d.decode("utf-8", "replace"), "doc_hex": d.hex() if len(d) < 20000 else None},
                      verdict[1], (err[:2200] + "\n[...]\n" + err[-600:]) if len(err) > 2900 else err)
    corr.count("exec_runs", len(uniq))
    ctx.log(f"executable oracle: {len(uniq)} runs of sanitized gama-local in {time.time() - t0:.1f}s")


def _gkf_streams(ctx, corr, exe):
    rng = ctx.rng
    docs = []
    corpus = ctx.verif / "corpus" / "C11"
    if corpus.exists():
        for f in sorted(corpus.glob("*.gkf")):
            docs.append(("corpus " + f.name, f.read_bytes(), -1, CORPUS_EXPECT.get(f.name)))
    docs += located_docs(rng, ctx.size(60, 600))
    for lab, t in probe_docs():
        docs.append((lab, t.encode(), -1, None))
    files = sorted(_glob.glob(str(ctx.repo / "tests" / "gama-local" / "input" / "*.gkf")))
    for f in (files if ctx.thorough else rng.sample(files, min(8, len(files)))):
        b = Path(f).read_bytes()
        docs.append(("archived " + os.path.basename(f), b, -1, "accept"))
        docs.append(("archived " + os.path.basename(f) + " split", b, rng.randrange(len(b)), "accept"))
    for i in range(ctx.size(250, 2500)):
        root = gen_network(rng)
        b = doc_text(root).encode()
        docs.append((f"grammar {i}", b, -1, "accept"))
        for _ in range(ctx.size(2, 4)):
            docs.append((f"grammar {i} split", b, rng.randrange(len(b) + 1), "accept"))
        for _ in range(ctx.size(3, 6)):
            r, what = mutate(rng, root)
            mb = ('<?xml version="1.0" ?>\n' + ser_mut(r)).encode()
            docs.append((f"mutation of grammar {i}: {what}", mb, -1, None))
            docs.append((f"mutation of grammar {i}: {what} (split)", mb, rng.randrange(len(mb) + 1), None))
    if ctx.thorough:          # every split point of a few small documents
        for j in range(6):
            b = doc_text(gen_network(rng, size=3)).encode()
            r, what = mutate(rng, gen_network(rng, size=3))
            mb = ser_mut(r).encode()
            for k in range(0, len(b) + 1):
                docs.append((f"allsplits {j}", b, k, "accept"))
            for k in range(0, len(mb) + 1):
                docs.append((f"allsplits mutated {j}: {what}", mb, k, None))
    vd = value_docs(rng, ctx.size(700, 15000))
    docs += vd
    xreq = xsd_required(ctx.repo)
    rd = rule_docs(xreq)
    docs += rd
    corr.count("rule_docs", len(rd))
    corr.count("rule_docs_required_attributes_from_xsd", sum(len(v) for v in (xreq or {}).values()))
    if xreq is not None and {k: sorted(v) for k, v in xreq.items()} != {k: sorted(v) for k, v in REQ_ATTRS.items()}:
        ctx.log("required attributes of xml/gama-local.xsd differ from the documented table REQ_ATTRS: rule documents follow the schema")
    xo = xsd_optional_docs(ctx.repo)
    docs += xo
    corr.count("xsd_optional_docs", len(xo))
    fv = first_violation_docs()
    docs += fv
    corr.count("first_violation_docs", len(fv))
    run_docs(ctx, corr, exe, docs, "events")
    ctx.log(f"event correspondence: {len(docs)} documents ({len(vd)} with attribute values from the literal languages and their complements)")
    n = run_literals(ctx, corr, exe)
    ctx.log(f"literal correspondence: {n} strings")
    run_cov(ctx, corr, exe)


def correspond(ctx, corr):
    """the streams are independent: each gets its own RNG (derived from the seed and the stream's name, so the documents do not
    depend on scheduling) and its own Corr; they run side by side (they are subprocess-bound) and are merged in a fixed order"""
    import copy
    decorate_failures(ctx, corr)
    d = ctx.build_gama(sanitize=True)          # all builds first, one after the other: the streams then hit the cache
    objs = sorted(_glob.glob(str(d / "CMakeFiles" / "libgama.dir" / "**" / "*.o"), recursive=True))
    exe = ctx.build_cpp("c11_gkf", [ctx.verif / "harness" / "c11_gkf.cpp"], includes=[ctx.verif / "harness"], libs=objs + ["-lexpat"])
    readers_exe(ctx)
    for hn in ("c11_adjres", "c11_dataparser"):
        ctx.build_cpp(hn, [ctx.verif / "harness" / (hn + ".cpp")], includes=[ctx.verif / "harness"], libs=objs + ["-lexpat"])

    def sub(name):
        c = copy.copy(ctx)
        c.rng = random.Random(f"C11-{ctx.seed}-{name}")
        k = Corr()
        decorate_failures(c, k)
        return c, k
    subs = {n: sub(n) for n in ("gkf", "exec", "readers", "adjres", "dataparser")}
    adjres = next((m for m in SUBS if m.__name__ == "c11_adjres"), None)
    dparser = next((m for m in SUBS if m.__name__ == "c11_dataparser"), None)

    def job_gkf():
        _gkf_streams(subs["gkf"][0], subs["gkf"][1], exe)

    def job_exec():
        exec_oracle(subs["exec"][0], subs["exec"][1], exec_inputs(subs["exec"][0]))

    def job_readers():
        bases = run_readers(*subs["readers"])
        if adjres is not None:
            adjres.run_stream(subs["adjres"][0], subs["adjres"][1], bases)

    def job_dp():
        if dparser is not None:
            dparser.run_stream(*subs["dataparser"])
    with concurrent.futures.ThreadPoolExecutor(max_workers=4) as ex:
        futs = [ex.submit(j) for j in (job_gkf, job_exec, job_readers, job_dp)]
        errs = []
        for f in futs:
            try:
                f.result()
            except Exception as e:      # report the first one after all streams finished
                errs.append(e)
    for n in ("gkf", "exec", "readers", "adjres", "dataparser"):
        k = subs[n][1]
        corr.evaluations += k.evaluations
        corr.nontrivial |= k.nontrivial
        corr.samples += [x for x in k.samples if len(corr.samples) < 5]
        corr.disagreements += k.disagreements
        corr.failures += k.failures
        for key, v in k.stats.items():
            if isinstance(v, (int, float)) and isinstance(corr.stats.get(key, 0), (int, float)) and not key.startswith("max_"):
                corr.stats[key] = corr.stats.get(key, 0) + v
            else:
                corr.stats[key] = v
        corr.inconclusive += k.inconclusive
    if errs:
        raise errs[0]
    if corr.stats.get("outcome_parser", 0) < 20:
        corr.inconclusive.append("fewer than 20 refused documents in the event correspondence")
    if corr.stats.get("outcome_ok", 0) < 20:
        corr.inconclusive.append("fewer than 20 accepted documents in the event correspondence")


def search(ctx, broken, corr):
    """a proof / translator / correspondence broke and no failing input is known yet: look harder on the executable"""
    c2 = Corr()
    decorate_failures(ctx, c2)
    exec_oracle(ctx, c2, exec_inputs(ctx, thorough_override=True))
    return c2.failures


# ------------------------------------------------------------------ known findings / replay

def classify(ctx, failure):
    w = failure.what
    doc = ((failure.replay or {}).get("doc") or "") if isinstance(failure.replay, dict) else ""
    if "heap-buffer-overflow" in w and "activeCov" in (failure.detail or "") and "cov-mat" in doc:
        return "F9"
    if "cov-mat dim" in w and "differs from the number of observations" in w and ("<obs" in doc or "<height-differences" in doc):
        return "F9"
    if ("diagnostic names no line" in w or "leaves an expat callback" in w) and re.search(r'conf-pr="[^"]*"', doc):
        return "C11-confpr"
    if "line number 0" in w or "refused without a line number" in w:
        if re.search(r"<(coordinates|vectors)[^>]*/>|<(coordinates|vectors)[^>]*>(?:(?!cov-mat).)*</\2>", doc, re.S):
            return "C11-silent-end"
    det = failure.detail or ""
    # round 3: defects of the result / g3 readers with proposed patches (ids become effective once listed as known)
    if w.startswith("html reader: sanitizer report") and "GNU_gama::HtmlParser::" in det:
        return "C11-htmlparser-memory"
    if "reader: exception bad_alloc leaves the reader" in w and w.startswith("g3 ") and re.search(r"<(sparse-mat|block-diagonal)\b", doc):
        return "C11-dataparser-pure-data-failbit"
    if "rc=87" in w and re.search(r"svd\.h:\d+:\d+: runtime error: applying non-zero offset \d+ to null pointer", det) and "reset_UWV" in det:
        return "C11-svd-empty-ub"
    if "heap-buffer-overflow" in w and "LocalNetwork::Unknown::operator=" in det and "LocalNetwork::project_equations" in det:
        return "C11-unknowns-stale-index"
    if ("does not terminate" in w) and re.search(r'val="[^"]*(1e999|1e300|1e18|inf)[^"]*"', doc):
        return "C11-norm-rad-hang"
    if "rc=87" in w and re.search(r"memrep\.h:\d+:\d+: runtime error: null pointer passed as argument", det):
        return "C11-memrep-empty-memcpy"
    if "rc=87" in w and re.search(r"acord(hdiff|vector)\.h:\d+:\d+: runtime error: load of value \d+, which is not a valid value for type 'bool'", det):
        return "C11-acord-uninit-active"
    if "error lost" in w and "<coordinates" in doc:
        return "C11-error-lost"
    if "grammar-derived document refused" in w and re.search(r'<parameters[^>]*\b(language|encoding)=', doc):
        return "C11-params-attrs"
    return None


def replay(ctx, payload):
    f = payload.get("failure") or {}
    inp = f.get("input") or {}
    print(json.dumps({k: v for k, v in f.items() if k != "input"}, indent=1)[:3000])
    doc = inp.get("doc")
    if inp.get("stream") == "readers" and inp.get("doc_hex") is not None:
        _, exe = readers_exe(ctx)
        b = bytes.fromhex(inp["doc_hex"])
        v, det = reader_run_one(exe, inp.get("op", "xml"), b)
        print(f"{inp.get('op')} reader on {len(b)} bytes ({inp.get('label')})")
        print(det[-1800:])
        print("oracle:", v)
        return 1 if v else 0
    if inp.get("stream") == "adjres-events" and inp.get("doc_hex") is not None:
        _, exe = readers_exe(ctx)
        b = bytes.fromhex(inp["doc_hex"])
        v, det = reader_run_one(exe, "xml", b)
        print(f"LocalNetworkAdjustmentResults::read_xml on {len(b)} bytes ({inp.get('label')})")
        print(det[-1800:])
        print("oracle:", v)
        return 1 if v else 0
    if inp.get("stream") in ("dp_events", "dp_values", "dp_explore"):
        dp = next((m for m in SUBS if m.__name__ == "c11_dataparser" and hasattr(m, "replay_doc")), None)
        if dp is not None:
            return dp.replay_doc(ctx, inp)
    if doc is None:
        print(json.dumps(payload.get("no_longer_checks"), indent=1)[:4000])
        return 0
    data = bytes.fromhex(inp["doc_hex"]) if inp.get("doc_hex") else doc.encode()
    gl = ctx.build_gama(sanitize=True) / "gama-local"
    rc, out, err = run_gama(gl, data, inp.get("options") or ())
    v = judge(rc, out, err)
    print("gama-local rc =", rc)
    print(err[-1500:])
    print("oracle:", v)
    return 1 if v else 0
