"""
C10 network-level property oracle on the implementation (gama-local executable).

Property C10: a cluster given with a (banded) covariance matrix is adjusted exactly as the
mathematically equivalent problem with that matrix as weight inverse.  Every case is a set of
gkf inputs ("variants") which are exact reformulations of one another; all variants are run
with all four algorithms and must give the same adjusted coordinates, the same degrees of
freedom and the same [pvv]; or (families malformed*) a single broken input which every
algorithm has to reject with a diagnostic.

Families
  diag      stdev="s_i" per observation  ==  <cov-mat band=0> of s_i^2  ==  same matrix written
            with a wider band / full, padded with explicit zeros (obs, height-differences);
            band 0 vs band k vs full for coordinates / vectors (cov-mat mandatory there);
            a random banded SPD matrix with band b vs the same matrix padded to a wider band.
  whiten    m repeated observations of one quantity with banded SPD C = L L^T  ==  m independent
            observations  t_i/w_i  with stdev 1/|w_i|   (M = L^-1 exact, w = M 1, t = M val).
  transform levelling cluster, C' = T C T^T with T unimodular (sign flips, permutation, path sums).
  excluded  observations that refer to a point which is not part of the network become passive
            (LocalRevision: PD.find(id) == end, or point neither fix nor adj)  ==  the cluster
            without them and the principal sub-matrix of the covariance matrix.
  malformed indefinite / zero / negative variance, dim != number of observations (coordinates,
            vectors), too few / too many elements, band >= dim: every algorithm must reject.
  malformed_dim_obs   (finding F9 = C10-covmat-dim-check, FIXED in /repo 410fb36; include_f9: now a regression family) dim !=
            number of observations inside <obs> and <height-differences>: GKFparser::finish_obs / finish_hdiffs must reject
            (guard regenerated into Gen/HomogenizationSites: dimGuardObs / dimGuardHdiffs, theorem C10_dim_guard_site).
  ysign     inconsistent systems (axes-xy x angles of opposite handedness: gama-local mirrors y internally,
            LocalNetwork::change_y_signs_for_inconsistent_system_) x <vectors> clusters with >= 2 vectors /
            <coordinates> clusters with >= 2 points x FULL (or band >= 3) covariance matrices with non-zero
            cov(dy_i,dy_j) / cov(y_i,y_j): the same file with angles="left-handed" and "right-handed" must be adjusted
            identically (only coordinates, coordinate differences and distances are observed), and, when all
            observations are linear, must reproduce the exact rational generalised least squares solution with
            W = C^-1 (normal equations solved in Fractions).
  tiny      (include_tiny) valid clusters whose cofactors  cov / sigma-apr^2  are below the ABSOLUTE
            tolerance 1e-14 of BlockDiagonal::cholDec; Homogenization::run throws NonPositiveDefinite on its non-zero
            return value (since /repo 7e9fd7d), so --algorithm envelope REFUSES these valid inputs: finding C10-TINY (known,
            status known in known_findings.jsonl; theorems C10_tiny_gap, C10_acceptance_tests_agree_iff in Props/C10Accept.lean).

Only the standard library; all randomness comes from ctx.rng; payloads carry the gkf texts.
"""
import concurrent.futures
import math
import os
import shutil
import subprocess
import tempfile
import xml.etree.ElementTree as ET
from fractions import Fraction as Fr
from pathlib import Path

ALGS = ("envelope", "cholesky", "gso", "svd")
KINDS = ("obs", "hdiffs", "coords", "vectors")

# Adjusted coordinates are printed with 16 decimals (full double precision), [pvv] with 8
# significant digits.  Measured on the unchanged tree (seeds 1..13, up to 300 cases each): max deviation
# of coordinates between variants/algorithms 8.5e-14 m, [pvv] identical in all 8 printed digits.
# Deliberately wrong variants (sensitivity_probe: one off-diagonal dropped, wrong sub-matrix, wrong
# whitening) move coordinates by 3e-6..3e-3 m and [pvv] by 0.2..80 %.
COORD_ATOL = 1e-9      # m
COORD_RTOL = 1e-6      # relative to the size of the correction (adjusted - approximate)
PVV_RTOL = 1e-5
PVV_ATOL = 1e-9
WORKERS = 16
GON = 200.0 / math.pi

SITE = {"diag": "GKFparser::finish_cov", "whiten": "LocalNetwork::prepareProjectEquations",
        "transform": "LocalNetwork::prepareProjectEquations", "excluded": "Cluster::activeCov",
        "malformed": "GKFparser::process_cov", "tiny": "Homogenization::run",
        "ysign": "LocalNetwork::change_y_signs_for_inconsistent_system_"}


# ------------------------------------------------------------------------------------------ numbers

def _num(v):
    """text of a number: exact for ints / Fractions that are ints, shortest round-trip repr otherwise"""
    if isinstance(v, Fr):
        if v.denominator == 1:
            return str(v.numerator)
        return repr(float(v))
    if isinstance(v, int):
        return str(v)
    f = float(v)
    if f == int(f) and abs(f) < 1e15:
        return str(int(f))
    return repr(f)


def _dec(x, nd):
    """x rounded to nd decimals as an exact Fraction (so that sums / combinations are exact)"""
    return Fr(round(x * 10 ** nd), 10 ** nd)


def _matmul(a, b):
    return [[sum(a[i][k] * b[k][j] for k in range(len(b))) for j in range(len(b[0]))] for i in range(len(a))]


def _transpose(a):
    return [list(r) for r in zip(*a)]


def _band_of(c):
    n = len(c)
    return max([abs(i - j) for i in range(n) for j in range(n) if c[i][j] != 0] + [0])


def _spd(rng, n, band, scales=None):
    """exactly SPD integer matrix C = D L L^T D, L lower triangular with bandwidth `band`"""
    L = [[0] * n for _ in range(n)]
    for i in range(n):
        L[i][i] = rng.choice((1, 1, 2, 2, 3))
        for j in range(max(0, i - band), i):
            L[i][j] = rng.choice((-2, -1, -1, 0, 1, 1, 2))
    if band > 0:           # make the bandwidth exactly `band`
        i = rng.randrange(band, n)
        if L[i][i - band] == 0:
            L[i][i - band] = rng.choice((-1, 1))
    C = _matmul(L, _transpose(L))
    if scales:
        C = [[C[i][j] * scales[i] * scales[j] for j in range(n)] for i in range(n)]
    return L, C


def _lower_inverse(L):
    n = len(L)
    M = [[Fr(0)] * n for _ in range(n)]
    for c in range(n):
        for i in range(n):
            s = Fr(1 if i == c else 0) - sum(Fr(L[i][k]) * M[k][c] for k in range(i))
            M[i][c] = s / L[i][i]
    return M


def _sub(c, idx):
    return [[c[i][j] for j in idx] for i in idx]


# ------------------------------------------------------------------------------------------ gkf text

def _cov_xml(c, band, dim=None, tail=None, drop=0):
    n = len(c)
    rows = []
    flat = []
    for i in range(n):
        r = [_num(c[i][j]) for j in range(i, min(n, i + band + 1))]
        flat += r
        rows.append(r)
    if drop:
        k = drop
        while k and rows:
            if rows[-1]:
                rows[-1].pop()
                k -= 1
            else:
                rows.pop()
    if tail:
        rows.append([_num(t) for t in tail])
    body = "\n".join(" ".join(r) for r in rows if r)
    return f'<cov-mat dim="{n if dim is None else dim}" band="{band}">\n{body}\n</cov-mat>'


def _cluster_xml(cl):
    k = cl["kind"]
    out = []
    cov = cl.get("cov_xml")
    if cov is None and cl.get("cov") is not None:
        cov = _cov_xml(cl["cov"], cl["band"])
    if k == "obs":
        out.append(f'<obs from="{cl["from"]}">')
        for it in cl["items"]:
            a = f'<{it["t"]}'
            if "from" in it:
                a += f' from="{it["from"]}"'
            a += f' to="{it["to"]}" val="{_num(it["val"])}"'
            if cov is None and "stdev" in it:
                a += f' stdev="{_num(it["stdev"])}"'
            out.append(a + " />")
        if cov:
            out.append(cov)
        out.append("</obs>")
    elif k == "hdiffs":
        out.append("<height-differences>")
        for it in cl["items"]:
            a = f'<dh from="{it["from"]}" to="{it["to"]}" val="{_num(it["val"])}"'
            if cov is None and "stdev" in it:
                a += f' stdev="{_num(it["stdev"])}"'
            out.append(a + " />")
        if cov:
            out.append(cov)
        out.append("</height-differences>")
    elif k == "coords":
        out.append("<coordinates>")
        for it in cl["items"]:
            out.append(f'<point id="{it["id"]}" x="{_num(it["x"])}" y="{_num(it["y"])}"'
                       + (f' z="{_num(it["z"])}"' if "z" in it else "") + " />")
        out.append(cov)
        out.append("</coordinates>")
    elif k == "vectors":
        out.append("<vectors>")
        for it in cl["items"]:
            out.append(f'<vec from="{it["from"]}" to="{it["to"]}" dx="{_num(it["dx"])}" dy="{_num(it["dy"])}" '
                       f'dz="{_num(it["dz"])}" />')
        out.append(cov)
        out.append("</vectors>")
    return "\n".join(out)


def _gkf(net, clusters, description, extra_points=(), params=None, attrs=None):
    par = dict(net["params"])
    if params:
        par.update(params)
    out = ['<?xml version="1.0" ?>', '<gama-local xmlns="http://www.gnu.org/software/gama/gama-local">',
           "<network" + "".join(f' {k}="{v}"' for k, v in (attrs or {}).items()) + ">", f"<description>{description}</description>",
           "<parameters " + " ".join(f'{k}="{_num(v) if not isinstance(v, str) else v}"' for k, v in par.items()) + " />",
           "<points-observations>"]
    for p in list(net["points"]) + list(extra_points):
        a = f'<point id="{p["id"]}"'
        for c in ("x", "y", "z"):
            if c in p:
                a += f' {c}="{_num(p[c])}"'
        for c in ("fix", "adj"):
            if c in p:
                a += f' {c}="{p[c]}"'
        out.append(a + " />")
    for cl in clusters:
        out.append(_cluster_xml(cl))
    out += ["</points-observations>", "</network>", "</gama-local>", ""]
    return "\n".join(out)


# ------------------------------------------------------------------------------------------ base networks

def _params(rng, sigma=None):
    return {"sigma-apr": sigma if sigma is not None else rng.choice((1, 2, 5, 10)), "conf-pr": 0.95,
            "tol-abs": 1000, "sigma-act": rng.choice(("aposteriori", "apriori"))}


def _lev_net(rng, sigma=None):
    """2 fixed benchmarks, 2..4 unknown heights, independent dh with stdev: chain + extra edges"""
    k = rng.randint(2, 4)
    ids = ["A", "B"] + [f"P{i + 1}" for i in range(k)]
    true = {i: _dec(rng.uniform(100, 200), 3) for i in ids + ["G"]}
    pts = [{"id": "A", "z": true["A"], "fix": "z"}, {"id": "B", "z": true["B"], "fix": "z"}]
    pts += [{"id": i, "adj": "z"} for i in ids[2:]]
    chain = ["A"] + ids[2:] + ["B"]
    pairs = list(zip(chain, chain[1:]))
    for _ in range(rng.randint(1, 2)):
        a, b = rng.sample(ids, 2)
        if {a, b} != {"A", "B"}:
            pairs.append((a, b))
    items = []
    for a, b in pairs:
        sd = rng.choice((0.5, 1, 1.5, 2, 3))
        items.append({"from": a, "to": b, "val": _dec(float(true[b] - true[a]) + rng.gauss(0, sd * 1e-3), 5), "stdev": sd})
    return {"type": "lev", "params": _params(rng, sigma), "points": pts, "ids": ids, "true": true,
            "clusters": [{"kind": "hdiffs", "items": items}]}


def _plane_net(rng, sigma=None):
    """3 fixed points, 2..3 unknown points (approximate coordinates given), distances from every fixed point"""
    k = rng.randint(2, 3)
    fx = {"A": (rng.uniform(0, 50), rng.uniform(0, 50)), "B": (rng.uniform(500, 600), rng.uniform(0, 80)),
          "C": (rng.uniform(200, 300), rng.uniform(450, 550))}
    true = {i: (_dec(v[0], 3), _dec(v[1], 3)) for i, v in fx.items()}
    true["G"] = (_dec(rng.uniform(120, 420), 3), _dec(rng.uniform(80, 380), 3))
    ids = ["A", "B", "C"]
    pts = [{"id": i, "x": true[i][0], "y": true[i][1], "fix": "xy"} for i in ids]
    for j in range(k):
        pid = f"P{j + 1}"
        t = (_dec(rng.uniform(120, 420), 4), _dec(rng.uniform(80, 380), 4))
        true[pid] = t
        ids.append(pid)
        pts.append({"id": pid, "x": _dec(float(t[0]) + rng.uniform(-0.02, 0.02), 3),
                    "y": _dec(float(t[1]) + rng.uniform(-0.02, 0.02), 3), "adj": "xy"})
    clusters = []
    for s in ("A", "B", "C"):
        items = []
        for p in ids[3:]:
            sd = rng.choice((2, 3, 5))
            items.append({"t": "distance", "to": p, "val": _dec(_dist(true, s, p) + rng.gauss(0, sd * 1e-3), 5), "stdev": sd})
        clusters.append({"kind": "obs", "from": s, "items": items})
    return {"type": "plane", "params": _params(rng, sigma), "points": pts, "ids": ids, "true": true, "clusters": clusters}


def _space_net(rng, sigma=None):
    """2 fixed xyz points, 2 unknown xyz points, a chain of vectors with diagonal covariance matrix"""
    k = 2
    ids = ["A", "B"] + [f"P{i + 1}" for i in range(k)]
    true = {i: tuple(_dec(rng.uniform(0, 800), 3) for _ in range(3)) for i in ids + ["G"]}
    pts = [{"id": i, "x": true[i][0], "y": true[i][1], "z": true[i][2], "fix": "xyz"} for i in ids[:2]]
    for i in ids[2:]:
        pts.append({"id": i, "x": _dec(float(true[i][0]) + rng.uniform(-0.02, 0.02), 3),
                    "y": _dec(float(true[i][1]) + rng.uniform(-0.02, 0.02), 3),
                    "z": _dec(float(true[i][2]) + rng.uniform(-0.02, 0.02), 3), "adj": "xyz"})
    chain = ["A"] + ids[2:] + ["B"]
    items = [_vec(rng, true, a, b, 3) for a, b in zip(chain, chain[1:])]
    n = 3 * len(items)
    sds = [rng.choice((2, 3, 4)) for _ in range(n)]
    cov = [[sds[i] ** 2 if i == j else 0 for j in range(n)] for i in range(n)]
    return {"type": "space", "params": _params(rng, sigma), "points": pts, "ids": ids, "true": true,
            "clusters": [{"kind": "vectors", "items": items, "cov": cov, "band": 0}]}


def _vec(rng, true, a, b, sd):
    d = [_dec(float(true[b][c] - true[a][c]) + rng.gauss(0, sd * 1e-3), 5) for c in range(3)]
    return {"from": a, "to": b, "dx": d[0], "dy": d[1], "dz": d[2]}


def _dist(true, a, b):
    return math.hypot(float(true[b][0] - true[a][0]), float(true[b][1] - true[a][1]))


def _bearing(true, a, b):
    return math.atan2(float(true[b][1] - true[a][1]), float(true[b][0] - true[a][0])) % (2 * math.pi)


def _net_for(rng, kind, sigma=None):
    if kind == "hdiffs":
        return _lev_net(rng, sigma)
    if kind == "vectors":
        return _space_net(rng, sigma)
    return _plane_net(rng, sigma)


def _test_cluster(rng, net, kind, n_obs, ghosts=()):
    """a cluster of n_obs observations of the given kind; observations whose index is in `ghosts`
    refer to the point G which is not part of the network.  Returns (cluster, dims per observation,
    typical sigma per dimension)"""
    ids, true = net["ids"], net["true"]
    unknown = [i for i in ids if i.startswith("P")]
    if kind == "hdiffs":
        items, sc = [], []
        for i in range(n_obs):
            a, b = rng.sample(ids, 2)
            while not (a.startswith("P") or b.startswith("P")):
                a, b = rng.sample(ids, 2)
            sd = rng.choice((1, 2, 3))
            if i in ghosts:
                a, b = (a, "G") if rng.random() < 0.5 else ("G", b)
            v = _dec(float(true[b] - true[a]) + rng.gauss(0, sd * 1e-3), 5)
            items.append({"from": a, "to": b, "val": v, "stdev": sd})
            sc.append(sd)
        return {"kind": "hdiffs", "items": items}, [1] * n_obs, sc
    if kind == "obs":
        st = rng.choice(ids)
        others = [i for i in ids if i != st]
        orient = rng.uniform(0, 400)
        nd = rng.randint(2, max(2, min(len(others), n_obs - 1))) if n_obs >= 3 else 0
        types = ["direction"] * nd + ["distance"] * (n_obs - nd)
        rng.shuffle(types)
        dir_targets = rng.sample(others, min(nd, len(others)))
        items, sc = [], []
        for i in range(n_obs):
            if types[i] == "direction":
                t = "G" if i in ghosts else (dir_targets.pop() if dir_targets else rng.choice(others))
                sd = rng.choice((5, 10, 20))
                v = (_bearing(true, st, t) * GON - orient + rng.gauss(0, sd * 1e-4)) % 400.0
                items.append({"t": "direction", "to": t, "val": _dec(v, 6), "stdev": sd})
            else:
                t = "G" if i in ghosts else rng.choice(others if st in unknown else unknown)
                sd = rng.choice((2, 3, 5))
                items.append({"t": "distance", "to": t, "val": _dec(_dist(true, st, t) + rng.gauss(0, sd * 1e-3), 5), "stdev": sd})
            sc.append(sd)
        return {"kind": "obs", "from": st, "items": items}, [1] * n_obs, sc
    if kind == "coords":
        items, sc = [], []
        cand = list(unknown)
        for i in range(n_obs):
            if i in ghosts:
                items.append({"id": "G" if list(ghosts).index(i) == 0 else f"G{list(ghosts).index(i)}",
                              "x": _dec(rng.uniform(100, 400), 3), "y": _dec(rng.uniform(100, 400), 3)})
            else:
                p = cand[len([1 for j in range(i) if j not in ghosts]) % len(cand)]
                items.append({"id": p, "x": _dec(float(true[p][0]) + rng.gauss(0, 3e-3), 4),
                              "y": _dec(float(true[p][1]) + rng.gauss(0, 3e-3), 4)})
            sc += [rng.choice((2, 3, 5)), rng.choice((2, 3, 5))]
        return {"kind": "coords", "items": items}, [2] * n_obs, sc
    if kind == "vectors":
        items, sc = [], []
        for i in range(n_obs):
            a, b = rng.sample(ids, 2)
            while not (a.startswith("P") or b.startswith("P")):
                a, b = rng.sample(ids, 2)
            if i in ghosts:
                a, b = (a, "G") if rng.random() < 0.5 else ("G", b)
            items.append(_vec(rng, true, a, b, 3))
            sc += [rng.choice((2, 3, 4)) for _ in range(3)]
        return {"kind": "vectors", "items": items}, [3] * n_obs, sc
    raise ValueError(kind)


def _n_obs_for(rng, kind):
    return {"obs": rng.randint(3, 6), "hdiffs": rng.randint(2, 6), "coords": rng.randint(1, 3),
            "vectors": rng.randint(1, 2)}[kind]


def _case(family, sub, kind, variants, expect="equal", **meta):
    return {"oracle": "c10_net", "family": family, "sub": sub, "kind": kind, "expect": expect,
            "variants": variants, "meta": meta}


def _var(name, gkf, **kw):
    d = {"name": name, "gkf": gkf}
    d.update(kw)
    return d


# ------------------------------------------------------------------------------------------ families

def gen_diag(rng):
    kind = rng.choice(KINDS)
    sub = rng.choice(("stdev", "bandpad")) if kind in ("obs", "hdiffs") else rng.choice(("diagpad", "bandpad"))
    net = _net_for(rng, kind)
    cl, dims, sc = _test_cluster(rng, net, kind, _n_obs_for(rng, kind))
    n = sum(dims)
    base = net["clusters"]
    variants = []

    def v(name, band, cov):
        c = dict(cl, cov=cov, band=band)
        variants.append(_var(name, _gkf(net, base + [c], f"C10 diag/{sub} {kind} n={n} {name}")))

    if sub in ("stdev", "diagpad"):
        sds = [rng.choice((0.5, 1, 1.5, 2, 2.5, 3, 4, 5, 10)) for _ in range(n)]
        if kind in ("obs", "hdiffs"):
            for it, s in zip(cl["items"], sds):
                it["stdev"] = s
            variants.append(_var("stdev-attr", _gkf(net, base + [cl], f"C10 diag/{sub} {kind} n={n} stdev attributes")))
        cov = [[Fr(sds[i]) ** 2 if i == j else 0 for j in range(n)] for i in range(n)]
        b0 = 0
    else:
        b0 = rng.randint(0, max(0, n - 2))
        _, cov = _spd(rng, n, b0, sc)
    v(f"band{b0}", b0, cov)
    if n - 1 > b0:
        v(f"band{n - 1}-full", n - 1, cov)
        if n - 1 > b0 + 1:
            bm = rng.randint(b0 + 1, n - 2)
            v(f"band{bm}-padded", bm, cov)
    return _case("diag", sub, kind, variants, n=n, band=b0)


def gen_whiten(rng):
    kind = rng.choice(("hdiffs", "hdiffs", "obs"))
    net = _net_for(rng, kind)
    ids, true = net["ids"], net["true"]
    for _ in range(50):
        m = rng.randint(2, 6)
        b = rng.randint(1, m - 1)
        L, C = _spd(rng, m, b)
        M = _lower_inverse(L)
        w = [sum(M[i]) for i in range(m)]
        if all(abs(x) >= Fr(1, 5) for x in w):
            break
    else:
        m, b = 2, 1
        L = [[1, 0], [1, 2]]
        C = _matmul(L, _transpose(L))
        M = _lower_inverse(L)
        w = [sum(M[i]) for i in range(m)]
    if kind == "hdiffs":
        a, bb = rng.sample(ids, 2)
        while not (a.startswith("P") or bb.startswith("P")):
            a, bb = rng.sample(ids, 2)
        q = float(true[bb] - true[a])
        vals = [_dec(q + rng.gauss(0, 2e-3), 5) for _ in range(m)]
        mk = lambda val, sd: {"from": a, "to": bb, "val": val, "stdev": sd}
        head = {"kind": "hdiffs"}
    else:
        unknown = [i for i in ids if i.startswith("P")]
        bb = rng.choice(unknown)
        a = rng.choice([i for i in ids if i != bb])
        q = _dist(true, a, bb)
        vals = [_dec(q + rng.gauss(0, 2e-3), 5) for _ in range(m)]
        mk = lambda val, sd: {"t": "distance", "to": bb, "val": val, "stdev": sd}
        head = {"kind": "obs", "from": a}
    t = [sum(M[i][k] * vals[k] for k in range(m)) for i in range(m)]
    corr_cl = dict(head, items=[mk(v, 1) for v in vals], cov=C, band=b)
    white = dict(head, items=[mk(t[i] / w[i], 1 / abs(w[i])) for i in range(m)])
    white_cov = dict(white, cov=[[(1 / w[i]) ** 2 if i == j else 0 for j in range(m)] for i in range(m)], band=0)
    base = net["clusters"]
    pos = rng.randint(0, len(base))          # position of the cluster among the others
    mkk = lambda c: base[:pos] + [c] + base[pos:]
    variants = [_var(f"correlated-band{b}", _gkf(net, mkk(corr_cl), f"C10 whiten {kind} m={m} band={b} correlated")),
                _var("whitened-stdev", _gkf(net, mkk(white), f"C10 whiten {kind} m={m} independent")),
                _var("correlated-full", _gkf(net, mkk(dict(corr_cl, band=m - 1)), f"C10 whiten {kind} m={m} full matrix"))]
    if rng.random() < 0.5:
        variants.append(_var("whitened-cov0", _gkf(net, mkk(white_cov), f"C10 whiten {kind} m={m} independent, cov-mat band 0")))
    return _case("whiten", "repeat", kind, variants, n=m, band=b)


def gen_transform(rng):
    net = _lev_net(rng)
    ids, true = net["ids"], net["true"]
    order = list(ids)
    rng.shuffle(order)
    n = rng.randint(2, len(ids) - 1)
    path = order[:n + 1]
    while not any(p.startswith("P") for p in path):
        rng.shuffle(order)
        path = order[:n + 1]
    b = rng.randint(0, n - 1)
    sc = [rng.choice((1, 2, 3)) for _ in range(n)]
    _, C = _spd(rng, n, b, sc)
    vals = [_dec(float(true[path[i + 1]] - true[path[i]]) + rng.gauss(0, 2e-3), 5) for i in range(n)]
    ops = rng.choice((("flip",), ("perm",), ("sum",), ("sum", "flip"), ("sum", "flip", "perm"), ("flip", "perm")))
    # rows as (i, j, sign): sign * (h[path[j+1]] - h[path[i]])  = sign * sum of edges i..j
    rows = [(i, i, 1) for i in range(n)]
    if "sum" in ops:
        acc = []
        for i in range(n):
            if i > 0 and rng.random() < 0.6:
                acc.append((acc[-1][0], i, 1))
            else:
                acc.append((i, i, 1))
        if all(r[0] == r[1] for r in acc):
            acc[1] = (0, 1, 1)
        rows = acc
    if "flip" in ops:
        s = [rng.choice((-1, 1)) for _ in range(n)]
        if all(x == 1 for x in s):
            s[rng.randrange(n)] = -1
        rows = [(r[0], r[1], s[k]) for k, r in enumerate(rows)]
    if "perm" in ops:
        p = list(range(n))
        while p == list(range(n)):
            rng.shuffle(p)
        rows = [rows[k] for k in p]
    T = [[r[2] if r[0] <= k <= r[1] else 0 for k in range(n)] for r in rows]
    C2 = _matmul(_matmul(T, C), _transpose(T))
    vals2 = [sum(T[i][k] * vals[k] for k in range(n)) for i in range(n)]
    items1 = [{"from": path[i], "to": path[i + 1], "val": vals[i]} for i in range(n)]
    items2 = []
    for r, v in zip(rows, vals2):
        a, c = path[r[0]], path[r[1] + 1]
        if r[2] < 0:
            a, c = c, a
        items2.append({"from": a, "to": c, "val": v})
    base = net["clusters"]
    sub = "+".join(ops)
    b2 = _band_of(C2)
    variants = [_var(f"original-band{b}", _gkf(net, base + [{"kind": "hdiffs", "items": items1, "cov": C, "band": b}],
                                               f"C10 transform {sub} n={n} band={b} original")),
                _var("transformed-full", _gkf(net, base + [{"kind": "hdiffs", "items": items2, "cov": C2, "band": n - 1}],
                                              f"C10 transform {sub} n={n} T C T^T full"))]
    if b2 < n - 1:
        variants.append(_var(f"transformed-band{b2}", _gkf(net, base + [{"kind": "hdiffs", "items": items2, "cov": C2, "band": b2}],
                                                           f"C10 transform {sub} n={n} T C T^T band {b2}")))
    return _case("transform", sub, "hdiffs", variants, n=n, band=b)


def _mask(rng, n):
    style = rng.choice(("random", "first", "last", "consecutive", "alternating", "random"))
    if n == 2:
        style = rng.choice(("first", "last"))
    if style == "first":
        m = [0]
    elif style == "last":
        m = [n - 1]
    elif style == "consecutive":
        k = rng.randint(2, max(2, n - 1)) if n > 2 else 1
        k = min(k, n - 1)
        s = rng.randint(0, n - k)
        m = list(range(s, s + k))
    elif style == "alternating":
        m = list(range(rng.randint(0, 1), n, 2))
        if len(m) == n:
            m = m[1:]
    else:
        k = rng.randint(1, n - 1)
        m = sorted(rng.sample(range(n), k))
    if len(m) >= n:
        m = m[:n - 1]
    return style, m


def gen_excluded(rng):
    kind = rng.choice(KINDS)
    net = _net_for(rng, kind)
    n_obs = {"obs": rng.randint(4, 7), "hdiffs": rng.randint(2, 7), "coords": rng.randint(2, 4),
             "vectors": rng.randint(2, 3)}[kind]
    style, mask = _mask(rng, n_obs)
    ghost_mode = rng.choice(("undefined", "unmarked"))
    cl, dims, sc = _test_cluster(rng, net, kind, n_obs, ghosts=mask)
    n = sum(dims)
    b = rng.randint(0, n - 1)
    _, C = _spd(rng, n, b, sc)
    off = [sum(dims[:i]) for i in range(n_obs)]
    keep_obs = [i for i in range(n_obs) if i not in mask]
    keep = [off[i] + d for i in keep_obs for d in range(dims[i])]
    Csub = _sub(C, keep)
    n2 = len(keep)
    b2 = min(b, n2 - 1)
    assert _band_of(Csub) <= b2
    extra = []
    if ghost_mode == "unmarked" and kind != "coords":
        gids = sorted({it.get(k) for it in cl["items"] for k in ("from", "to", "id") if str(it.get(k, "")).startswith("G")})
        for g in gids:
            # consistent coordinates: gama derives approximate coordinates of other points through such a point
            t = net["true"]["G"]
            p = {"id": g}
            if net["type"] == "lev":
                p.update(z=t)
            elif net["type"] == "plane":
                p.update(x=t[0], y=t[1])
            else:
                p.update(x=t[0], y=t[1], z=t[2])
            extra.append(p)
    base = net["clusters"]
    full = dict(cl, cov=C, band=b)
    red_items = [cl["items"][i] for i in keep_obs]
    red = dict(cl, items=red_items, cov=Csub, band=b2)
    pos = rng.randint(0, len(base))
    mkk = lambda c: base[:pos] + [c] + base[pos:]
    d = f"C10 excluded {kind} n={n} band={b} mask={style}{mask} ghost={ghost_mode}"
    variants = [_var(f"passive-band{b}", _gkf(net, mkk(full), d + " full cluster, passive observations", extra_points=extra)),
                _var(f"deleted-band{b2}", _gkf(net, mkk(red), d + " deleted, sub-matrix")),
                ]
    if b2 < n2 - 1:
        variants.append(_var("deleted-full", _gkf(net, mkk(dict(red, band=n2 - 1)), d + " deleted, sub-matrix written full")))
    if b < n - 1:
        variants.append(_var("passive-full", _gkf(net, mkk(dict(full, band=n - 1)), d + " full cluster written full", extra_points=extra)))
    return _case("excluded", f"{style}/{ghost_mode}", kind, variants, n=n, band=b, excluded=len(mask), mask=list(mask))


def _malformed_net(rng, kind):
    net = _net_for(rng, kind)
    n_obs = {"obs": rng.randint(3, 5), "hdiffs": rng.randint(3, 5), "coords": 2, "vectors": rng.randint(1, 2)}[kind]
    cl, dims, sc = _test_cluster(rng, net, kind, n_obs)
    return net, cl, sum(dims), sc


def gen_malformed(rng, kind):
    net, cl, n, sc = _malformed_net(rng, kind)
    base = net["clusters"]
    variants = []

    def add(name, what, cov_xml):
        c = dict(cl, cov_xml=cov_xml)
        variants.append(_var(name, _gkf(net, base + [c], f"C10 malformed {kind} n={n}: {what}"), what=what))

    _, C = _spd(rng, n, min(1, n - 1), sc)
    i = rng.randrange(n - 1)
    Ci = [list(r) for r in _spd(rng, n, 0, sc)[1]]
    Ci[i][i], Ci[i + 1][i + 1] = 1, 1
    Ci[i][i + 1] = Ci[i + 1][i] = 2
    add("indefinite", f"indefinite 2x2 block [[1,2],[2,1]] at {i + 1}", _cov_xml(Ci, 1))
    Cw = [list(r) for r in C]
    k = rng.randrange(n)
    big = 3 * max(abs(x) for r in C for x in r)
    j = k + 1 if k + 1 < n else k - 1
    Cw[k][j] = Cw[j][k] = big
    add("indefinite-big-offdiag", f"|c({k + 1},{j + 1})| larger than the diagonal", _cov_xml(Cw, 1))
    k = rng.randrange(n)
    Cz = [[(sc[a] ** 2 if a != k else 0) if a == b_ else 0 for b_ in range(n)] for a in range(n)]
    add("zero-variance", f"zero variance at {k + 1}", _cov_xml(Cz, 0))
    k = rng.randrange(n)
    Cn = [[(sc[a] ** 2 if a != k else -sc[a] ** 2) if a == b_ else 0 for b_ in range(n)] for a in range(n)]
    add("negative-variance", f"negative variance at {k + 1}", _cov_xml(Cn, 0))
    bw = min(1, n - 1)
    add("too-few-elements", "one element missing", _cov_xml(C, bw, drop=1))
    add("too-many-elements", "one element too many", _cov_xml(C, bw, tail=[1]))
    add("band-eq-dim", f"band = dim = {n}", _cov_xml(C, n - 1).replace(f'band="{n - 1}"', f'band="{n}"'))
    add("band-gt-dim", f"band = dim + 2 = {n + 2}", _cov_xml(C, n - 1).replace(f'band="{n - 1}"', f'band="{n + 2}"'))
    if kind in ("coords", "vectors"):
        _, Cs = _spd(rng, n - 1, 0, sc[:n - 1])
        add("dim-smaller", f"dim = {n - 1} for {n} observations", _cov_xml(Cs, 0))
        _, Cl = _spd(rng, n + 1, 0, sc + [2])
        add("dim-larger", f"dim = {n + 1} for {n} observations", _cov_xml(Cl, 0))
    return _case("malformed", "reject", kind, variants, expect="reject", n=n, band=bw)


def gen_malformed_dim_obs(rng, kind):
    """finding F9 (fixed, 410fb36; regression family): dim of cov-mat differs from the number of observations in <obs> / <height-differences>"""
    net, cl, n, sc = _malformed_net(rng, kind)
    base = net["clusters"]
    variants = []
    for name, m in (("dim-smaller", n - 1), ("dim-larger", n + 1)):
        bw = rng.randint(0, 1)
        _, Cm = _spd(rng, m, min(bw, m - 1), (sc + [2])[:m])
        c = dict(cl, cov_xml=_cov_xml(Cm, min(bw, m - 1)))
        variants.append(_var(name, _gkf(net, base + [c], f"C10 F9 {kind}: cov-mat dim={m} for {n} observations"),
                             what=f"dim = {m} for {n} observations"))
    return _case("malformed_dim_obs", "F9", kind, variants, expect="reject-parser", n=n, band=1)


LEFT_AXES = ("ne", "sw", "es", "wn")       # left-handed coordinate systems (gama's default is "ne")
RIGHT_AXES = ("en", "nw", "se", "ws")


def _frac_solve(M, B):
    """exact Gauss-Jordan: inv(M) * B for Fraction matrices (M square, nonsingular)"""
    m = len(M)
    a = [[Fr(x) for x in M[i]] + [Fr(x) for x in B[i]] for i in range(m)]
    for c in range(m):
        p = next(r for r in range(c, m) if a[r][c] != 0)
        a[c], a[p] = a[p], a[c]
        d = a[c][c]
        a[c] = [v / d for v in a[c]]
        for r in range(m):
            if r != c and a[r][c] != 0:
                f = a[r][c]
                a[r] = [x - f * y for x, y in zip(a[r], a[c])]
    return [row[m:] for row in a]


def _gls_reference(rows, l, C, m0):
    """exact generalised least squares  min (Ax-l)' C^-1 (Ax-l):  x, and [pvv] = m0^2 v' C^-1 v with v in the
    units of C (mm), A in m/m, l in m"""
    n, u = len(rows), len(rows[0])
    WA = _frac_solve(C, rows)
    Wl = [r[0] for r in _frac_solve(C, [[v] for v in l])]
    N = [[sum(rows[k][i] * WA[k][j] for k in range(n)) for j in range(u)] for i in range(u)]
    rhs = [[sum(rows[k][i] * Wl[k] for k in range(n))] for i in range(u)]
    x = [r[0] for r in _frac_solve(N, rhs)]
    v = [(sum(rows[r][j] * x[j] for j in range(u)) - l[r]) * 1000 for r in range(n)]
    Wv = [r[0] for r in _frac_solve(C, [[t] for t in v])]
    return x, Fr(m0) ** 2 * sum(v[i] * Wv[i] for i in range(n))


def gen_ysign(rng, which):
    """inconsistent axes/angles x correlated <vectors> / <coordinates> clusters with covariances between y-type components"""
    sub = ("vectors-linear", "coords-linear", "coords+dist", "vectors-linear")[which % 4]
    axes = rng.choice(LEFT_AXES + RIGHT_AXES)
    sigma = rng.choice((1, 2, 5, 10))
    params = {"sigma-apr": sigma, "conf-pr": 0.95, "tol-abs": 1000, "sigma-act": rng.choice(("aposteriori", "apriori"))}
    dims = ("x", "y", "z") if sub == "vectors-linear" or rng.random() < 0.3 else ("x", "y")
    if sub == "coords+dist":
        dims = ("x", "y")
    nd = len(dims)
    k = rng.randint(2, 3)
    free = [f"P{i + 1}" for i in range(k)]
    fixed = ["A", "B", "C"] if sub == "coords+dist" else ["A"]
    true = {}
    for i in fixed + free:
        true[i] = {c: _dec(rng.uniform(100, 900), 3) for c in dims}
    pts = [dict({"id": i, "fix": "".join(dims)}, **true[i]) for i in fixed]
    approx = {i: {c: _dec(float(true[i][c]) + rng.uniform(-0.02, 0.02), 3) for c in dims} for i in free}
    pts += [dict({"id": i, "adj": "".join(dims)}, **approx[i]) for i in free]
    col = {(p, c): j for j, (p, c) in enumerate((p, c) for p in free for c in dims)}
    rows, l, items = [], [], []
    if sub == "vectors-linear":
        chain = ["A"] + free
        edges = list(zip(chain, chain[1:]))
        for _ in range(rng.randint(1, 2)):
            a, b = rng.sample(["A"] + free, 2)
            edges.append((a, b))
        rng.shuffle(edges)
        for a, b in edges:
            d = {c: _dec(float(true[b][c] - true[a][c]) + rng.gauss(0, 3e-3), 5) for c in dims}
            items.append({"from": a, "to": b, "dx": d["x"], "dy": d["y"], "dz": d["z"]})
            for c in dims:
                r, v = [Fr(0)] * len(col), d[c]
                for p, sgn in ((b, 1), (a, -1)):
                    if (p, c) in col:
                        r[col[(p, c)]] = Fr(sgn)
                    else:
                        v -= sgn * true[p][c]
                rows.append(r)
                l.append(v)
        kind = "vectors"
    else:
        obs_pts = list(free) + [rng.choice(free) for _ in range(rng.randint(1, 2))]      # redundancy: dof > 0
        rng.shuffle(obs_pts)
        for p in obs_pts:
            d = {c: _dec(float(true[p][c]) + rng.gauss(0, 3e-3), 4) for c in dims}
            items.append(dict({"id": p}, **d))
            for c in dims:
                r = [Fr(0)] * len(col)
                r[col[(p, c)]] = Fr(1)
                rows.append(r)
                l.append(d[c])
        kind = "coords"
    n = len(rows)
    ycomp = [i for i in range(n) if i % nd == 1]
    dominant = rng.random() < 0.5
    for _ in range(200):
        band = n - 1 if rng.random() < 0.6 else rng.randint(nd, n - 1)
        if dominant:
            # strictly diagonally dominant (hence SPD, and still SPD with any off-diagonal signs changed: a wrong sign
            # rule then shows as silently different numbers, not as a refused matrix)
            C = [[0] * n for _ in range(n)]
            for i in range(n):
                for j in range(i + 1, min(n, i + band + 1)):
                    C[i][j] = C[j][i] = rng.choice((-3, -2, -1, 0, 1, 2, 3)) if j - i < band else rng.choice((-2, -1, 1, 2))
            for i in range(n):
                C[i][i] = sum(abs(x) for x in C[i]) + rng.randint(2, 6)
        else:
            sc = [rng.choice((2, 3, 4)) for _ in range(n)]
            _, C = _spd(rng, n, band, sc)
        if any(C[i][j] != 0 for i in ycomp for j in ycomp if i < j):
            break
    cl = {"kind": kind, "items": items, "cov": C, "band": band}
    clusters = [cl]
    if sub == "coords+dist":
        for s_ in fixed:
            its = []
            for p in free:
                sd = rng.choice((2, 3, 5))
                dist = math.hypot(float(true[p]["x"] - true[s_]["x"]), float(true[p]["y"] - true[s_]["y"]))
                its.append({"t": "distance", "to": p, "val": _dec(dist + rng.gauss(0, sd * 1e-3), 5), "stdev": sd})
            clusters.append({"kind": "obs", "from": s_, "items": its})
        if rng.random() < 0.5:
            clusters.reverse()
    net = {"params": params, "points": pts}
    reference = None
    if sub != "coords+dist":
        x, pvv = _gls_reference(rows, l, C, sigma)
        reference = {"adj": {p: {c: float(x[col[(p, c)]]) for c in dims} for p in free}, "pvv": float(pvv)}
    variants = []
    for angles in ("left-handed", "right-handed"):
        lh_axes = axes in LEFT_AXES
        consistent = lh_axes == (angles == "left-handed")
        variants.append(_var(f"{axes}/{angles}" + ("" if consistent else "*"),
                             _gkf(net, clusters, f"C10 ysign {sub} axes={axes} angles={angles} n={n} band={band}"
                                  + (" (consistent)" if consistent else " (inconsistent: y mirrored internally)"),
                                  attrs={"axes-xy": axes, "angles": angles}), consistent=consistent))
    ycov = sum(1 for i in ycomp for j in ycomp if i < j and C[i][j] != 0)
    return _case("ysign", sub + ("/dominant" if dominant else "/LLt"), kind, variants, n=n, band=band, axes=axes, ycov=ycov,
                 reference=reference)


def gen_tiny(rng, which):
    """valid, well conditioned levelling network in which EVERY standard deviation is small relative to sigma-apr
    (all clusters scaled alike, so the weights stay balanced): cofactor pivots cov/sigma-apr^2 < 1e-14"""
    kind = "hdiffs"
    if which % 2 == 0:
        sigma, f = rng.choice((1e5, 1e6)), Fr(1, 1000)          # stdev ~1e-3 mm, sigma-apr 1e5..1e6
    else:
        sigma, f = rng.choice((1, 2, 10)), Fr(1, 10 ** 8)        # cov-mat entries ~1e-16 mm^2, sigma-apr 1..10
    net = _lev_net(rng, sigma)
    n = rng.randint(2, 5)
    cl, dims, sc = _test_cluster(rng, net, kind, n)
    for cc in net["clusters"]:
        for it in cc["items"]:
            it["stdev"] = Fr(it["stdev"]) * f
    b = rng.randint(0, n - 1)
    if b == 0 and which % 2 == 0:
        for it in cl["items"]:
            it["stdev"] = Fr(it["stdev"]) * f
        tcl = cl
        how = "stdev attributes"
    else:
        b = max(b, 1)
        _, C = _spd(rng, n, b, sc)
        tcl = dict(cl, cov=[[Fr(x) * f * f for x in r] for r in C], band=b)
        how = f"cov-mat band {b}"
    pos = rng.randint(0, len(net["clusters"]))
    clusters = net["clusters"][:pos] + [tcl] + net["clusters"][pos:]
    sub = f"{how}, stdev scale {float(f):g}, sigma-apr={sigma:g}"
    ref_sigma = sigma * float(f)
    # reference: the same problem with sigma-apr scaled down alike: same coordinates, [pvv] scales with sigma-apr^2
    variants = [_var("tiny", _gkf(net, clusters, f"C10 tiny {sub}")),
                _var("rescaled-sigma-apr", _gkf(net, clusters, f"C10 tiny {sub} reference", params={"sigma-apr": ref_sigma}),
                     pvv_scale=(sigma / ref_sigma) ** 2)]
    return _case("tiny", sub, kind, variants, n=n, band=b)


# ------------------------------------------------------------------------------------------ running

def _strip(tag):
    return tag.rsplit("}", 1)[-1]


def parse_adjustment_xml(text):
    """namespace-agnostic reader of gama-local's adjustment XML"""
    res = {"error": None, "adj": {}, "approx": {}, "pvv": None, "dof": None, "m0": None, "equations": None,
           "unknowns": None, "defect": None}
    try:
        root = ET.fromstring(text)
    except ET.ParseError as e:
        res["error"] = {"category": "unparsable-xml", "text": str(e), "line": None}
        return res
    for el in root.iter():
        t = _strip(el.tag)
        if t == "error":
            desc = [(d.text or "").strip() for d in el if _strip(d.tag) == "description"]
            line = [(d.text or "").strip() for d in el if _strip(d.tag) == "lineNumber"]
            res["error"] = {"category": el.get("category"), "text": " | ".join(desc), "line": int(line[0]) if line else None}
        elif t in ("adjusted", "approximate") and el.findall("*"):
            key = "adj" if t == "adjusted" else "approx"
            for p in el:
                if _strip(p.tag) != "point":
                    continue
                pid, d = None, {}
                for c in p:
                    ct = _strip(c.tag)
                    if ct == "id":
                        pid = (c.text or "").strip()
                    elif ct.lower() in ("x", "y", "z"):
                        d[ct.lower()] = float(c.text)
                if pid is not None:
                    res[key][pid] = d
        elif t == "sum-of-squares":
            res["pvv"] = float(el.text)
        elif t == "degrees-of-freedom":
            res["dof"] = int(el.text)
        elif t == "equations":
            res["equations"] = int(el.text)
        elif t == "unknowns":
            res["unknowns"] = int(el.text)
        elif t == "defect":
            res["defect"] = int(el.text)
        elif t == "aposteriori" and res["m0"] is None:
            res["m0"] = float(el.text)
    return res


def _run_one(exe, tmp, tag, gkf, alg):
    base = os.path.join(tmp, tag)
    with open(base + ".gkf", "w") as f:
        f.write(gkf)
    try:
        p = subprocess.run([str(exe), base + ".gkf", "--algorithm", alg, "--xml", base + ".xml"],
                           capture_output=True, text=True, errors="replace", timeout=120)
        rc, err = p.returncode, (p.stderr or "") + ("" if not p.stdout else "\n[stdout] " + p.stdout[-500:])
    except subprocess.TimeoutExpired:
        rc, err = -9, "timeout"
    r = None
    if os.path.exists(base + ".xml"):
        with open(base + ".xml", errors="replace") as f:
            r = parse_adjustment_xml(f.read())
    if r is None:
        r = parse_adjustment_xml("<none/>")
        if rc == 0:
            r["error"] = {"category": "no-xml-output", "text": "", "line": None}
    r["rc"] = rc
    r["stderr"] = err.strip()[-800:]
    return r


def run_cases(exe, cases):
    """results[case index][variant name][algorithm]"""
    tmp = tempfile.mkdtemp(prefix="c10net-")
    try:
        jobs = []
        for ci, c in enumerate(cases):
            for vi, v in enumerate(c["variants"]):
                for alg in ALGS:
                    jobs.append((ci, v["name"], alg, f"c{ci}_v{vi}_{alg}", v["gkf"]))
        out = [dict() for _ in cases]
        with concurrent.futures.ThreadPoolExecutor(max_workers=WORKERS) as ex:
            futs = [(j, ex.submit(_run_one, exe, tmp, j[3], j[4], j[2])) for j in jobs]
            for j, f in futs:
                out[j[0]].setdefault(j[1], {})[j[2]] = f.result()
        return out
    finally:
        shutil.rmtree(tmp, ignore_errors=True)


def _outcome(r):
    """one-line description of what one run did"""
    if r["rc"] != 0:
        return f"exit {r['rc']}: {r['stderr'][:200]}"
    if r["error"]:
        e = r["error"]
        return f"exit 0, xml error [{e['category']}] {e['text']}" + (f" (line {e['line']})" if e["line"] is not None else " (no line number)")
    if r["adj"]:
        return "exit 0, ADJUSTED " + " ".join(f"{p}:" + ",".join(f"{c}={v:.6f}" for c, v in sorted(d.items()))
                                              for p, d in sorted(r["adj"].items())) + f" [pvv]={r['pvv']:.7e} dof={r['dof']}"
    return "exit 0, no adjusted coordinates, no error"


def _rejected(r):
    return r["rc"] != 0 or r["error"] is not None


KEYWORDS = ("positive definite", "positive-definite", "dim", "band", "element", "cov")


def evaluate(case, res):
    """returns dict(status = ok|trivial|fail, what, detail, dcoord, dpvv, outcomes)"""
    names = [v["name"] for v in case["variants"]]
    outcomes = {n: {a: _outcome(res[n][a]) for a in ALGS} for n in names}
    ev = {"status": "ok", "what": "", "detail": "", "dcoord": 0.0, "dpvv": 0.0, "outcomes": outcomes, "site": None}
    if case["expect"] in ("reject", "reject-parser"):
        bad = []
        for v in case["variants"]:
            n = v["name"]
            for a in ALGS:
                r = res[n][a]
                if not _rejected(r):
                    bad.append(f"{n}/{a}: ACCEPTED ({v.get('what', '')}): {outcomes[n][a]}")
                elif case["expect"] == "reject-parser":
                    e = r["error"]
                    if not (e and e["category"] == "gamaLocalParserError"):
                        bad.append(f"{n}/{a}: not rejected by the parser ({v.get('what', '')}): {outcomes[n][a]}")
                else:
                    text = (r["error"]["text"] if r["error"] else r["stderr"]).lower()
                    if not any(k in text for k in KEYWORDS):
                        bad.append(f"{n}/{a}: diagnostic does not mention the problem ({v.get('what', '')}): {outcomes[n][a]}")
        if bad:
            ev.update(status="fail", what="malformed cov-mat not rejected with a diagnostic", detail="\n".join(bad))
        return ev
    runs = [(n, a, res[n][a]) for n in names for a in ALGS]
    failed = [(n, a, r) for n, a, r in runs if _rejected(r) or not r["adj"] or r["pvv"] is None]
    if failed:
        texts = sorted({(r["error"] or {}).get("text", "") + "/" + str(r["rc"]) for _, _, r in failed})
        if len(failed) == len(runs) and len(texts) == 1 and case["family"] != "tiny":
            ev.update(status="trivial", detail="all variants fail identically: " + texts[0])
            return ev
        ev.update(status="fail", what="gama-local fails on a valid variant",
                  detail="\n".join(f"{n}/{a}: {outcomes[n][a]}" for n, a, _ in failed))
        return ev
    scale = {v["name"]: v.get("pvv_scale", 1.0) for v in case["variants"]}
    # reference: majority-free choice = first variant with gso (dense path, orthogonalisation)
    rn, ra = names[0], "gso"
    ref = res[rn][ra]
    worst = []
    for n, a, r in runs:
        if sorted(r["adj"]) != sorted(ref["adj"]) or r["dof"] != ref["dof"]:
            worst.append((float("inf"), f"{n}/{a}: different set of adjusted points or dof: {outcomes[n][a]}  vs  {rn}/{ra}: {outcomes[rn][ra]}"))
            continue
        for pid, d in r["adj"].items():
            for c, v in d.items():
                x = ref["adj"][pid].get(c)
                if x is None:
                    worst.append((float("inf"), f"{n}/{a}: coordinate {pid}.{c} missing in reference"))
                    continue
                dv = abs(v - x)
                ev["dcoord"] = max(ev["dcoord"], dv)
                corr_size = abs(x - ref["approx"].get(pid, {}).get(c, x))
                if dv > COORD_ATOL + COORD_RTOL * corr_size:
                    worst.append((dv, f"{n}/{a}: {pid}.{c} = {v!r} differs from {rn}/{ra} {x!r} by {dv:.3e} m"))
        p1, p0 = r["pvv"] * scale[n], ref["pvv"] * scale[rn]
        dp = abs(p1 - p0) / max(abs(p0), abs(p1), 1e-300) if (p1 or p0) else 0.0
        if abs(p1 - p0) > PVV_ATOL:
            ev["dpvv"] = max(ev["dpvv"], dp)
        if abs(p1 - p0) > PVV_ATOL + PVV_RTOL * max(abs(p0), abs(p1)):
            worst.append((dp, f"{n}/{a}: [pvv] = {p1!r} differs from {rn}/{ra} {p0!r} (relative {dp:.3e})"))
    refsol = (case.get("meta") or {}).get("reference")
    if refsol:
        # independent exact solution of the generalised least squares problem with W = C^-1
        for n, a, r in runs:
            for pid, d in refsol["adj"].items():
                for c, x in d.items():
                    v = r["adj"].get(pid, {}).get(c)
                    if v is None:
                        worst.append((float("inf"), f"{n}/{a}: coordinate {pid}.{c} not adjusted"))
                        continue
                    dv = abs(v - x)
                    ev["dcoord"] = max(ev["dcoord"], dv)
                    if dv > COORD_ATOL + COORD_RTOL * abs(x - r["approx"].get(pid, {}).get(c, x)):
                        worst.append((dv, f"{n}/{a}: {pid}.{c} = {v!r} differs from the exact weighted least squares "
                                          f"solution (W = C^-1) {x!r} by {dv:.3e} m"))
            p1, p0 = r["pvv"], refsol["pvv"]
            dp = abs(p1 - p0) / max(abs(p0), abs(p1), 1e-300) if (p1 or p0) else 0.0
            if abs(p1 - p0) > PVV_ATOL + PVV_RTOL * max(abs(p0), abs(p1)):
                ev["dpvv"] = max(ev["dpvv"], dp)
                worst.append((dp, f"{n}/{a}: [pvv] = {p1!r} differs from the exact v'C^-1 v sigma-apr^2 = {p0!r} (relative {dp:.3e})"))
    if worst:
        dev_algs = sorted({w[1].split(":")[0].rsplit("/", 1)[1] for w in worst})
        dev_vars = sorted({w[1].split(":")[0].rsplit("/", 1)[0] for w in worst})
        ev.update(status="fail", what=f"equivalent formulations adjusted differently (family {case['family']}/{case['sub']}, "
                                      f"{case['kind']}; deviating variants {dev_vars}, algorithms {dev_algs})",
                  detail="\n".join(w[1] for w in worst[:12]))
        if dev_algs == ["envelope"]:
            ev["site"] = "Homogenization::run"
    return ev


def _payload(case):
    return {"oracle": "c10_net", "family": case["family"], "sub": case["sub"], "kind": case["kind"],
            "expect": case["expect"], "meta": case["meta"],
            "variants": [dict(v) for v in case["variants"]]}


def _schedule(n_cases, include_f9, include_tiny):
    pat = ["diag", "whiten", "transform", "excluded", "malformed", "diag", "whiten", "excluded", "transform",
           "malformed_dim_obs", "diag", "whiten", "excluded", "transform", "malformed", "diag", "whiten", "excluded",
           "tiny", "diag"]
    out = []
    for i in range(n_cases):
        f = pat[i % len(pat)]
        if f == "malformed_dim_obs" and not include_f9:
            f = "excluded"
        if f == "tiny" and not include_tiny:
            f = "diag"
        out.append(f)
    return out


def generate(rng, n_cases, include_f9=True, include_tiny=True):
    cases = []
    cnt = {}
    off = rng.randrange(4)
    for f in _schedule(n_cases, include_f9, include_tiny):
        k = cnt.get(f, 0)
        cnt[f] = k + 1
        if f == "diag":
            c = gen_diag(rng)
        elif f == "whiten":
            c = gen_whiten(rng)
        elif f == "transform":
            c = gen_transform(rng)
        elif f == "excluded":
            c = gen_excluded(rng)
        elif f == "malformed":
            c = gen_malformed(rng, KINDS[(k + off) % 4])
        elif f == "malformed_dim_obs":
            c = gen_malformed_dim_obs(rng, ("obs", "hdiffs")[(k + off) % 2])
        else:
            c = gen_tiny(rng, k + off)
        cases.append(c)
    # appended after the scheduled families, so that their draws do not depend on this family
    for k in range(max(6, n_cases // 5)):
        cases.append(gen_ysign(rng, k + off))
    return cases


def run(ctx, corr, gama_dir, n_cases, include_f9=True, include_tiny=True, probe=True):
    """generate n_cases network cases from ctx.rng, run every variant with the four algorithms, report into corr.
    Returns a list of per-case summaries (family, key, status, deviations, outcomes) for logging."""
    exe = Path(gama_dir) / "gama-local"
    cases = generate(ctx.rng, n_cases, include_f9, include_tiny)
    results = run_cases(exe, cases)
    summaries = []
    trivial = 0
    for c, res in zip(cases, results):
        ev = evaluate(c, res)
        fam = c["family"]
        key = None if ev["status"] == "trivial" else (fam, c["sub"], c["kind"], c["meta"].get("n"), c["meta"].get("band"),
                                                       len(c["variants"]), c["meta"].get("excluded"))
        corr.case(key=key, sample={"family": fam, "sub": c["sub"], "kind": c["kind"], "n": c["meta"].get("n"),
                                   "band": c["meta"].get("band"), "variants": [v["name"] for v in c["variants"]],
                                   "max_dcoord": ev["dcoord"], "max_dpvv_rel": ev["dpvv"], "status": ev["status"]}
                  if len(summaries) < 2 else None)
        corr.count("net_cases", 1)
        corr.count("net_family_" + fam, 1)
        corr.count("net_kind_" + c["kind"], 1)
        corr.count("net_dim_%s" % c["meta"].get("n"), 1)
        corr.count("net_band_%s" % c["meta"].get("band"), 1)
        corr.count("net_runs_per_algorithm", len(c["variants"]))
        corr.count("net_gama_runs", len(c["variants"]) * len(ALGS))
        if ev["status"] == "trivial":
            trivial += 1
            corr.count("net_trivial", 1)
        if c["expect"] == "equal" and ev["status"] != "trivial":
            corr.maxstat("net_max_dcoord_m_" + fam, ev["dcoord"] if ev["dcoord"] != float("inf") else 1e300)
            corr.maxstat("net_max_dpvv_rel_" + fam, ev["dpvv"] if ev["dpvv"] != float("inf") else 1e300)
        if ev["status"] == "fail":
            corr.count("net_fail_" + fam, 1)
            payload = _payload(c)
            if fam == "malformed_dim_obs":
                site = "GKFparser::finish_obs" if c["kind"] == "obs" else "GKFparser::finish_hdiffs"
                what = (f"F9: cov-mat dim differs from the number of observations in "
                        f"<{'obs' if c['kind'] == 'obs' else 'height-differences'}> and the parser accepts it")
            elif fam == "tiny":
                site = "Homogenization::run"
                what = ("C10-TINY: BlockDiagonal::cholDec tests pivots against the ABSOLUTE tolerance 1e-14 (CovMat::cholDec: "
                        "relative N*eps*max diag): envelope refuses / mis-adjusts a valid cluster with small cofactors "
                        "(cov/sigma-apr^2 < 1e-14) that gso/svd/cholesky adjust; " + ev["what"])
            elif fam == "malformed":
                site = {"obs": "GKFparser::finish_obs", "hdiffs": "GKFparser::finish_hdiffs",
                        "coords": "GKFparser::finish_coords", "vectors": "GKFparser::finish_vectors"}[c["kind"]]
                what = ev["what"]
            else:
                site = ev["site"] or SITE[fam]
                what = ev["what"]
            corr.fail(what, payload, site=site, detail=ev["detail"])
        summaries.append({"family": fam, "sub": c["sub"], "kind": c["kind"], "meta": c["meta"], "status": ev["status"],
                          "dcoord": ev["dcoord"], "dpvv": ev["dpvv"], "detail": ev["detail"], "outcomes": ev["outcomes"],
                          "case": c})
    if probe:
        for name, caught, dc, dp in sensitivity_probe(gama_dir, ctx.rng):
            corr.count("net_probe_wrong_variants", 1)
            corr.count("net_probe_caught", 1 if caught else 0)
            if not caught:
                corr.inconclusive.append(f"c10_net: deliberately wrong variant '{name}' not noticed "
                                         f"(dcoord {dc:.3e} m, d[pvv] {dp:.3e})")
    if cases and trivial > 0.1 * len(cases):
        corr.inconclusive.append(f"c10_net: {trivial}/{len(cases)} trivial network cases (all variants fail identically)")
    return summaries


def replay_case(gama_dir, payload):
    """re-run a recorded failing payload; returns (fails, text)"""
    exe = Path(gama_dir) / "gama-local"
    case = {"family": payload["family"], "sub": payload.get("sub", ""), "kind": payload.get("kind", ""),
            "expect": payload["expect"], "meta": payload.get("meta", {}), "variants": payload["variants"]}
    res = run_cases(exe, [case])[0]
    ev = evaluate(case, res)
    lines = [f"c10_net replay: family={case['family']} sub={case['sub']} kind={case['kind']} expect={case['expect']} -> {ev['status']}"]
    if ev["what"]:
        lines.append(ev["what"])
    if ev["detail"]:
        lines.append(ev["detail"])
    for n in sorted(ev["outcomes"]):
        for a in ALGS:
            lines.append(f"  {n:24s} {a:9s} {ev['outcomes'][n][a]}")
    return ev["status"] == "fail", "\n".join(lines)


def sensitivity_probe(gama_dir, rng):
    """feed deliberately WRONG "equivalent" variants and check that the comparison notices:
       (1) one non-zero off-diagonal element of the covariance matrix dropped,
       (2) the leading sub-matrix used instead of the principal sub-matrix on the remaining indices,
       (3) a whitened observation with a wrong standard deviation (1/w_i^2 instead of 1/|w_i|).
    Returns [(name, caught, max_dcoord, max_dpvv_rel)]"""
    exe = Path(gama_dir) / "gama-local"
    cases, names = [], []
    # (1)
    net = _lev_net(rng)
    n = 4
    cl, dims, sc = _test_cluster(rng, net, "hdiffs", n)
    _, C = _spd(rng, n, 2, sc)
    W = [list(r) for r in C]
    i, j = next((i, j) for i in range(n) for j in range(i + 1, n) if C[i][j] != 0)
    W[i][j] = W[j][i] = 0
    cases.append(_case("probe", "offdiag-dropped", "hdiffs",
                       [_var("right", _gkf(net, net["clusters"] + [dict(cl, cov=C, band=n - 1)], "probe right")),
                        _var("wrong", _gkf(net, net["clusters"] + [dict(cl, cov=W, band=n - 1)], "probe wrong"))]))
    # (2)
    net = _lev_net(rng)
    n = 4
    cl, dims, sc = _test_cluster(rng, net, "hdiffs", n, ghosts=[0])
    _, C = _spd(rng, n, 1, [1, 2, 3, 1])
    red = dict(cl, items=cl["items"][1:])
    cases.append(_case("probe", "leading-submatrix", "hdiffs",
                       [_var("right", _gkf(net, net["clusters"] + [dict(cl, cov=C, band=1)], "probe passive")),
                        _var("wrong", _gkf(net, net["clusters"] + [dict(red, cov=_sub(C, [0, 1, 2]), band=1)], "probe wrong sub-matrix"))]))
    # (3)
    c = None
    while c is None or not any(abs(abs(sum(r)) - 1) > Fr(1, 10) for r in c[1]) or any(sum(r) == 0 for r in c[1]):
        L, C = _spd(rng, 3, 1)
        c = (L, _lower_inverse(L))
    M = c[1]
    net = _lev_net(rng)
    a, b = "A", "P1"
    vals = [_dec(float(net["true"][b] - net["true"][a]) + rng.gauss(0, 2e-3), 5) for _ in range(3)]
    w = [sum(r) for r in M]
    t = [sum(M[i][k] * vals[k] for k in range(3)) for i in range(3)]
    if all(x != 0 for x in w):
        corr_cl = {"kind": "hdiffs", "items": [{"from": a, "to": b, "val": v} for v in vals], "cov": C, "band": 1}
        wrong = {"kind": "hdiffs", "items": [{"from": a, "to": b, "val": t[i] / w[i], "stdev": 1 / w[i] ** 2} for i in range(3)]}
        cases.append(_case("probe", "wrong-whitening-stdev", "hdiffs",
                           [_var("right", _gkf(net, net["clusters"] + [corr_cl], "probe correlated")),
                            _var("wrong", _gkf(net, net["clusters"] + [wrong], "probe wrongly whitened"))]))
    out = []
    for c, res in zip(cases, run_cases(exe, cases)):
        ev = evaluate(c, res)
        out.append((c["sub"], ev["status"] == "fail", ev["dcoord"], ev["dpvv"]))
    return out


# ------------------------------------------------------------------------------------------ stand-alone test

if __name__ == "__main__":
    import json
    import random
    import sys
    import time
    sys.path.insert(0, str(Path(__file__).resolve().parents[1]))
    from lib.core import Corr

    class _Ctx:
        def __init__(self, seed):
            self.rng = random.Random(f"C10-{seed}")

    gdir = os.environ.get("GAMA_DIR", "/repo/_build")
    seeds = [int(s) for s in sys.argv[1:]] or [1, 2, 3, 4, 5]
    ncases = int(os.environ.get("N_CASES", "40"))
    outdir = Path("/tmp/c10net")
    outdir.mkdir(exist_ok=True)
    shown = set()
    for seed in seeds:
        corr = Corr()
        t0 = time.time()
        summ = run(_Ctx(seed), corr, gdir, ncases)
        dt = time.time() - t0
        print(f"=== seed {seed}: {corr.evaluations} cases, {len(corr.nontrivial)} distinct, {len(corr.failures)} failures, {dt:.1f}s")
        print("   ", json.dumps({k: (v if not isinstance(v, float) else float(f"{v:.3g}")) for k, v in sorted(corr.stats.items())}))
        for i, f in enumerate(corr.failures):
            slug = f"s{seed}-{i}-{f.replay['family']}-{f.replay['kind']}"
            print(f"  FAIL [{f.site}] {f.what}\n      " + f.detail.replace("\n", "\n      ")[:1500])
            for v in f.replay["variants"]:
                (outdir / f"{slug}-{v['name']}.gkf").write_text(v["gkf"])
            (outdir / f"{slug}.json").write_text(json.dumps(f.replay, indent=1, default=str))
            fails, text = replay_case(gdir, json.loads(json.dumps(f.replay, default=str)))
            print(f"      replay -> fails={fails}")
        for s in summ:
            if s["family"] in ("malformed", "malformed_dim_obs", "tiny") and (s["family"], s["kind"]) not in shown:
                shown.add((s["family"], s["kind"]))
                print(f"  -- observed behaviour {s['family']} / {s['kind']} / {s['sub']}")
                for v in s["case"]["variants"]:
                    o = s["outcomes"][v["name"]]
                    if len(set(o.values())) == 1:
                        print(f"     {v['name']:24s} all 4: {o['gso'][:230]}")
                    else:
                        for a in ALGS:
                            print(f"     {v['name']:24s} {a:9s} {o[a][:230]}")
