"""C18 — geodetic primitives round-trip: ellipsoidal coordinates, angles, bearings."""
import math
import re
import sys
from lib.core import *

ID = "C18"
PROPS_FILES = ["Gama/Props/C18.lean", "Gama/Props/C18Strings.lean", "Gama/Props/C18Published.lean"]
LEAN_TARGETS = ["Gama.Props.C18", "Gama.Props.C18Strings", "Gama.Props.C18Published"]
DRIVERS = ["drv_geo"]
RULE = ("streams: ell (every table ellipsoid + default + random set_ab/af/af1; lat in [-90,90] incl. poles, lon in (-180,180] "
        "incl. antimeridian, h in [-10 km, 20000 km]), ang (gon2deg/rad2deg/latlong/deg2gon/dms2rad/rad2dms over specials: "
        "seconds that round up, double carries, negatives, -0, tiny, large; sign 0..3, prec 0..8), brg (point pairs in all "
        "quadrants, axes, below/above the 1e-6 cut), lit (every string over a 7-letter alphabet up to a bounded length through "
        "IsInteger/IsFloat/deg2gon, three parties: real code = model of the scanner = derivative matcher of the documented "
        "grammar with the numeric ranges; plus structured longer strings incl. int and double overflow). distinct = distinct op line; non-trivial = ell: not on the axis; ang: non-zero angle; "
        "brg: d >= 1e-6; lit: accepted by at least one recogniser")
TRUSTED = ["tools/gen/c18_angles.py (cfun front end for the numeric statements; the two ostringstream tails and the four while loops are "
           "compared with pinned token text and emitted as the hand model's tail / whileGeSub / whileNegAdd)",
           "tools/gen/c18_published.py (attribute reader of xml/ellipsoids.xml, the project's own published list; cross-checked against xml.etree)",
           "tools/gen/c18_ellipsoid.py + tools/gen/cfun.py (C++ statement/expression front end; every member function of class "
           "Ellipsoid regenerated as a Lean definition, proved equal to the hand model; also executed against the C++ by the correspondence)",
           "tools/gen/c18_ellipsoids.py (regex reader of ellipsoids.{h,cpp}; cross-checked enum/id/caption/switch/strcmp views, "
           "and executed against the C++ on every ellipsoid by the correspondence; also the six patch-presence flags of Gen/GeoVariants.lean "
           "- gon2deg/latlong carry and fabs, IsInteger needs a digit, Bowring clamp - by regex on gon2deg.cpp, latlong.cpp, ellipsoid.cpp, intfloat.h)",
           "Model/Angles.lean deg2gon (scanner), Model/Bearing.lean, Model/GeoLiterals.lean (IsInteger / IsFloat): hand models, correspondence only",
           "python oracle for printed angle strings (regular expressions per sign mode)"]
MODELLED = ["libm sin/cos/atan2/sqrt (shared between model execution and C++; theorems use Mathlib's real functions)",
            "IEEE rounding of the field splitting (theorems are over Q/R exact arithmetic)",
            "ostream fixed formatting = exact decimal rounding, ties to even (glibc) — modelled on Rat, compared byte-exactly",
            "strtod/num_get of the seconds field in deg2gon (modelled as mantissa*10^exp, overflow to infinity = failbit; value compared at 1e-12)"]
ASSUMPTIONS = ["|gon|*0.9, |rad|*180/pi < 2^31 (int(x) is undefined beyond; not generated)",
               "ellipsoids with 0 < b <= a; points with N(b)+h > 0"]

LEVEL_TEXT = ("Lean 4 theorems over R (Mathlib trig, Complex.arg as atan2) and Q about executable models of ellipsoid.cpp, "
              "gon2deg.cpp, latlong.cpp, bearing.cpp, intfloat.h: pole branch, exact longitude, exact height, Bowring exact on the "
              "surface for every ellipsoid 0<b<=a, table parameters (regenerated from ellipsoids.cpp, decided for all 48 rows), "
              "sexagesimal field ranges and value identity, printed seconds < 60 for the repaired formatter (and the F14 witness "
              "for the original), string-level round trip deg2gon(gon2deg g) within half a unit of the printed precision for every "
              "angle, precision and sign mode (digits <-> numbers proved, scanner model), latlong fields over R, dms2rad/rad2dms "
              "round trip, bearing range/polar consistency/antisymmetry/symmetry; IsInteger (the CURRENT variant Literals.isIntegerCur, "
              "selected by the flag regenerated from intfloat.h - a lone sign is refused; the pre-fix variant appears in HISTORY/NEG "
              "theorems only), IsFloat and deg2gon accept exactly "
              "their documented regular languages (all strings; deg2gon with the int/double ranges), decided by a verified "
              "derivative matcher; two-pass Bowring latitude error: contraction per pass, explicit bound; the whole off-surface triple "
              "on every table ellipsoid for -10 km <= h <= 20000 km in one statement (latitude within 1e-5 m of arc, longitude exact, "
              "height within 2*(N+h)*|sin dB| < 2e-5 m: explicit Lipschitz estimate of both height formulas); pole and longitude "
              "hypotheses discharged for every table row and h >= -10 km. Models tied to the C++ by "
              "translators (ellipsoid table; every member function of class Ellipsoid statement by statement, equality with the "
              "model proved) and byte-exact / 1e-12 correspondence; round-trip and format oracles on the implementation. "
              "Round 9: gon2deg / latlong (numeric prefix translated statement by statement, iostream tail pinned token by token), "
              "rad2deg_str, gon2deg_str, latitude, longitude, dms2rad, rad2dms regenerated (Gen/AnglesFns.lean) and proved EQUAL to "
              "the hand model (C18_angles_source_tie); string round trips deg2gon(rad2deg_str rad) and deg2gon(latlong rad) for every "
              "rational value of M_PI (the text latlong writes reads back within half a unit of the printed precision, signed, for "
              "negative angles below 1000 deg - 0.5\": beyond it the sign overwrites the leading digit, NEG witness); the code's "
              "ellipsoid table equals the list the project publishes in xml/ellipsoids.xml (= doc/ellipsoids.texi; not an external standard) "
              "row by row, both directions, same order, by value "
              "(C18_table_is_published, C18_published_is_in_table, decide on two regenerated tables: a typo in a constant breaks it). "
              "Round 7: the off-surface triple is also stated for the regenerated functions (C18_roundtrip_offsurface_source).")
LEVEL_NOTE = ("Theorems are in exact arithmetic (IEEE rounding, libm, strtod not modelled); the ellipsoid model (setters, W N M V F, "
              "blh2xyz, xyz2blh with both Bowring passes and both height formulas) is proved EQUAL to definitions regenerated from "
              "ellipsoid.{h,cpp} on every run (C18_ellipsoid_source_tie); so are gon2deg, latlong, rad2deg_str, dms2rad, rad2dms "
              "(C18_angles_source_tie; the iostream part of the two formatters is pinned text); deg2gon (the scanner), bearing and the "
              "literal recognisers are hand models tied by correspondence; M_PI in the string theorems is any positive rational, not pi. "
              "Defects found and repaired by fix: commits (the models carry both variants, selected by the translator): "
              "seconds printed as 60.00 (F14), -0.0 printed as -0.00, NaN from xyz2blh at the poles, IsInteger accepting a lone "
              "sign. Known finding C18-F3: dms2rad misreads decimal ddd.mmss literals by 40 arc seconds (binary rounding before "
              "truncation; the function has no caller).")
TECHNIQUE = "Lean 4 proof (real analysis + exact rational digit arithmetic) + source translator + model/implementation correspondence"

SRC = ["ellipsoid.cpp", "ellipsoids.cpp", "gon2deg.cpp", "latlong.cpp", "local/bearing.cpp"]
TWO_PI = 2 * math.pi
ARCSEC = math.pi / 648000
DOC_BOUND = 0.0018 * ARCSEC       # ellipsoid.cpp: "max error is 0.0018\" for H=2a"


def hx(x):
    return float2hex(x)


def translate(ctx):
    sys.path.insert(0, str(ctx.verif / "tools"))
    from gen import c18_ellipsoids as g
    try:
        rows, default, flags, changed = g.run(ctx.repo, ctx.lean)
    except g.Unparsable as e:
        raise TieBroken("c18_ellipsoids", str(e))
    ctx.c18_rows, ctx.c18_flags = rows, flags
    if changed:
        ctx.log("Gen/Ellipsoids.lean / GeoVariants.lean regenerated:", len(rows), "rows", flags)
    # round 7: every member function of class Ellipsoid, statement by statement (Gen/EllipsoidExpr.lean)
    from gen import c18_ellipsoid as ge
    try:
        members, ch = ge.run(ctx.repo, ctx.lean)
    except ge.Unparsable as e:
        raise TieBroken("c18_ellipsoid", str(e))
    if ch:
        ctx.log("Gen/EllipsoidExpr.lean regenerated:", len(members), "data members")
    # round 9: gon2deg / latlong (numeric prefix translated, iostream tail pinned), rad2deg_str, dms2rad, rad2dms (Gen/AnglesFns.lean)
    from gen import c18_angles as ga
    try:
        if ga.run(ctx.repo, ctx.lean):
            ctx.log("Gen/AnglesFns.lean regenerated")
    except ga.Unparsable as e:
        raise TieBroken("c18_angles", str(e))
    except (OSError, ValueError, KeyError, IndexError) as e:
        raise TieBroken("c18_angles", repr(e))
    # round 9: the published list xml/ellipsoids.xml (Gen/EllipsoidsPublished.lean), compared with the code table by `decide`
    from gen import c18_published as gp
    try:
        if gp.run(ctx.repo, ctx.lean):
            ctx.log("Gen/EllipsoidsPublished.lean regenerated")
    except gp.Unparsable as e:
        raise TieBroken("c18_published", str(e))
    except (OSError, ValueError, KeyError, IndexError) as e:
        raise TieBroken("c18_published", repr(e))


# ------------------------------------------------------------------ generators

def ids_of(ctx):
    rows = getattr(ctx, "c18_rows", None)
    if rows is None:
        sys.path.insert(0, str(ctx.verif / "tools"))
        from gen import c18_ellipsoids as g
        try:
            rows = g.parse(ctx.repo)[0]
        except g.Unparsable:
            rows = []
    return [(r[0], r[1]) for r in rows]


def gen_points(rng, n):
    lat_sp = [90.0, -90.0, 0.0, 89.999999999, -89.999999999, 45.0, 1e-9, -1e-9, 89.0, -60.0]
    lon_sp = [180.0, -179.999999999, 0.0, 90.0, -90.0, 179.999999999, 1e-9, -1e-9, 135.0, -45.0]
    h_sp = [0.0, -10000.0, 10000.0, 2e7, 1e6, 6378137.0 * 2, 8848.0, -431.0]
    pts = []
    for _ in range(n):
        r = rng.random()
        lat = rng.choice(lat_sp) if r < 0.3 else rng.uniform(-90, 90)
        lon = rng.choice(lon_sp) if rng.random() < 0.3 else -rng.uniform(-180, 180)  # (-180,180]
        if lon <= -180:
            lon = 180.0
        k = rng.random()
        h = rng.choice(h_sp) if k < 0.3 else (rng.uniform(-1e4, 1e4) if k < 0.6 else
                                               (10 ** rng.uniform(4, math.log10(2e7)) if k < 0.8 else rng.uniform(0, 2e7)))
        pts.append((math.radians(lat), math.radians(lon), h))
    return pts


def gen_ell_cases(ctx, rng, per):
    cases = []
    for num, ident in ids_of(ctx):
        ops = [f"ellnum {num}" if rng.random() < 0.5 else f"ell {ident}"]
        ops.append("mnwvf " + hx(math.radians(rng.uniform(-90, 90))))
        for p in gen_points(rng, per):
            ops.append("rt %s %s %s" % tuple(map(hx, p)))
        cases.append(("ell", ops))
    # default, unknown ids, user-defined ellipsoids through the three setters
    cases.append(("ell", ["default"] + ["rt %s %s %s" % tuple(map(hx, p)) for p in gen_points(rng, per)]))
    cases.append(("ell", ["ell nosuch", "ellnum 0", "ellnum %d" % (len(ids_of(ctx)) + 1), "ell", "ell wgs84 x"]))
    for _ in range(max(3, per // 3)):
        a = rng.uniform(1e3, 7e6)
        f = rng.choice([0.0, 1e-9, 1 / 298.257, 1 / 191.0, rng.uniform(0, 0.1)])
        kind = rng.choice(["setab", "setaf", "setaf1"])
        if kind == "setab":
            op = f"setab {hx(a)} {hx(a * (1 - f))}"
        elif kind == "setaf":
            op = f"setaf {hx(a)} {hx(f if f else 1/300.0)}"
        else:
            op = f"setaf1 {hx(a)} {hx(1 / f if f else 300.0)}"
        pts = gen_points(rng, per)
        scale = a / 6378137.0
        ops = [op, "mnwvf " + hx(rng.uniform(-1.5, 1.5))] + ["rt %s %s %s" % (hx(b), hx(l), hx(h * scale)) for b, l, h in pts]
        # raw xyz2blh incl. the axis (pole branch), both signs of z, z = 0
        for z in (a, -a, 0.0, 1.0):
            ops.append(f"xyz2blh {hx(0.0)} {hx(-0.0)} {hx(z)}")
        ops.append(f"xyz2blh {hx(-a)} {hx(0.0)} {hx(0.0)}")
        ops.append(f"xyz2blh {hx(0.0)} {hx(-a)} {hx(1.0)}")
        ops.append(f"xyz2blh {hx(rng.uniform(-a, a))} {hx(rng.uniform(-a, a))} {hx(rng.uniform(-a, a))}")
        cases.append(("ell", ops))
    return cases


def round_up_gons(rng):
    """gon values whose seconds sit just below 60 (or just below a whole minute/degree)"""
    out = []
    for _ in range(12):
        d = rng.choice([0, 1, 9, 10, 59, 99, 100, 179, 359, 399])
        m = rng.choice([0, 20, 58, 59])
        delta = rng.choice([1e-9, 1e-6, 4e-4, 4.9e-3, 5e-3, 5.1e-3, 0.04, 0.4, 0.5, 0.6])
        out.append((d + m / 60.0 + (60 - delta) / 3600.0) / 0.9)
    return out


def gen_ang_cases(rng, n):
    cases = []
    special = [0.0, -0.0, 1e-300, -1e-300, -1e-9, 1e-9, 11.4999997, -11.4999997, 399.99999999, -399.99999999, 400.0, 200.0,
               100.0, -100.0, 1.0 / 0.9, 10.0 / 0.9, 123456.789, -99999.5, 0.5, 0.005, 1e6 + 0.123, 2.0e9 / 0.9 * 0.99,
               (10 + 20 / 60.0 + 59.9996 / 3600.0) / 0.9, (89 + 59 / 60.0 + 59.99999 / 3600.0) / 0.9]
    pool = list(special)
    for _ in range(n):
        pool += round_up_gons(rng)
        pool += [-g for g in round_up_gons(rng)[:4]]
        pool += [rng.uniform(-400, 400) for _ in range(6)]
        pool += [round(rng.uniform(-400, 400), rng.randint(0, 6)) for _ in range(4)]
    rng.shuffle(pool)
    chunk = 12
    for i in range(0, len(pool), chunk):
        ops = []
        for g in pool[i:i + chunk]:
            sign, prec = rng.randint(0, 3), rng.choice([0, 1, 2, 2, 2, 3, 4, 5, 6, 8])
            ops.append(f"gdg {hx(g)} {sign} {prec}")
            if rng.random() < 0.3:
                ops.append(f"gon2deg {hx(g)} {rng.randint(-1, 5)} {prec}")
            if rng.random() < 0.5:
                r = g / 200.0 * math.pi
                ops.append(f"rad2deg {hx(r)} {sign} {prec}")
                ops.append(f"latlong {hx(r if abs(r) < 7 else math.fmod(r, math.pi))} {prec}")
            if rng.random() < 0.5:
                ops.append(f"rd {hx(g / 200.0 * math.pi)}")
                dms = abs(g) % 360
                dd = int(dms); mm = int((dms - dd) * 60) % 60; ss = rng.choice([0.0, 59.9999, rng.uniform(0, 60)])
                x = dd + mm / 100.0 + ss / 10000.0
                ops.append(f"dr {hx(x if g >= 0 else -x)}")
        cases.append(("ang", ops))
    # latitude/longitude specials
    ops = []
    for r in [math.pi / 2, -math.pi / 2, math.pi, -math.pi, math.pi / 2 * (1 - 1e-12), 0.0, -0.0, -1e-12, 1.0, -0.5,
              math.radians(89 + 59 / 60 + 59.99996 / 3600), -math.radians(9 + 59 / 60 + 59.996 / 3600), math.radians(179.99999999)]:
        for prec in (0, 2, 4):
            ops.append(f"latlong {hx(r)} {prec}")
    cases.append(("ang", ops))
    return cases


def gen_brg_cases(rng, n):
    cases = []
    for _ in range(n):
        ops = []
        for _ in range(10):
            scale = rng.choice([1.0, 1e3, 1e6, 1e-3, 5e6])
            ya, xa = rng.uniform(-scale, scale), rng.uniform(-scale, scale)
            k = rng.random()
            if k < 0.5:
                yb, xb = rng.uniform(-scale, scale), rng.uniform(-scale, scale)
            elif k < 0.75:   # on an axis / diagonal through A
                t = rng.uniform(-scale, scale)
                dy, dx = rng.choice([(0.0, t), (t, 0.0), (t, t), (t, -t), (-0.0, -abs(t)), (-1e-20 * abs(t), abs(t))])
                yb, xb = ya + dy, xa + dx
            else:            # around the 1e-6 cut
                r = rng.choice([0.0, 1e-7, 9.99e-7, 1e-6, 1.01e-6, 1e-5])
                a = rng.uniform(0, TWO_PI)
                ya, xa = round(ya, 3), round(xa, 3)
                yb, xb = ya + r * math.sin(a), xa + r * math.cos(a)
            ops.append("bd %s %s %s %s" % (hx(ya), hx(xa), hx(yb), hx(xb)))
            ops.append("bd %s %s %s %s" % (hx(yb), hx(xa if False else xb), hx(ya), hx(xa)))
            ops.append("dist %s %s %s %s" % (hx(ya), hx(xa), hx(yb), hx(xb)))
            ops.append("dist %s %s %s %s" % (hx(yb), hx(xb), hx(ya), hx(xa)))
        cases.append(("brg", ops))
    return cases


LIT_ALPHA = "+-.e1 6"


def gen_lit_cases(ctx, rng, maxlen, extra):
    strings = [""]
    level = [""]
    for _ in range(maxlen):
        level = [s + c for s in level for c in LIT_ALPHA]
        strings += level
    for _ in range(extra):   # longer structured ones
        s = rng.choice(["", " ", "\t", "+", "-"]) + rng.choice(["", " ", "+", "-"]) + str(rng.randint(0, 400))
        s += "-" + rng.choice(["", "0"]) + str(rng.randint(0, 70)) + "-" + rng.choice(["", "0"]) + \
             rng.choice([str(rng.randint(0, 70)), "%.*f" % (rng.randint(0, 5), rng.uniform(0, 70)), "5.", "3e1", "3E-1", "1e+2"])
        s += rng.choice(["", "", " ", "\n", "x", "e", "-", "."])
        strings.append(s)
        strings.append(rng.choice(["", " ", "+", "-"]) + rng.choice(["12", "1.5", ".5", "5.", "1e5", "1.5E-3", "1e", "e5", "2147483648", "0x10", "1 2"]) + rng.choice(["", " ", "\r\n"]))
    strings += ["2147483647-0-0", "2147483648-0-0", "-2147483648-0-0", "+-0-0-0", "--0-0-0", "--1-0-0", "1-2147483648-0", "1--2-3", "1-2--3",
                "1-2-+3", "1- 2-3", "1-2- 3", " 1-2-3 ", "1-2-3.5.1", "10-20-60.00", "359-59-59.999",
                # istream >> double: overflow sets failbit, underflow does not
                "1-1-1e999", "1-1-1e308", "1-1-2e308", "0-0-17976931348623158e292", "0-0-17976931348623159e292", "1-1-1e-999",
                "1-1-0e999", "1-1-0.0e999", "1-1-1E400", "1-1-0.0001e313", "1-1-179769313486231580793e288", "1-1-1e+309", "1-1-9e+308",
                "- -0-0-0", "+ +1-0-0", "+ -1-0-0", "-\t-00-1-1", "1-99-99", "1-1-1.", "1-1-.5", "1-1-1e", "1-1-1e+", "1-1-1.e1"]
    for _ in range(extra // 10):
        strings.append("%d-%d-%s%se%s%d" % (rng.randint(0, 9), rng.randint(0, 9), rng.choice(["1", "9.9", "0.01", "17976931348623158", "0"]),
                                           rng.choice(["", "0", "00"]), rng.choice(["", "+"]), rng.randint(280, 330)))
    cases = []
    chunk = 400
    for i in range(0, len(strings), chunk):
        ops = []
        for s in strings[i:i + chunk]:
            h = s.encode().hex()
            ops += [("isint " + h).strip(), ("isfloat " + h).strip(), ("deg2gon " + h).strip()]
        cases.append(("lit", ops))
    return cases, strings


# ------------------------------------------------------------------ oracles (on the implementation's own answers)

SEC_RE = r"(\d+(?:\.(\d*))?)"


def parse_printed(text, prec):
    """fields of `[sign/blanks]d-mm-ss` -> (negflag, d, m, s, secfield) or None"""
    m = re.fullmatch(r"([ -]*)(\d+)-(\d\d)-" + SEC_RE, text)
    if not m:
        return None
    return ("-" in m.group(1), int(m.group(2)), int(m.group(3)), float(m.group(4)), m.group(4), m.group(1))


def check_printed(kind, text, value_deg, negative, sign, prec):
    """kind: 'gon2deg' | 'latlong'; returns list of (what, signature)"""
    bad = []
    p = parse_printed(text, prec)
    if p is None:
        return [("printed angle has an unexpected shape", "shape")]
    neg, d, m, s, sec, lead = p
    # seconds field: two integer digits, `prec` decimals (prec = 0: iostream pads to width 3: 0dd)
    if prec > 0:
        if not re.fullmatch(r"\d\d\.\d{%d}" % prec, sec):
            bad.append(("seconds field is not dd.%s" % ("d" * prec), "secshape"))
    elif not re.fullmatch(r"0\d\d", sec):
        bad.append(("seconds field (prec 0) is not 0dd", "secshape"))
    if m >= 60:
        bad.append(("minutes field >= 60", "min60"))
    if s >= 60:
        bad.append((f"printed seconds {sec} >= 60", "sec60"))
    tol_s = 0.5 * 10 ** (-prec) + 3600 * abs(value_deg) * 1e-15 + 1e-11
    got = d + m / 60.0 + s / 3600.0
    if abs(got - abs(value_deg)) * 3600 > tol_s:
        bad.append((f"printed value off by {abs(got - abs(value_deg)) * 3600:.3g}\" (> half a unit of the printed precision)", "value"))
    want_neg = negative and (kind == "latlong" or sign in (1, 2, 3))
    if neg != want_neg:
        bad.append(("sign of the printed angle", "sign"))
    # sign placement
    if kind == "gon2deg":
        w = len(str(d))
        if sign == 3:
            ok = lead == ("-" if want_neg else "")
        elif sign == 1:
            ok = lead == ("-" if want_neg else " ") + " " * max(0, 3 - w)
        elif sign == 2:
            ok = lead == ((" " * max(0, 3 - w) + "-") if want_neg else " " + " " * max(0, 3 - w)) or (want_neg and w >= 3 and lead == "-")
        else:
            ok = lead == " " * max(0, 3 - w)
    else:
        w = len(str(d))
        ok = lead == ((" " * max(0, 3 - w) + "-") if want_neg else " " * max(0, 4 - w)) if w <= 3 else True
    if not ok:
        bad.append((f"sign/blank placement {lead!r} for sign mode {sign}", "placement"))
    return bad


INT_RE = re.compile(r"[ \t\n\v\f\r]*[+-]?[0-9]+[ \t\n\v\f\r]*")
FLT_RE = re.compile(r"[ \t\n\v\f\r]*[+-]?([0-9]+\.?[0-9]*|\.[0-9]+)([eE][+-]?[0-9]+)?[ \t\n\v\f\r]*")
# deg2gon as documented by its code: optional sign, d-m-s with non-negative integer d, m and a decimal s
DMS_RE = re.compile(r"[ \t\n\v\f\r]*[+-]?[ \t\n\v\f\r]*(\+?[0-9]+|-0+)-([0-9]+)-([0-9]+(\.[0-9]*)?([eE][+-]?[0-9]+)?)[ \t\n\v\f\r]*")


def spec_dms(s):
    m = DMS_RE.fullmatch(s)
    if not m:
        return None
    d, mi = int(m.group(1)), int(m.group(2))
    if d > 2147483647 or mi > 2147483647:
        return None
    try:
        sec = float(m.group(3))
    except ValueError:
        return None
    if sec == float("inf"):
        return None
    g = (d / 360.0 + mi / 21600.0 + sec / 1296000) * 400.0
    if s.strip(" \t\n\v\f\r").startswith("-") and g:
        g = -g
    return g


GRAMMAR_OP = {"isint": "rxint", "isfloat": "rxflt", "deg2gon": "rxdms"}


def num(tok):
    return hex2float(tok)


class Work:
    """runs a list of (stream, ops) on implementation (and model) and evaluates tie + oracles"""

    def __init__(self, ctx, corr):
        self.ctx, self.corr = ctx, corr
        self.exe = ctx.build_cpp("c18_geo", [ctx.verif / "harness" / "c18_geo.cpp"] + [ctx.repo / "lib" / "gnu_gama" / s for s in SRC])
        self.nfail = {}

    def fail(self, what, stream, ops, sig, site, detail=""):
        k = (stream, sig)
        self.nfail[k] = self.nfail.get(k, 0) + 1
        self.corr.count(f"oracle_fail_{stream}_{sig}")
        if self.nfail[k] <= 3:
            self.corr.fail(what, {"stream": stream, "ops": ops, "signature": sig}, site, detail)

    def run(self, tagged, with_model=True):
        ctx, corr = self.ctx, self.corr
        cases = [ops for _, ops in tagged]
        impl, crashes = run_cases(self.exe, cases)
        model = run_cases(ctx.driver("drv_geo"), cases)[0] if with_model else None
        lit_index, gram = {}, []
        if with_model:      # third party: the documented grammar decided by the (verified) derivative matcher
            gcases = []
            for i, (stream, ops) in enumerate(tagged):
                if stream == "lit":
                    lit_index[i] = len(gcases)
                    gcases.append([GRAMMAR_OP[op.split()[0]] + op[len(op.split()[0]):] if op.split() and op.split()[0] in GRAMMAR_OP
                                   else op for op in ops])
            gram = run_cases(ctx.driver("drv_geo"), gcases)[0] if gcases else []
        for i, (stream, ops) in enumerate(tagged):
            out = impl[i]
            if i in crashes:
                corr.case()
                self.fail("harness crashed / sanitizer report", stream, ops, "crash", "c18_geo", crashes[i][1])
                continue
            if with_model:
                self.compare(stream, ops, out, model[i])
                if stream == "lit":
                    self.compare_grammar(ops, out, gram[lit_index[i]])
            try:
                getattr(self, "oracle_" + stream)(ops, out)
            except (IndexError, ValueError) as e:
                self.fail(f"implementation output not understood: {e}", stream, ops, "shape", "c18_geo", "\n".join(out[:20]))

    # ---- tie
    def compare(self, stream, ops, out, mout):
        corr = self.corr
        if len(out) != len(mout):
            corr.disagree(stream, ops, out[:40], mout[:40], "different number of output lines")
            return
        j = 0
        for op in ops:
            name = op.split()[0] if op.split() else ""
            nlines = 2 if (name == "gdg" or (name == "ellnum" and j < len(out) and out[j].startswith("id "))) else 1
            for k in range(nlines):
                a, b = out[j + k], mout[j + k]
                if a == b:
                    corr.count("tie_lines_identical")
                    continue
                ok = False
                if a.startswith("ok ") and b.startswith("ok "):
                    ok = self.num_close(name, a.split()[1:], b.split()[1:])
                    if ok:
                        corr.count("tie_lines_within_tolerance")
                if not ok:
                    corr.disagree(stream, [op], [a], [b], f"op {name}")
            j += nlines

    def compare_grammar(self, ops, out, gout):
        """implementation's accept/reject vs the decision procedure of the documented grammar (same strings)"""
        corr = self.corr
        if len(gout) != len(ops):
            corr.disagree("lit-grammar", ops[:5], out[:5], gout[:5], "different number of output lines")
            return
        for op, a, g in zip(ops, out, gout):
            name = op.split()[0] if op.split() else ""
            if name not in GRAMMAR_OP:
                continue
            accepted = a == "flag 1" if name != "deg2gon" else a.startswith("ok ")
            gt = g.split()
            if len(gt) < 2 or gt[0] != "flag":
                corr.disagree("lit-grammar", [op], [a], [g], "grammar decision procedure gave no flag")
                continue
            if accepted == (gt[1] == "1"):
                corr.count("grammar_lines_agree")
                if name == "deg2gon" and len(gt) > 2 and gt[2] == "1" and gt[1] == "0":
                    corr.count("dms_shape_ok_but_out_of_range")
            else:
                corr.disagree("lit-grammar", [op], [a], [g], f"{name}: implementation vs documented grammar")

    def num_close(self, name, ta, tb):
        if len(ta) != len(tb):
            return False
        for i, (x, y) in enumerate(zip(ta, tb)):
            if not (is_hex(x) and is_hex(y)):
                if x != y:
                    return False
                continue
            fx, fy = num(x), num(y)
            if name == "rt":
                atol = 1e-8 if i < 3 else (1e-14 if i < 5 else 1e-7)
            elif name == "xyz2blh":
                atol = 1e-14 if i < 2 else 1e-7
            elif name in ("bd", "dr", "rd", "dms2rad", "rad2dms"):
                atol = 1e-14
            else:
                atol = 0.0
            if not tok_equal(x, y, rtol=1e-12, atol=atol):
                return False
            if fx == fx and abs(fx) != float("inf"):
                self.corr.maxstat("max_rel_dev_model_impl", abs(fx - fy) / max(abs(fx), abs(fy), 1e-300) if fx != fy else 0.0)
        return True

    # ---- oracles
    def oracle_ell(self, ops, out):
        corr = self.corr
        j = 0
        a = b = f = None
        for op in ops:
            t = op.split()
            line = out[j]
            j += 1
            if t[0] == "ellnum" and line.startswith("id "):
                line = out[j]
                j += 1
            o = line.split()
            if t[0] in ("ell", "ellnum", "default", "setab", "setaf", "setaf1"):
                corr.case(key=op if o[0] == "ok" else None)
                if o[0] == "ok":
                    a, b, f = num(o[1]), num(o[2]), num(o[3])
                    if not (0 < b <= a) or abs(f - (a - b) / a) > 1e-15:
                        self.fail(f"ellipsoid parameters inconsistent a={a} b={b} f={f}", "ell", [op], "params", "Ellipsoid::set_abff1")
            elif t[0] == "rt":
                B, L, H = num(t[1]), num(t[2]), num(t[3])
                x, y, z, b2, l2, h2 = [num(v) for v in o[1:7]]
                onaxis = (x == 0 and y == 0)
                corr.case(key=None if onaxis else op, sample={"ellipsoid_ops": ops[:1] + [op], "impl": line} if corr.evaluations < 2 else None)
                R = a + H
                db = abs(b2 - B)
                dl = abs(l2 - L) * math.cos(B) * R
                dh = abs(h2 - H)
                near = abs(H) <= 10000.0 * (a / 6378137.0) + 1e-9
                corr.count("rt_near_surface" if near else "rt_far")
                if abs(abs(B) - math.pi / 2) < 1e-9:
                    corr.count("rt_at_pole")
                if abs(abs(L) - math.pi) < 1e-9:
                    corr.count("rt_at_antimeridian")
                corr.maxstat("rt_max_lat_err_rad", db)
                corr.maxstat("rt_max_lon_err_m", dl)
                corr.maxstat("rt_max_h_err_m", dh)
                scale = a / 6378137.0
                if near:
                    okb = db * R <= 5e-4 * scale
                else:
                    okb = db <= DOC_BOUND
                if f > 1 / 149.0:
                    corr.count("rt_flattening_beyond_table_tie_only")   # more oblate than any supported ellipsoid
                elif b2 != b2 and h2 != h2 and abs(abs(B) - math.pi / 2) < 1e-7:
                    corr.count("rt_pole_nan")
                    self.fail(f"xyz2blh returns NaN latitude/height next to the pole (lat={math.degrees(B)!r}, "
                              f"lon={math.degrees(L)!r}, h={H!r})", "ell", [ops[0], op], "pole-nan", "Ellipsoid::xyz2blh")
                elif not (okb and dl <= 5e-4 * scale and dh <= (5e-4 * scale if near else 5e-4 * scale + R * DOC_BOUND ** 2)):
                    self.fail(f"round trip blh->xyz->blh off: dlat={db:.3e} rad, dlon={dl:.3e} m, dh={dh:.3e} m "
                              f"(lat={math.degrees(B)}, lon={math.degrees(L)}, h={H})", "ell", [ops[0], op], "roundtrip",
                              "Ellipsoid::xyz2blh")
                elif not (-math.pi < l2 <= math.pi) or not (-math.pi / 2 <= b2 <= math.pi / 2):
                    self.fail("xyz2blh result out of range", "ell", [ops[0], op], "range", "Ellipsoid::xyz2blh")
            elif t[0] == "xyz2blh":
                corr.case(key=op)
                x, y, z = num(t[1]), num(t[2]), num(t[3])
                b2, l2, h2 = [num(v) for v in o[1:4]]
                if x == 0 and y == 0:
                    corr.count("pole_branch")
                    want = math.pi / 2 if z > 0 else -math.pi / 2
                    if b2 != want or l2 != 0 or abs(h2 - (abs(z) - b)) > 1e-6 * max(1.0, a / 6378137.0):
                        self.fail("pole branch: expected (+-pi/2, 0, |z|-b)", "ell", [ops[0], op], "pole", "Ellipsoid::xyz2blh")
            else:
                corr.case()

    def oracle_ang(self, ops, out):
        corr = self.corr
        j = 0
        for op in ops:
            t = op.split()
            line = out[j]
            j += 1
            if t[0] in ("gdg", "gon2deg", "rad2deg", "latlong"):
                v = num(t[1])
                corr.case(key=op if v != 0 else None, sample={"op": op, "impl": line} if corr.evaluations % 997 == 3 else None)
                if t[0] == "latlong":
                    sign, prec, kind = 3, int(t[2]), "latlong"
                    deg = v * (180.0 / math.pi)
                else:
                    sign, prec, kind = int(t[2]), int(t[3]), "gon2deg"
                    deg = (v / math.pi * 200 if t[0] == "rad2deg" else v) * 0.9
                text = line[4:].replace("_", " ")
                if not line.startswith("str "):
                    raise ValueError(line)
                probs = check_printed(kind, text, deg, v < 0, sign, prec)
                if v == 0 and math.copysign(1.0, v) < 0 and probs and re.search(r"--0|0-0$", text):
                    corr.count("printed_negative_zero_seconds")
                    probs = [(f"argument -0.0: seconds printed as '-0'", "negzero")]
                if any(s == "sec60" for _, s in probs):
                    corr.count("printed_seconds_60")
                sec_up = False
                pp = parse_printed(text, prec)
                if pp and pp[3] == 0 and abs(deg) * 3600 % 60 > 59:
                    corr.count("seconds_rounded_up_with_carry")
                for what, sig in probs:
                    self.fail(f"{kind}({v!r}, sign={sign}, prec={prec}) = '{text}': {what}", "ang", [op], sig,
                              "gon2deg" if kind == "gon2deg" else "latlong")
                if t[0] == "gdg":
                    back = out[j]
                    j += 1
                    if not back.startswith("ok ") and any(sg == "negzero" for _, sg in probs):
                        pass
                    elif not back.startswith("ok "):
                        self.fail(f"deg2gon rejects the string gon2deg printed: '{text}'", "ang", [op], "readback-reject", "deg2gon")
                    else:
                        g2 = num(back.split()[1])
                        want = abs(v) if sign not in (1, 2, 3) else v
                        tol = (0.5 * 10 ** (-prec) / 3600 + abs(v) * 2e-15 + 1e-14) / 0.9
                        if abs(g2 - want) > tol:
                            self.fail(f"deg2gon(gon2deg({v!r},{sign},{prec})='{text}') = {g2!r}: off by {abs(g2 - want):.3g} gon", "ang",
                                      [op], "readback-value", "deg2gon")
            elif t[0] == "rd":
                r = num(t[1])
                corr.case(key=op if r != 0 else None)
                o = line.split()
                x, r2 = num(o[1]), num(o[2])
                want = math.fmod(r, TWO_PI)
                if want < 0:
                    want += TWO_PI
                d = abs(r2 - want)
                d = min(d, abs(d - TWO_PI))
                dd = int(x); mm = int((x - dd) * 100 + 1e-9); ss = ((x - dd) * 100 - mm) * 100
                if x == 360.0:
                    corr.count("rad2dms_equals_360_double")    # -tiny + 360 rounds to 360.0 (floating edge of [0, 360))
                if not (0 <= x <= 360) or d > 1e-11 + 1e-15 * abs(r):     # r*180/pi and the reduction lose |r| ulps
                    f17 = abs(d - 40 * ARCSEC) < 1e-9 + 1e-15 * abs(r) and 0 <= x <= 360
                    self.fail(f"dms2rad(rad2dms({r!r})) = {r2!r}, expected {want!r}; dms={x!r}"
                              + (" (off by 40 arc seconds)" if f17 else ""), "ang", [op], "dms2rad" if f17 else "rad-dms-rad",
                              "dms2rad" if f17 else "rad2dms")
            elif t[0] == "dr":
                x = num(t[1])
                corr.case(key=op if x != 0 else None)
                o = line.split()
                r, x2 = num(o[1]), num(o[2])
                ax = abs(x)
                dd = int(ax); mm = int(round((ax - dd) * 100, 9)); ss = ((ax - dd) * 100 - mm) * 100
                want = (dd + mm / 60.0 + ss / 3600.0) / 180.0 * math.pi * (1 if x >= 0 else -1)
                want = math.fmod(want, TWO_PI)
                if want < 0:
                    want += TWO_PI
                d = abs(r - want); d = min(d, abs(d - TWO_PI))
                if not (0 <= r <= TWO_PI) or d > 1e-9:
                    binary = abs(d - 40 * ARCSEC) < 1e-9 or abs(d - 40 * 60 * ARCSEC) < 1e-9
                    self.corr.count("dms2rad_decimal_literal_misread")
                    self.fail(f"dms2rad({x!r}) = {r!r}, expected {want!r} (off by {d * 206264.8:.3g} arc seconds)", "ang", [op],
                              "dms2rad" if binary and 0 <= r <= TWO_PI else "dms2rad-other", "dms2rad")
            else:
                corr.case()

    def oracle_brg(self, ops, out):
        corr = self.corr
        for k in range(0, len(ops), 4):
            t = ops[k].split()
            ya, xa, yb, xb = [num(v) for v in t[1:5]]
            o1, o2, o3, o4 = [out[k + i].split() for i in range(4)]
            b1, d1, b2, d2 = num(o1[1]), num(o1[2]), num(o2[1]), num(o2[2])
            s1, s2 = num(o3[1]), num(o4[1])
            dy, dx = yb - ya, xb - xa
            dtrue = math.hypot(dy, dx)
            corr.case(key=ops[k] if d1 >= 1e-6 else None, sample={"op": ops[k], "impl": out[k]} if corr.evaluations % 499 == 1 else None)
            msgs = []
            if len(o1) > 3 or len(o2) > 3:
                msgs.append(("bearing() differs from bearing_distance()", "bearing-fn"))
            if d1 != d2 or s1 != s2:
                msgs.append((f"distance not symmetric: {d1!r} vs {d2!r}", "dist-sym"))
            if abs(s1 - dtrue) > 1e-12 * max(dtrue, 1e-300) + 1e-300:
                msgs.append(("distance() value", "dist-value"))
            if dtrue < 1e-6 * (1 - 1e-9):
                corr.count("brg_below_cut")
                if (b1, d1, b2, d2) != (0, 0, 0, 0):
                    msgs.append(("below the 1e-6 cut bearing and distance must be 0", "cut"))
            elif dtrue > 1e-6 * (1 + 1e-9):
                q = (dx >= 0, dy >= 0)
                corr.count("brg_quadrant_%d%d" % q)
                if dx == 0 or dy == 0:
                    corr.count("brg_on_axis")
                if not (0 <= b1 <= TWO_PI and 0 <= b2 <= TWO_PI):
                    msgs.append((f"bearing outside [0, 2pi): {b1!r} {b2!r}", "range"))
                if b1 == TWO_PI or b2 == TWO_PI:
                    corr.count("brg_equals_2pi_double")
                if abs(d1 - dtrue) > 1e-12 * dtrue:
                    msgs.append(("distance value", "dist-value"))
                if abs(d1 * math.cos(b1) - dx) > 1e-12 * d1 + 1e-15 or abs(d1 * math.sin(b1) - dy) > 1e-12 * d1 + 1e-15:
                    msgs.append((f"d*cos(s), d*sin(s) != dx, dy: s={b1!r} d={d1!r} dx={dx!r} dy={dy!r}", "polar"))
                diff = math.fmod(b2 - b1 - math.pi, TWO_PI)
                if diff < 0:
                    diff += TWO_PI
                if min(diff, TWO_PI - diff) > 1e-12:
                    msgs.append((f"bearing(b,a) - bearing(a,b) != pi (mod 2pi): {b1!r} {b2!r}", "antisym"))
            for what, sig in msgs:
                self.fail(what, "brg", ops[k:k + 4], sig, "bearing_distance")

    def oracle_lit(self, ops, out):
        corr = self.corr
        for k, op in enumerate(ops):
            t = op.split()
            s = bytes.fromhex(t[1]).decode() if len(t) > 1 else ""
            line = out[k]
            if t[0] == "isint":
                got, want = line == "flag 1", bool(INT_RE.fullmatch(s))
                sig = "isint-sign-only" if s.strip(" \t\n\v\f\r") in ("+", "-") else "isint"
            elif t[0] == "isfloat":
                got, want = line == "flag 1", bool(FLT_RE.fullmatch(s))
                sig = "isfloat"
            else:
                g = spec_dms(s)
                got, want = line.startswith("ok "), g is not None
                sig = "deg2gon-accept"
                if got and want and abs(num(line.split()[1]) - g) > 1e-12 * max(1.0, abs(g)):
                    self.fail(f"deg2gon({s!r}) value {num(line.split()[1])!r}, expected {g!r}", "lit", [op], "deg2gon-value", "deg2gon")
            corr.case(key=op if got else None)
            if got:
                corr.count("lit_accepted_" + t[0])
            if got != want:
                self.fail(f"{t[0]}({s!r}) = {int(got)}, documented format says {int(want)}", "lit", [op], sig,
                          {"isint": "IsInteger", "isfloat": "IsFloat", "deg2gon": "deg2gon"}[t[0]])


def corpus_cases(ctx):
    cases = []
    d = ctx.verif / "corpus" / "C18"
    if d.exists():
        for f in sorted(d.glob("*.txt")):
            stream = f.name.split("-")[0]
            ops = [l for l in f.read_text().split("\n") if l.strip() and not l.startswith("#")]
            if stream in ("ell", "ang", "brg", "lit") and ops:
                cases.append((stream, ops))
    return cases


def all_cases(ctx, rng, scale):
    tagged = corpus_cases(ctx)
    tagged += gen_ell_cases(ctx, rng, 12 * scale)
    tagged += gen_ang_cases(rng, 25 * scale)
    tagged += gen_brg_cases(rng, 40 * scale)
    lit, _ = gen_lit_cases(ctx, rng, 5 if scale == 1 else 6, 300 * scale)
    tagged += lit
    return tagged


def correspond(ctx, corr):
    w = Work(ctx, corr)
    tagged = all_cases(ctx, ctx.rng, ctx.size(1, 12))
    w.run(tagged)
    st = corr.stats
    if st.get("rt_at_pole", 0) < 20 or st.get("rt_at_antimeridian", 0) < 20 or st.get("rt_far", 0) < 100:
        corr.inconclusive.append("round-trip generator: poles/antimeridian/far points under-represented")
    if st.get("seconds_rounded_up_with_carry", 0) + st.get("printed_seconds_60", 0) < 10:
        corr.inconclusive.append("angle generator: too few values whose seconds round up to 60")
    if min(st.get("brg_quadrant_%d%d" % (a, b), 0) for a in (0, 1) for b in (0, 1)) < 10 or st.get("brg_below_cut", 0) < 5:
        corr.inconclusive.append("bearing generator: a quadrant / the cut is under-represented")
    if st.get("grammar_lines_agree", 0) + len([d for d in corr.disagreements if d]) < 50000 or st.get("dms_shape_ok_but_out_of_range", 0) < 5:
        corr.inconclusive.append("literal stream: grammar third party did not run on the exhaustive set / too few out-of-range fields")


def search(ctx, broken, corr):
    c2 = Corr()
    w = Work(ctx, c2)
    rng = __import__("random").Random(f"C18-search-{ctx.seed}")
    w.run(all_cases(ctx, rng, 6), with_model=False)
    return c2.failures


def classify(ctx, failure):
    r = failure.replay if isinstance(failure.replay, dict) else {}
    sig, stream = r.get("signature"), r.get("stream")
    if stream == "ang" and sig == "sec60" and failure.site in ("gon2deg", "latlong"):
        return "C18-F14"    # seconds printed as 60.00
    if stream == "lit" and sig == "isint-sign-only" and failure.site == "IsInteger":
        return "C18-F2"     # IsInteger accepts a lone sign
    if stream == "ang" and sig == "dms2rad" and failure.site == "dms2rad":
        return "C18-F3"     # dms2rad on decimal ddd.mmss literals (binary rounding before truncation)
    if stream == "ell" and sig == "pole-nan" and failure.site == "Ellipsoid::xyz2blh":
        return "C18-F4"     # NaN next to the poles
    if stream == "ang" and sig == "negzero" and failure.site in ("gon2deg", "latlong"):
        return "C18-F5"     # -0.0 prints seconds -0.00
    return None


def replay(ctx, payload):
    f = payload.get("failure")
    if not f:
        print(json.dumps(payload.get("no_longer_checks"), indent=1)[:4000])
        return 0
    inp = f["input"]
    c = Corr()
    w = Work(ctx, c)
    w.run([(inp["stream"], inp["ops"])], with_model=False)
    exe_out = run_cases(w.exe, [inp["ops"]])[0][0]
    print("ops :", inp["ops"])
    print("impl:", exe_out)
    for x in c.failures:
        print("FAILS:", x.what)
    return 1 if c.failures else 0
