"""C16 — sparse kernels equal their dense definitions."""
from lib.core import *
from fractions import Fraction as Fr
import itertools
from gen import c16_members

ID = "C16"
PROPS_FILES = ["Gama/Props/C16.lean", "Gama/Props/C16Ls.lean", "Gama/Props/C16CholSource.lean", "Gama/Props/C16Packed.lean"]
LEAN_TARGETS = ["Gama.Props.C16", "Gama.Props.C16Ls", "Gama.Props.C16CholSource", "Gama.Props.C16Packed"]
DRIVERS = ["drv_sparse"]
RULE = ("a case = one sparsity pattern with values (rows x cols, list of (col,value) per row, build style: plain / roomy / "
        "network (cols unknown, replicate(n,r,c) of the finished matrix) / grow (fill k rows, replicate(n,r,c) into a larger "
        "object, CONTINUE the fill on the replica; k random incl. 0)) driven "
        "through build/dump/replicate/graph/connected/levels/ppn/rcm/envelope/cholDec/solves/inverse/transpose^2; "
        "distinct by (rows, cols, pattern, values); non-trivial = at least 2 columns, at least one row with >= 2 "
        "entries (so graph, ordering and profile are not empty).  Stream bdchol: a case = one BlockDiagonal layout "
        "(capacities, blocks (dim, band width, packed values C = U'U with exact rational U, some blocks not positive "
        "definite), tolerance) driven through add_block/dump/replicate/UpperBlockDiagonal/cholDec; distinct by "
        "(blocks, values, tol); non-trivial = some block has band width >= 1")
LEVEL_TEXT = ("Lean 4 theorems (all sizes, all patterns) about executable models of SparseMatrix build/replicate/"
              "transpose (incl. the build machine with replicate(n,r,c) as a step followed by further new_row/add_element: for "
              "every prefix, capacity and continuation the result holds exactly prefix ++ appended rows; the members replicate "
              "copies are regenerated from smatrix.h), SparseMatrixGraph, connected(), RootedLevelStructure/PseudoPeripheralNode/"
              "ReverseCuthillMcKee, Envelope set/cholDec/solves/inverse on the packed profile (the whole loop nest of "
              "Envelope::cholDec - default tolerance, bounds, index arithmetic, order of the two solves, accumulation, pivot "
              "update, test |d| < tol, zero, defect++ - is regenerated from envelope.h into Gen/CholDecLoop and the model is "
              "equal to it by rfl: C16_choldec_source_tie; the ranged calls lowerSolve/diagonalSolve(start,stop), "
              "upperSolve(1,k) = dense solves on the sub-block: C16_lower_solve_range, C16_diagonal_solve_range, "
              "C16_upper_solve_prefix), the two models of Homogenization::run (C10's Cov.Hom.run and the solver's "
              "Ls.Env.homogenize) equal in values and rejections (C16_hom_run_eq_env_homogenize; hypotheses: square-root law, "
              "Env.HoldsProblem - since round 12 without a no-repeat condition: repeated column indices add up), envSolve's answers = the packed kernels on "
              "Hom.run's output with the reverse Cuthill-McKee ordering of the graph of that output itself (C16_envsolve_packed, "
              "round 10: out.sm well formed, its stored pattern and graph equal the solver model's, defect / factor / particular "
              "solution / sparse inverse inside the profile equal; hypotheses: square-root law, RowsOK, Env.HoldsProblem; both sides "
              "shown to answer on an instance at tol 1e-14), and BlockDiagonal "
              "(add_block/replicate/cholDec as the pointer walk over all blocks with the early return) + "
              "UpperBlockDiagonal row table; models tied to the "
              "C++ by differential correspondence (bit-exact for data movement, exact rationals and IEEE doubles for "
              "the factorisation) and an exact-fraction dense oracle on the implementation's own output.")
LEVEL_NOTE = ("Trusted: Lean kernel, statements in Props/C16.lean, C16Ls.lean, C16CholSource.lean, C16Packed.lean, "
              "harness/c16_sparse.cpp, this generator/comparator. "
              "Theorems are over linearly ordered fields (exact arithmetic); IEEE rounding is observed, not proved. "
              "Preconditions the C++ never checks (capacity, every row started, column index in 1..cols) are hypotheses "
              "(SMat.WF), listed in ASSUMPTIONS. Not regenerated (hand models + correspondence): Envelope::set, lowerSolve, "
              "diagonalSolve, upperSolve, inverse, the bodies of new_row/add_element/transpose, BlockDiagonal::cholDec. No new "
              "stream for C16Packed (its models are tied by C10's homrun stream, the envelope streams and drv_ls). Round 12: the hypothesis "
              "'no repeated column index in a row' is gone from C16_envsolve_packed / C16_hom_run_eq_env_homogenize (RowsOK = range condition, "
              "nodupRows removed from HoldsProblem: Problem.dense, Cov.Hom.run and the C++ all sum). Left: the adjusted "
              "unknowns a.x enter only through the particular solution fact.x0p; a.q0xx is tied to Envelope::inverse through "
              "zEntry inside the profile, not restated as one equation; that LocalNetwork hands a pair satisfying HoldsProblem is "
              "not derived.")
TECHNIQUE = ("Lean 4 proof (loop invariants over the array programs, refinement packed profile -> dense LDL') + "
             "model/implementation correspondence + exact dense oracle")
TRUSTED = ["translator tools/gen/c16_members.py (members of SparseMatrix, constructor, replicate(n,r,c): assignments and memcpy counts)",
           "translator tools/gen/c16_choldec.py on the C front end tools/gen/cfun.py (loop nest of Envelope::cholDec matched "
           "against a statement skeleton, 16 holes regenerated into Gen/CholDecLoop; anything else stops the run)",
           "translator tools/props/c16.py::translate (regex: first row of the cholDec loop from envelope.h -> "
           "Gen/EnvelopeConst; now redundant with Gen.Chol.firstRow, equated in C16_choldec_source_tie)",
           "python exact-fraction oracle in tools/props/c16.py"]
MODELLED = ["std::set<std::pair<int,int>> iteration order (modelled as a strictly sorted list)",
            "std::sort on (degree,node) pairs (modelled by List.mergeSort; keys are distinct)",
            "std::stack, new[]/delete[] lifetime, uninitialised cells (modelled by placeholders that are never observed)",
            "IEEE rounding in Envelope::set/cholDec/solves/inverse and BlockDiagonal::cholDec (executed at Float, proved "
            "over exact fields with sqrt x * sqrt x = x; the Rat driver uses an exact root of rational squares)"]
ASSUMPTIONS = ["SparseMatrix: capacity not exceeded, every row started, column indices in 1..cols (WF)",
               "Envelope::set: perm/invp a permutation of 1..dim (a column index may repeat inside a row)",
               "factorisation comparison: rank numerically unambiguous (every exact pivot is 0 or >= 1e-6)",
               "BlockDiagonal: add_block within the capacities given to the constructor (canAddBlock), band width <= dim "
               "(CovMat.WF of every block)"]

TOL = 1e-8
GEN_FILE = "Gama/Gen/EnvelopeConst.lean"


# ------------------------------------------------------------------ translator

def translate(ctx):
    """first row of the factorisation loop in Envelope::cholDec -> Gama/Gen/EnvelopeConst.lean;
    data members of SparseMatrix and what replicate(n,r,c) makes of them -> Gama/Gen/SparseMembers.lean"""
    try:
        if c16_members.run(ctx.repo, ctx.lean / "Gama" / "Gen" / "SparseMembers.lean"):
            ctx.log("Gen/SparseMembers.lean regenerated (content changed)")
    except c16_members.Unparsable as e:
        raise TieBroken("tools/gen/c16_members.py", str(e))
    except OSError as e:
        raise TieBroken("tools/gen/c16_members.py", "cannot read source: " + str(e))
    # round 7: the whole loop nest of Envelope::cholDec (Gen/CholDecLoop.lean), tools/gen/c16_choldec.py
    from gen import c16_choldec
    try:
        if c16_choldec.run(ctx.repo, ctx.lean):
            ctx.log("Gen/CholDecLoop.lean regenerated (content changed)")
    except c16_choldec.Unparsable as e:
        raise TieBroken("tools/gen/c16_choldec.py", str(e))
    except OSError as e:
        raise TieBroken("tools/gen/c16_choldec.py", "cannot read source: " + str(e))
    src = (ctx.repo / "lib/gnu_gama/adj/envelope.h").read_text()
    m = re.search(r"void\s+Envelope<Float,\s*Index>::cholDec\(Float tol\)\s*\{(.*?)\n  \}", src, re.S)
    if not m:
        raise TieBroken("envelope.h: cholDec not found")
    body = m.group(1)
    loops = re.findall(r"for\s*\(\s*Index\s+row\s*=\s*(\d+)\s*;\s*row\s*<=\s*dim_\s*;\s*row\+\+\s*\)", body)
    if len(loops) != 1:
        raise TieBroken("envelope.h: cholDec row loop not recognised", body[:400])
    first = int(loops[0])
    txt = ("/- GENERATED by tools/props/c16.py::translate from lib/gnu_gama/adj/envelope.h — do not edit.\n"
           "   `for (Index row=<first>; row<=dim_; row++)` in `Envelope::cholDec`. -/\n"
           "namespace Gama.Gen\n\n"
           f"/-- first row handled by the factorisation loop of `Envelope::cholDec` -/\n"
           f"def cholFirstRow : Nat := {first}\n\nend Gama.Gen\n")
    f = ctx.lean / GEN_FILE
    f.parent.mkdir(exist_ok=True)
    if not f.exists() or f.read_text() != txt:
        f.write_text(txt)


# ------------------------------------------------------------------ generators

def pat_random(rng, maxm, maxn):
    m, n = rng.randint(0, maxm), rng.randint(0, maxn)
    dens = rng.choice([0.1, 0.2, 0.35, 0.6, 1.0])
    rows = []
    for _ in range(m):
        cols = [c for c in range(1, n + 1) if rng.random() < dens]
        rng.shuffle(cols)
        rows.append(cols)
    return m, n, rows, "random"


def pat_banded(rng, maxm, maxn):
    n = rng.randint(1, maxn)
    bw = rng.randint(1, min(4, n))
    m = rng.randint(1, maxm)
    rows = []
    for _ in range(m):
        s = rng.randint(1, n)
        cols = list(range(s, min(n, s + bw - 1) + 1))
        if rng.random() < 0.5:
            cols = [c for c in cols if rng.random() < 0.7]
        rng.shuffle(cols)
        rows.append(cols)
    relabel = list(range(1, n + 1))
    if rng.random() < 0.6:
        rng.shuffle(relabel)          # hide the band so that RCM has something to recover
    rows = [[relabel[c - 1] for c in r] for r in rows]
    return m, n, rows, "banded"


def pat_disconnected(rng, maxm, maxn):
    k = rng.randint(2, 4)
    n = rng.randint(k, max(k, maxn))
    comp = [rng.randrange(k) for _ in range(n)]
    m = rng.randint(1, maxm)
    rows = []
    for _ in range(m):
        c = rng.randrange(k)
        members = [i + 1 for i in range(n) if comp[i] == c]
        take = [x for x in members if rng.random() < 0.5]
        rng.shuffle(take)
        rows.append(take)
    return m, n, rows, "disconnected"


def pat_special(rng, maxm, maxn):
    kind = rng.choice(["single-column", "dense", "empty-rows", "edgeless", "one-row", "levelling", "zero-cols"])
    if kind == "single-column":
        m = rng.randint(0, maxm)
        return m, 1, [[1] if rng.random() < 0.7 else [] for _ in range(m)], kind
    if kind == "dense":
        m, n = rng.randint(1, min(maxm, 8)), rng.randint(1, min(maxn, 8))
        return m, n, [rng.sample(range(1, n + 1), n) for _ in range(m)], kind
    if kind == "empty-rows":
        m, n = rng.randint(1, maxm), rng.randint(0, maxn)
        return m, n, [[] for _ in range(m)], kind
    if kind == "edgeless":
        n = rng.randint(1, maxn)
        m = rng.randint(0, maxm)
        return m, n, [[rng.randint(1, n)] if rng.random() < 0.8 else [] for _ in range(m)], kind
    if kind == "one-row":
        n = rng.randint(1, maxn)
        return 1, n, [rng.sample(range(1, n + 1), rng.randint(0, n))], kind
    if kind == "levelling":
        n = rng.randint(2, maxn)
        m = rng.randint(1, maxm)
        rows = []
        for _ in range(m):
            a, b = rng.sample(range(1, n + 1), 2)
            rows.append([a, b])
        return m, n, rows, kind
    n = rng.randint(2, maxn)
    m = rng.randint(1, maxm)
    used = [c for c in range(1, n + 1) if rng.random() < 0.6] or [1]
    return m, n, [[c for c in rng.sample(used, len(used)) if rng.random() < 0.5] for _ in range(m)], "zero-cols"


def valued(rng, m, n, rows, kind, integer=True, plant=True):
    """attach values; optionally plant exact rank deficiencies (duplicated / combined columns)"""
    vals = {}
    def val():
        if integer:
            return rng.choice([-3, -2, -1, 1, 2, 3]) if rng.random() < 0.95 else 0
        return rng.choice([rng.uniform(-4, 4), rng.gauss(0, 1), float(rng.randint(-5, 5))])
    ent = [[(c, val()) for c in r] for r in rows]
    repeated = 0
    if n >= 1 and rng.random() < 0.22:
        # a column index repeated inside a row (values add up; F17)
        for r in ent:
            if r and rng.random() < 0.5:
                for _ in range(rng.randint(1, 2)):
                    c, _v = rng.choice(r)
                    r.insert(rng.randint(0, len(r)), (c, val()))
                    repeated += 1
    planted = 0
    if plant and integer and n >= 2 and rng.random() < 0.45:
        # make column b an exact multiple of column a (same rows), or a + a' on the union
        for _ in range(rng.randint(1, 2)):
            a, b = rng.sample(range(1, n + 1), 2)
            f = rng.choice([1, -1, 2])
            new = []
            for r in ent:
                d = dict(r)
                r2 = [(c, v) for (c, v) in r if c != b]
                if a in d:
                    r2.insert(rng.randint(0, len(r2)), (b, f * d[a]))
                new.append(r2)
            ent = new
            planted += 1
    return {"m": m, "n": n, "rows": ent, "kind": kind + ("+planted" if planted else ""), "integer": integer,
            "repeated": repeated}


def all_small_patterns(maxm=4, maxn=3):
    """every pattern up to maxm x maxn (values fixed by position)"""
    out = []
    for m in range(0, maxm + 1):
        for n in range(0, maxn + 1):
            cells = [(r, c) for r in range(m) for c in range(1, n + 1)]
            for mask in range(1 << len(cells)):
                rows = [[] for _ in range(m)]
                for k, (r, c) in enumerate(cells):
                    if mask >> k & 1:
                        rows[r].append((c, ((r * 3 + c * 5) % 5) - 2 or 3))
                out.append({"m": m, "n": n, "rows": rows, "kind": "exhaustive", "integer": True})
    return out


def hx(v):
    return float2hex(v)


def case_ops(p, rng):
    """operation lines of one case with a label per line"""
    m, n, rows = p["m"], p["n"], p["rows"]
    nnz = sum(len(r) for r in rows)
    style = p.get("style") or rng.choice(["plain", "plain", "network", "roomy", "grow", "grow"])
    ops = []
    def add(label, line):
        ops.append((label, line))
    if style == "grow" and m >= 1 and not p.get("overflow"):
        # the build machine with a hand-over: fill the first k rows of an object that has room for exactly
        # these, replicate(n, r, c) into a larger object, CONTINUE the sequential fill on the replica
        # (C16_replicate_then_append); k = 0 (nothing filled yet) included
        k = rng.randint(1, m - 1) if m >= 2 and rng.random() < 0.9 else rng.randint(0, m)
        nk = sum(len(r) for r in rows[:k])
        add("new", f"new {nk + rng.randint(0, 2)} {k} {rng.choice([n, 0])}")
        for r in rows[:k]:
            add("row", "row")
            for c, v in r:
                add("add", f"add {hx(v)} {c}")
        add(f"dumpP{k}", "dump")
        add("grow", f"replicate3 {nnz + rng.randint(0, 2)} {m} {n}")
        add(f"dumpP{k}", "dump")
        for r in rows[k:]:
            add("row", "row")
            for c, v in r:
                add("add", f"add {hx(v)} {c}")
    elif style == "network":                      # LocalNetwork::project_equations: cols unknown while filling
        add("new", f"new {nnz + rng.randint(0, 3)} {m} 0")
    elif style == "roomy":
        add("new", f"new {nnz + rng.randint(1, 5)} {m} {n}")
    else:
        add("new", f"new {nnz} {m} {n}")
    if not any(lab == "grow" for lab, _ in ops):
        for r in rows:
            add("row", "row")
            for c, v in r:
                add("add", f"add {hx(v)} {c}")
    if p.get("overflow"):
        add("refused", "row")
        if style == "plain":
            add("refused", f"add {hx(1.0)} 1")
    add("dump0", "dump")
    if style == "network":
        add("rep", f"replicate3 {nnz} {m} {n}")
    else:
        add("rep", "replicate")
    add("dump1", "dump")
    add("graph", "graph")
    add("connected", "connected")
    for r in sorted(set([1, n] + [rng.randint(1, max(n, 1)) for _ in range(2)])):
        if 1 <= r <= n:
            add("levels", f"levels {r}")
            add("ppn", f"ppn {r}")
    add("rcm", "rcm")
    add("envelope", "envelope")
    add("elements0", "elements env")
    add("chol", "choldec0" if rng.random() < 0.3 else f"choldec {hx(TOL)}")
    add("elements1", "elements env")
    if n >= 1:
        for k in range(1, n + 1):
            add(f"solve{k}", "solve " + " ".join(hx(1.0 if j == k else 0.0) for j in range(1, n + 1)))
        v = [float(rng.randint(-4, 4)) for _ in range(n)]
        add("solvev", "solve " + " ".join(map(hx, v)))
        add("lower", f"lower 1 {n} " + " ".join(map(hx, v)))
        a = rng.randint(1, n); b = rng.randint(a, n)
        add("lowerab", f"lower {a} {b} " + " ".join(map(hx, v[a - 1:b])))
        add("diagab", f"diagonal {a} {b} " + " ".join(map(hx, v[a - 1:b])))
        add("upper", f"upper 1 {b} " + " ".join(map(hx, v[:b])))
    add("inverse", "inverse")
    add("elementsZ", "elements inv")
    add("tr1", "transpose")
    add("dumpT1", "dump")
    add("tr2", "transpose")
    add("dumpT2", "dump")
    return ops


# ------------------------------------------------------------------ exact oracle

def parse_crs(line):
    t = line.split()
    assert t[0] == "crs"
    rows, cols, rcnt, ncnt = map(int, t[1:5])
    ip, ii, iv = t.index("ptr"), t.index("ind"), t.index("val")
    return {"rows": rows, "cols": cols, "rcnt": rcnt, "ncnt": ncnt,
            "ptr": list(map(int, t[ip + 1:ii])), "ind": list(map(int, t[ii + 1:iv])), "val": t[iv + 1:]}


def crs_of_rows(nrows, ncols, rows):
    ptr, ind, val = [0], [], []
    for r in rows:
        for c, v in r:
            ind.append(c); val.append(v)
        ptr.append(len(ind))
    return {"rows": nrows, "cols": ncols, "rcnt": nrows, "ncnt": len(ind), "ptr": ptr if nrows else [0], "ind": ind, "val": val}


def parse_env(line):
    t = line.split()
    n = int(t[1]); d = int(t[3])
    iw, ix, idg, ie = t.index("width"), t.index("xenv"), t.index("diag"), t.index("env", 1)
    return {"dim": n, "defect": d, "width": list(map(int, t[iw + 1:ix])), "xenv": list(map(int, t[ix + 1:idg])),
            "diag": t[idg + 1:ie], "env": t[ie + 1:]}


def fr(tok):
    return Fr(hex2float(tok))


def close(a, q, rtol=1e-8, atol=1e-9):
    """implementation double `a` (hex token) vs exact value q"""
    x = hex2float(a)
    if x != x or abs(x) == float("inf"):
        return False
    return abs(Fr(x) - q) <= Fr(atol) + Fr(rtol) * abs(q)


def dense_ldl(N, n):
    """textbook LDL' with the exact zero-pivot rule; returns L (unit lower), D, defect"""
    L = [[Fr(0)] * n for _ in range(n)]
    D = [Fr(0)] * n
    defect = 0
    for i in range(n):
        y = [Fr(0)] * i
        for j in range(i):
            y[j] = N[i][j] - sum(L[j][k] * y[k] for k in range(j))
        for j in range(i):
            L[i][j] = y[j] / D[j] if D[j] != 0 else Fr(0)
        d = N[i][i] - sum(L[i][j] * L[i][j] * D[j] for j in range(i))
        if d == 0:
            defect += 1
        D[i] = d
        L[i][i] = Fr(1)
    return L, D, defect


def dense_solve(L, D, n, b):
    y = [Fr(0)] * n
    for i in range(n):
        y[i] = b[i] - sum(L[i][j] * y[j] for j in range(i))
    z = [y[i] / D[i] if D[i] != 0 else Fr(0) for i in range(n)]
    x = [Fr(0)] * n
    for i in reversed(range(n)):
        x[i] = z[i] - sum(L[j][i] * x[j] for j in range(i + 1, n))
    return x


def dense_inverse(L, D, n):
    Z = [[Fr(0)] * n for _ in range(n)]
    for s in reversed(range(n)):
        if D[s] == 0:
            for i in range(n):
                Z[s][i] = Z[i][s] = Fr(0)
            continue
        Z[s][s] = 1 / D[s] - sum(L[k][s] * Z[s][k] for k in range(s + 1, n))
        for i in reversed(range(s)):
            v = -sum(L[k][i] * Z[k][s] for k in range(i + 1, n))
            Z[s][i] = Z[i][s] = v
    return Z


class Oracle:
    """the property itself, evaluated exactly on what the implementation printed"""

    def __init__(self, p, ops, out):
        self.p, self.ops, self.out = p, ops, out
        self.by = {}
        for (label, _), line in zip(ops, out):
            self.by.setdefault(label, []).append(line)
        self.problems = []      # (what, site)
        self.info = {}

    def bad(self, what, site):
        self.problems.append((what, site))

    def one(self, label):
        return self.by[label][0]

    def run(self):
        p = self.p
        m, n = p["m"], p["n"]
        rows = [[(c, hx(v)) for c, v in r] for r in p["rows"]]
        want = crs_of_rows(m, n, rows)
        # --- build machine with a hand-over: the prefix before and after replicate(n, r, c)
        for label, lines in self.by.items():
            if label.startswith("dumpP"):
                k = int(label[5:])
                self.info["grow_split"] = k
                wp = crs_of_rows(k, n, rows[:k])
                for nm, line in zip(("prefix build", "replicate(n,r,c) of the prefix"), lines):
                    d = parse_crs(line)
                    if k == 0:
                        if d["ncnt"] != 0 or d["rcnt"] != 0:
                            self.bad(f"{nm}: an object without started rows reports entries", "SparseMatrix::replicate")
                    elif (d["rcnt"], d["ptr"], d["ind"], d["val"], d["ncnt"]) != (k, wp["ptr"], wp["ind"], wp["val"], wp["ncnt"]):
                        self.bad(f"{nm} does not hold the first {k} rows", "SparseMatrix::replicate")
                if parse_crs(lines[1])["rows"] != m or parse_crs(lines[1])["cols"] != n:
                    self.bad("replicate(n,r,c) dimensions", "SparseMatrix::replicate")
        # --- build / replicate
        d0, d1 = parse_crs(self.one("dump0")), parse_crs(self.one("dump1"))
        for nm, d in (("build", d0), ("replicate", d1)):
            if (d["ptr"], d["ind"], d["val"], d["ncnt"]) != (want["ptr"], want["ind"], want["val"], want["ncnt"]):
                if "grow_split" in self.info:
                    self.bad(f"{nm}: rows filled before replicate(n,r,c) + rows appended to the replica are not the "
                             f"rows of the matrix (split after row {self.info['grow_split']})", "SparseMatrix::replicate")
                else:
                    self.bad(f"{nm} does not preserve the entries", "SparseMatrix::add_element/replicate")
        if (d1["rows"], d1["cols"]) != (m, n):
            self.bad("replicate dimensions", "SparseMatrix::replicate")
        # --- transpose: stable counting sort
        tr = [[] for _ in range(n)]
        for r, row in enumerate(rows, 1):
            for c, v in row:
                tr[c - 1].append((r, v))
        t1 = parse_crs(self.one("dumpT1"))
        wt = crs_of_rows(n, m, tr)
        if (t1["rows"], t1["cols"], t1["ncnt"], t1["ptr"], t1["ind"], t1["val"]) != (n, m, wt["ncnt"], wt["ptr"], wt["ind"], wt["val"]):
            self.bad("transpose is not the transposed matrix", "SparseMatrix::transpose")
        if any(a > b for a, b in zip(t1["ptr"], t1["ptr"][1:])):
            self.bad("transpose row pointers not monotone", "SparseMatrix::transpose")
        t2 = parse_crs(self.one("dumpT2"))
        ws = crs_of_rows(m, n, [sorted(r, key=lambda e: e[0]) for r in rows])      # python sort is stable
        if (t2["rows"], t2["cols"], t2["ptr"], t2["ind"], t2["val"]) != (m, n, ws["ptr"], ws["ind"], ws["val"]):
            self.bad("transpose(transpose(A)) is not A with rows stably sorted by column", "SparseMatrix::transpose")
        # --- graph
        nb = [set() for _ in range(n + 1)]
        for row in rows:
            cs = [c for c, _ in row]
            for a in cs:
                for b in cs:
                    if a != b:
                        nb[a].add(b)
        g = self.one("graph").split()
        ix, ia = g.index("xadj"), g.index("adj")
        xadj = list(map(int, g[ix + 1:ia])); adj = list(map(int, g[ia + 1:]))
        exp_adj, exp_x = [], [0]
        for i in range(1, n + 1):
            exp_adj += sorted(nb[i]); exp_x.append(len(exp_adj))
        if int(g[1]) != n or xadj != exp_x or adj != exp_adj:
            self.bad("graph adjacency is not {i~j : i != j, some row contains both}", "SparseMatrixGraph::SparseMatrixGraph")
        # --- connectivity by union-find
        par = list(range(n + 1))
        def find(x):
            while par[x] != x:
                par[x] = par[par[x]]; x = par[x]
            return x
        for i in range(1, n + 1):
            for j in nb[i]:
                par[find(i)] = find(j)
        ncomp = len({find(i) for i in range(1, n + 1)})
        self.info["components"] = ncomp
        c = self.one("connected")
        if c != f"flag {1 if ncomp == 1 else 0}":       # empty graph: 0 components -> not connected
            self.bad(f"connected() says {c!r}, graph has {ncomp} component(s)", "SparseMatrixGraph::connected")
        # --- ordering
        t = self.one("rcm").split()
        iv = t.index("invp")
        perm = [0] + list(map(int, t[1:iv])); invp = [0] + list(map(int, t[iv + 1:]))
        okp = sorted(perm[1:]) == list(range(1, n + 1)) and len(invp) == n + 1 and \
            all(1 <= invp[v] <= n for v in range(1, n + 1)) and \
            all(invp[perm[k]] == k for k in range(1, n + 1)) and all(perm[invp[v]] == v for v in range(1, n + 1))
        if not okp:
            self.bad("ordering is not a permutation with consistent inverse", "ReverseCuthillMcKee::algorithm")
            return
        # --- envelope profile and accumulation
        if not p["integer"]:
            return
        vals = [[(c, Fr(v)) for c, v in r] for r in p["rows"]]
        N = [[Fr(0)] * n for _ in range(n)]
        for row in vals:
            for c1, v1 in row:
                for c2, v2 in row:
                    N[invp[c1] - 1][invp[c2] - 1] += v1 * v2
        e0 = parse_env(self.one("envelope"))
        width = [i - min([i] + [invp[j] for j in nb[perm[i]]]) for i in range(1, n + 1)]
        if e0["dim"] != n or e0["width"] != width:
            self.bad("profile is not i - min(new number of i and its neighbours)", "Envelope::set")
            return
        offs = [0]
        for w in width:
            offs.append(offs[-1] + w)
        if n >= 1 and (e0["xenv"] != offs or len(e0["env"]) != offs[-1]):
            self.bad("row pointers xenv_ are not the running sums of the profile widths", "Envelope::set")
            return
        for i in range(n):
            for j in range(i):
                if N[i][j] != 0 and i - j > width[i]:
                    self.bad("non-zero of the permuted normal matrix outside the profile", "Envelope::set")
        def unpack(e):
            M = [[None] * n for _ in range(n)]
            k = 0
            for i in range(n):
                M[i][i] = e["diag"][i]
                for j in range(i - width[i], i):
                    M[i][j] = e["env"][k]; k += 1
            return M
        M0 = unpack(e0)
        for i in range(n):
            for j in range(i + 1):
                if M0[i][j] is not None and fr(M0[i][j]) != N[i][j]:
                    self.bad("packed accumulation differs from P'A'AP", "Envelope::set")
                    return
        # --- LDL'
        L, D, defect = dense_ldl(N, n)
        self.info["defect"] = defect
        self.info["min_pivot"] = min([abs(d) for d in D if d != 0], default=None)
        amb = any(0 < abs(d) < Fr(1, 10**6) for d in D)
        self.info["ambiguous"] = amb
        if amb:
            return
        for i in range(n):
            for j in range(i):
                if L[i][j] != 0 and i - j > width[i]:
                    self.bad("ORACLE: dense L has fill outside the profile", "oracle")
        e1 = parse_env(self.one("chol"))
        M1 = unpack(e1)
        okf = True
        for i in range(n):
            for j in range(i + 1):
                if M1[i][j] is not None:
                    q = D[i] if i == j else L[i][j]
                    if not close(M1[i][j], q) or (q == 0 and i == j and hex2float(M1[i][j]) != 0.0):
                        okf = False
        if not okf:
            self.bad("packed LDL' differs from dense LDL' of the permuted normal matrix", "Envelope::cholDec")
            return
        if e1["defect"] != defect:
            first0 = n >= 1 and D[0] == 0
            self.bad(f"defect() = {e1['defect']} but {defect} pivots are exactly zero"
                     + (" [first pivot zero]" if first0 and e1["defect"] == defect - 1 else ""), "Envelope::cholDec")
        # --- solves on unit vectors
        for k in range(1, n + 1):
            x = dense_solve(L, D, n, [Fr(1 if j == k - 1 else 0) for j in range(n)])
            got = self.one(f"solve{k}").split()[1:]
            if len(got) != n or not all(close(a, q) for a, q in zip(got, x)):
                self.bad(f"solve(e{k}) differs from the dense solve", "Envelope::solve")
                break
        # --- inverse on the profile
        Z = dense_inverse(L, D, n)
        ez = parse_env(self.one("inverse"))
        MZ = unpack(ez)
        for i in range(n):
            for j in range(i + 1):
                if MZ[i][j] is not None and not close(MZ[i][j], Z[i][j]):
                    self.bad("sparse inverse differs from the dense recurrence on the profile", "Envelope::inverse")
                    return
        if defect == 0 and n <= 8:
            for i in range(n):
                for j in range(n):
                    s = sum(N[i][k] * Z[k][j] for k in range(n))
                    if s != (1 if i == j else 0):
                        self.bad("ORACLE: dense Z is not the inverse of N", "oracle")
                        return


# ------------------------------------------------------------------ correspondence

NUMERIC = ("env ", "chol ", "inv ", "ok ", "ok", "elements ")


def is_numeric(line):
    return line.startswith(NUMERIC)


def compare_case(impl, model, mode, scale, numeric_ok):
    """returns (first differing op index or None, bit_identical_numeric_lines, numeric_lines)"""
    ident = tot = 0
    if len(impl) != len(model):
        return min(len(impl), len(model)), 0, 0
    for k, (a, b) in enumerate(zip(impl, model)):
        if is_numeric(a):
            tot += 1
            if a.split() == b.split():
                ident += 1
                continue
            if mode == "rat" and not numeric_ok:
                # structure (widths, null pattern, defect) is still compared exactly
                ta, tb = a.split(), b.split()
                if len(ta) != len(tb) or any((x != y) for x, y in zip(ta, tb) if not is_hex(x)):
                    return k, ident, tot
                continue
            if not lines_equal(a, b, rtol=1e-8 if mode == "rat" else 1e-9, atol=1e-9 * scale if mode == "rat" else 1e-11 * scale):
                return k, ident, tot
        else:
            if not lines_equal(a, b):
                return k, ident, tot
    return None, ident, tot


def build_cases(ctx, count_random, small):
    rng = ctx.rng
    pats = []
    corpus = ctx.verif / "corpus" / "C16"
    if corpus.exists():
        for f in sorted(corpus.glob("pat-*.json")):
            pats.append(json.loads(f.read_text()))
    pats += small
    for i in range(count_random):
        maxm, maxn = rng.choice([(6, 5), (12, 8), (25, 15), (40, 25)])
        gen = rng.choice([pat_random, pat_random, pat_banded, pat_banded, pat_disconnected, pat_special, pat_special])
        m, n, rows, kind = gen(rng, maxm, maxn)
        integer = rng.random() < 0.8
        p = valued(rng, m, n, rows, kind, integer=integer)
        if rng.random() < 0.1:
            p["overflow"] = True
        pats.append(p)
    for p in pats:
        p["rows"] = [[(int(c), v) for c, v in r] for r in p["rows"]]
    return pats


def eval_chunk(args):
    """run one chunk of patterns through harness, both model drivers and the oracle (picklable result)"""
    exe, drv, pats, seed, with_model = args
    rng = random.Random(seed)
    opss = [case_ops(p, rng) for p in pats]
    cases = [[l for _, l in ops] for ops in opss]
    impl, crashes = run_cases(exe, cases)
    if with_model:
        mflt, _ = run_cases(drv, cases, args=("float",))
        mrat, _ = run_cases(drv, cases, args=("rat",))
    res = []
    for i, p in enumerate(pats):
        r = {"fails": [], "dis": [], "info": {}, "ident": 0, "tot": 0, "tail": [l[:160] for l in impl[i][-8:]],
             "refused": "refused" in [l for l, _ in opss[i]], "default_tol": "choldec0" in cases[i]}
        res.append(r)
        payload = {"stream": "sparse", "pattern": p, "ops": cases[i]}
        if i in crashes:
            r["fails"].append(("harness crashed (sanitizer / abort)", payload, "c16_sparse", crashes[i][1]))
            continue
        if len(impl[i]) != len(cases[i]):
            r["fails"].append(("harness produced %d lines for %d ops" % (len(impl[i]), len(cases[i])), payload, "c16_sparse", ""))
            continue
        orc = Oracle(p, opss[i], impl[i])
        try:
            orc.run()
        except Exception as e:                      # malformed output is a finding, not a crash of the check
            orc.bad(f"oracle could not read the implementation's output: {e!r}", "c16_sparse")
        for what, site in orc.problems:
            r["fails"].append((what, payload, site, ""))
        info = r["info"] = {k: (float(v) if isinstance(v, Fr) else v) for k, v in orc.info.items()}
        if not with_model:
            continue
        scale = 1.0 + max([abs(v) for row in p["rows"] for _, v in row], default=0.0) ** 2 * max(1, p["m"])
        k, ident, tot = compare_case(impl[i], mflt[i], "float", scale, True)
        r["ident"], r["tot"] = ident, tot
        if k is not None:
            r["dis"].append(("sparse/float", {"pattern": p, "op": cases[i][k] if k < len(cases[i]) else None},
                             impl[i][k:k + 1], mflt[i][k:k + 1], f"op #{k}"))
        numeric_ok = p["integer"] and not info.get("ambiguous") and "defect" in info
        k, _, _ = compare_case(impl[i], mrat[i], "rat", scale, numeric_ok)
        if k is not None:
            r["dis"].append(("sparse/rat", {"pattern": p, "op": cases[i][k] if k < len(cases[i]) else None},
                             impl[i][k:k + 1], mrat[i][k:k + 1], f"op #{k}"))
    return res


def run_stream(ctx, corr, pats, with_model=True):
    exe = ctx.build_cpp("c16_sparse", [ctx.verif / "harness" / "c16_sparse.cpp"])
    drv = ctx.driver("drv_sparse")
    size = 200
    chunks = [pats[k:k + size] for k in range(0, len(pats), size)]
    jobs = [(exe, drv, ch, ctx.rng.getrandbits(48), with_model) for ch in chunks]
    if len(jobs) > 1:
        from concurrent.futures import ProcessPoolExecutor
        with ProcessPoolExecutor(max_workers=min(14, len(jobs))) as ex:
            results = list(ex.map(eval_chunk, jobs))
    else:
        results = [eval_chunk(j) for j in jobs]
    n = 0
    for ch, rs in zip(chunks, results):
        for p, r in zip(ch, rs):
            nnz = sum(len(row) for row in p["rows"])
            nontrivial = p["n"] >= 2 and any(len(row) >= 2 for row in p["rows"])
            key = json.dumps([p["m"], p["n"], p["rows"]]) if nontrivial else None
            corr.case(key=key, sample={"pattern": p, "impl": r["tail"]} if n < 2 and nnz else None)
            n += 1
            corr.count("kind:" + p["kind"].split("+")[0])
            corr.count("size:%s" % ("<=4x4" if p["m"] <= 4 and p["n"] <= 4 else "<=12x8" if p["m"] <= 12 and p["n"] <= 8 else "<=40x25"))
            for what, payload, site, detail in r["fails"]:
                corr.fail(what, payload, site=site, detail=detail)
            for stream, case, im, mo, why in r["dis"]:
                corr.disagree(stream, case, im, mo, why=why)
            info = r["info"]
            if info.get("components", 1) > 1:
                corr.count("disconnected_graphs")
            if info.get("defect"):
                corr.count("rank_deficient")
            if info.get("ambiguous"):
                corr.count("rejected_ambiguous_rank")
            if r["refused"]:
                corr.count("capacity_refusals")
            if r["default_tol"]:
                corr.count("default_tolerance_cases")
            if p.get("repeated"):
                corr.count("rows_with_repeated_index_cases")
            if "grow_split" in info:
                corr.count("grow_cases")
                if info["grow_split"] >= 1 and p["m"] > info["grow_split"]:
                    corr.count("grow_cases_rows_on_both_sides")
                    corr.count("grow_kind:" + p["kind"].split("+")[0])
            if p["n"] == 0:
                corr.count("no_columns_cases")
            if p["m"] == 0:
                corr.count("no_rows_cases")
            corr.count("numeric_lines", r["tot"])
            corr.count("numeric_lines_bit_identical", r["ident"])


def gkf_regressions(ctx, corr):
    """inputs that used to overrun buffers in the sparse kernels (F13, F17), through gama-local under ASan/UBSan"""
    files = sorted((ctx.verif / "corpus" / "C16").glob("*.gkf"))
    if not files:
        return
    d = ctx.build_gama(sanitize=True, targets=("gama-local",))
    for f in files:
        rc, out, err = sh([str(d / "gama-local"), str(f), "--text", "/dev/null"], timeout=120)
        corr.count("gkf_regression_runs")
        if rc in (86, 87) or rc < 0 or "Sanitizer" in err or "runtime error" in err:
            corr.fail(f"gama-local {f.name}: sanitizer report / abnormal termination (rc={rc})",
                      {"stream": "gkf", "file": str(f)}, site="gama-local", detail=err[-3000:])


def dense_stream(ctx, corr, pats):
    """the Lean dense reference (model side) against the python oracle, at Rat"""
    cases, keep = [], []
    for p in pats:
        if not p["integer"] or p["n"] == 0 or p["n"] > 10:
            continue
        ops = [l for lab, l in case_ops(dict(p, style="plain"), random.Random(0)) if lab in ("new", "row", "add", "rep", "graph", "rcm")]
        ops.append(f"dense {hx(TOL)}")
        cases.append(ops); keep.append(p)
    if not cases:
        return
    out, _ = run_cases(ctx.driver("drv_sparse"), cases, args=("rat",))
    for p, o in zip(keep, out):
        n = p["n"]
        t = o[-1].split() if o else []
        if not t or t[0] != "dense":
            corr.disagree("dense-reference", p, [], o[-1:], why="no dense line")
            continue
        rl = next(l for l in o if l.startswith("perm"))
        tt = rl.split(); iv = tt.index("invp"); invp = [0] + list(map(int, tt[iv + 1:]))
        N = [[Fr(0)] * n for _ in range(n)]
        for row in p["rows"]:
            for c1, v1 in row:
                for c2, v2 in row:
                    N[invp[c1] - 1][invp[c2] - 1] += Fr(v1) * Fr(v2)
        L, D, defect = dense_ldl(N, n)
        if any(0 < abs(d) < Fr(1, 10**6) for d in D):
            continue
        Z = dense_inverse(L, D, n)
        iN, iL, iD, iZ = t.index("N"), t.index("L"), t.index("D"), t.index("Z")
        got = {"N": t[iN + 1:iL], "L": t[iL + 1:iD], "D": t[iD + 1:iZ], "Z": t[iZ + 1:]}
        exp = {"N": [N[i][j] for i in range(n) for j in range(i + 1)],
               "L": [L[i][j] for i in range(n) for j in range(i)],
               "D": D, "Z": [Z[i][j] for i in range(n) for j in range(i + 1)]}
        corr.count("dense_reference_cases")
        for kx in "NLDZ":
            if [Fr(x) for x in got[kx]] != list(exp[kx]) or int(t[3]) != defect:
                corr.disagree("dense-reference", p, [str(exp[kx][:6])], [str(got[kx][:6])], why=f"Lean Dense.{kx} vs python oracle")
                break


def correspond(ctx, corr):
    small = all_small_patterns(4, 4) if ctx.thorough else all_small_patterns(4, 3)
    if not ctx.thorough:
        small = ctx.rng.sample(small, 400)
        for _ in range(200):                         # a sample of the 4-column patterns (exhaustive in thorough)
            m = ctx.rng.randint(1, 4)
            rows = [[(c, ((r * 3 + c * 5) % 5) - 2 or 3) for c in range(1, 5) if ctx.rng.random() < 0.5] for r in range(m)]
            small.append({"m": m, "n": 4, "rows": rows, "kind": "exhaustive", "integer": True})
    # matrices without columns / without rows (C16_no_columns, C16_no_rows; fix fb9ac93): always, in every tier
    have = {(p["m"], p["n"]) for p in small if p["m"] == 0 or p["n"] == 0}
    small += [{"m": m, "n": n, "rows": [[] for _ in range(m)], "kind": "exhaustive", "integer": True}
              for m in range(0, 5) for n in range(0, 5) if (m == 0 or n == 0) and (m, n) not in have]
    pats = build_cases(ctx, ctx.size(300, 2500), small)
    run_stream(ctx, corr, pats, with_model=True)
    gkf_regressions(ctx, corr)
    dense_stream(ctx, corr, pats[: ctx.size(300, 3000)])
    ev = corr.evaluations
    bd_stream(ctx, corr, ctx.size(240, 4000), with_model=True)
    if corr.stats.get("disconnected_graphs", 0) < 0.1 * ev:
        corr.inconclusive.append("fewer than 10% disconnected graphs")
    if corr.stats.get("rows_with_repeated_index_cases", 0) < 0.03 * ev and not ctx.thorough:
        corr.inconclusive.append("fewer than 3% cases with a repeated column index")
    if corr.stats.get("no_columns_cases", 0) < 5 or corr.stats.get("no_rows_cases", 0) < 5:
        corr.inconclusive.append("fewer than 5 matrices without columns / without rows")
    if corr.stats.get("grow_cases_rows_on_both_sides", 0) < 0.1 * ev:
        corr.inconclusive.append("fewer than 10% cases fill -> replicate(n,r,c) -> continue the fill with rows on both sides")
    if corr.stats.get("rank_deficient", 0) < 0.1 * ev:
        corr.inconclusive.append("fewer than 10% rank-deficient normal matrices")


# ------------------------------------------------------------------ BlockDiagonal / UpperBlockDiagonal (stream bdchol)
#
# A layout (JSON friendly, numbers as strings of exact fractions) is
#   {"name", "blcks", "floats", "tol": "default" | "<fraction>", "refused": [[position, op line], ...],
#    "blocks": [{"dim", "width", "packed": [...], "U": [...] | None, "fam", "bad_row": r | None}]}
# `packed` is the band storage of the symmetric block (row by row), `U` the known exact factor in the same storage
# (for a block that is not positive definite: rows < bad_row of the factor, then the untouched Schur complement).

BD_SITE_CHOL, BD_SITE_ADD, BD_SITE_UPPER = "BlockDiagonal::cholDec", "BlockDiagonal::add_block", "UpperBlockDiagonal"
BD_DIAG_EXACT = [Fr(1), Fr(2), Fr(1, 2), Fr(4), Fr(1), Fr(2)]          # powers of two: every double operation is exact
BD_DIAG_ANY = [Fr(1), Fr(2), Fr(3), Fr(1, 2), Fr(3, 2), Fr(5, 2), Fr(5), Fr(3, 4), Fr(7), Fr(7, 2), Fr(11, 4), Fr(13, 8)]
BD_OFF_DYADIC = [Fr(k, q) for q in (1, 2, 4) for k in (-3, -2, -1, 1, 2, 3)]
BD_OFF_INT = [Fr(k) for k in (-3, -2, -1, 1, 2, 3)]
BD_DIAG_BITS = [Fr(19, 16), Fr(37, 32), Fr(7, 8), Fr(45, 32), Fr(3), Fr(11, 8)]   # doubles round in q = B[n]/pivot
BD_OFF_BITS = [Fr(k, 64) for k in range(-63, 64, 2)]
BD_INNER_FAMILIES = ("inner-zero", "xy", "offdiag1-zero", "schur-zero")


def bd_nfloats(d, w):
    return d * (w + 1) - w * (w + 1) // 2


def bd_pack(M, d, w):
    return [M[i][j] for i in range(d) for j in range(i, min(d, i + w + 1))]


def bd_unpack(v, d, w):
    """packed band rows -> dense d x d upper triangle (zero outside the band)"""
    M = [[Fr(0)] * d for _ in range(d)]
    k = 0
    for i in range(d):
        for j in range(i, min(d, i + w + 1)):
            M[i][j] = v[k]; k += 1
    return M


def bd_utu(U, d):
    return [[sum(U[k][i] * U[k][j] for k in range(min(i, j) + 1)) for j in range(d)] for i in range(d)]


def bd_families(d, w):
    fams = ["dense", "sparse", "dense-int", "dense-bits"]
    if w >= 1:
        fams.append("trailing-zeros")
    if d >= 3 and w >= 2:
        fams += ["inner-zero", "offdiag1-zero"]
    if d >= 4 and w >= 2:
        fams.append("schur-zero")
    if d in (4, 6) and w >= d // 2:
        fams.append("xy")
    return fams


def bd_gen_U(rng, d, w, fam, exact=False):
    """upper triangular U with band w, positive diagonal, small integers / dyadic rationals"""
    diag = BD_DIAG_EXACT if exact else (BD_DIAG_ANY if fam != "dense-int" else [Fr(1), Fr(2), Fr(3), Fr(4), Fr(5)])
    off = BD_OFF_INT if fam == "dense-int" else BD_OFF_DYADIC
    if fam == "dense-bits" and not exact:
        diag, off = BD_DIAG_BITS, BD_OFF_BITS
    U = [[Fr(0)] * d for _ in range(d)]
    for i in range(d):
        U[i][i] = rng.choice(diag)
    band = lambda i: range(i + 1, min(d, i + w + 1))
    if fam == "xy":                         # X1..Xm Y1..Ym, only Xi-Yi correlated
        m = d // 2
        for i in range(m):
            U[i][i + m] = rng.choice(off)
        return U
    pz = {"dense": 0.0, "dense-int": 0.0, "dense-bits": 0.1, "sparse": 0.4, "inner-zero": 0.3, "offdiag1-zero": 0.2, "schur-zero": 0.2,
          "trailing-zeros": 0.0}[fam]
    for i in range(d):
        for j in band(i):
            U[i][j] = Fr(0) if rng.random() < pz else rng.choice(off)
    if fam == "trailing-zeros":             # zeros only at the end of a pivot row (two uncoupled sub-blocks)
        for i in range(d):
            cut = rng.randint(i + 1, min(d, i + w + 1))
            for j in band(i):
                if j >= cut:
                    U[i][j] = Fr(0)
    if fam == "inner-zero":                 # a zero inside the band of a pivot row, a non-zero after it
        rows = [i for i in range(d) if len(band(i)) >= 2]
        for i in rng.sample(rows, rng.randint(1, len(rows))):
            js = list(band(i))
            z = rng.randrange(len(js) - 1)
            U[i][js[z]] = Fr(0)
            U[i][js[rng.randrange(z + 1, len(js))]] = rng.choice(off)
    if fam == "offdiag1-zero":              # the whole first off-diagonal of C vanishes, the second does not
        for i in range(d):
            if i + 1 < d:
                U[i][i + 1] = Fr(0)
            if i + 2 < d:
                U[i][i + 2] = rng.choice(off)
    if fam == "schur-zero":                 # C(2,3) != 0 but it is zero once row 1 has been eliminated
        for j in band(0):
            U[0][j] = rng.choice(off)
        U[1][2] = Fr(0)
        U[1][3] = rng.choice(off)
    return U


def bd_block(rng, d, w, fam):
    U = bd_gen_U(rng, d, w, fam)
    C = bd_utu(U, d)
    return {"dim": d, "width": w, "fam": fam, "packed": bd_pack(C, d, w), "U": bd_pack(U, d, w), "bad_row": None}


BD_FIXED_BAD = [   # (name, dim, width, packed C, bad row, expected buffer after the rejection)
    ("zero-variance", 1, 0, [0], 1, [0]),
    ("negative-variance", 1, 0, [-4], 1, [-4]),
    ("zero-variance-first-of-3", 3, 1, [0, 1, 4, 1, 4], 1, [0, 1, 4, 1, 4]),
    ("indefinite-2x2", 2, 1, [1, 2, 1], 2, [1, 2, -3]),
    ("singular-2x2", 2, 1, [4, 2, 1], 2, [2, 1, 0]),
    ("singular-3x3-ones", 3, 2, [1, 1, 1, 1, 1, 1], 2, [1, 1, 1, 0, 0, 0]),
    ("zero-variance-last", 3, 2, [4, 0, 2, 1, 0, 1], 3, [2, 0, 1, 1, 0, 0]),
]


def bd_bad_block(rng, d, w):
    """not positive definite: rows < r come from an exact factor, pivot r is 0 / negative / below the default tol"""
    if rng.random() < 0.35:
        name, d, w, C, r, ex = rng.choice(BD_FIXED_BAD)
        return {"dim": d, "width": w, "fam": "bad:" + name, "packed": [Fr(x) for x in C], "U": [Fr(x) for x in ex], "bad_row": r}
    r = rng.randint(1, d)
    s = rng.choice([Fr(0), Fr(0), Fr(-1), Fr(-3), Fr(-1, 2), Fr(-1, 4), Fr(1, 2 ** 50) if r == 1 else Fr(-2)])
    exact = s == 0                           # the exactly singular pivot must come out as exactly 0 in doubles
    U = bd_gen_U(rng, d, w, rng.choice(["dense", "sparse"]), exact=exact)
    for i in range(r - 1, d):
        U[i] = [Fr(0)] * d                    # only rows < r of the factor exist
    T = [[Fr(0)] * d for _ in range(d)]      # what is left when row r is reached
    for i in range(r - 1, d):
        for j in range(i, min(d, i + w + 1)):
            T[i][j] = T[j][i] = rng.choice(BD_OFF_DYADIC) if i != j else rng.choice(BD_DIAG_ANY)
    T[r - 1][r - 1] = s
    C = bd_utu(U, d)
    C = [[C[i][j] + T[i][j] for j in range(d)] for i in range(d)]
    ex = [[U[i][j] if i < r - 1 else T[i][j] for j in range(d)] for i in range(d)]
    kind = "zero" if s == 0 else "negative" if s < 0 else "tiny"
    return {"dim": d, "width": w, "fam": f"bad:{kind}-pivot", "packed": bd_pack(C, d, w), "U": bd_pack(ex, d, w), "bad_row": r}


def bd_layout(rng, blocks, name, tol="default", refusals=True):
    nb = len(blocks)
    total = sum(bd_nfloats(b["dim"], b["width"]) for b in blocks)
    lay = {"name": name, "blcks": nb + rng.choice([0, 0, 1, 2]), "floats": total + rng.choice([0, 0, 1, 4]),
           "tol": tol, "blocks": blocks, "refused": []}
    if refusals and rng.random() < 0.3:
        one = hx(1.0)
        kind = rng.choice(["table", "floats", "short", "negative-size", "after-replicate"])
        if kind == "table":
            lay["blcks"] = nb
            lay["refused"].append([nb, f"bdadd 1 0 {one}"])
        elif kind == "floats":
            lay["blcks"] = nb + 1
            lay["floats"] = total + rng.choice([0, 1, 2])
            lay["refused"].append([nb, f"bdadd 2 1 {one} {one} {one}"])
        elif kind == "short":               # too few elements for memcpy
            lay["blcks"], lay["floats"] = nb + 1, total + 8
            lay["refused"].append([rng.randint(0, nb), f"bdadd 3 1 {one} {one} {one} {one}"])
        elif kind == "negative-size":       # bdim*(bwidth+1) - bwidth*(bwidth+1)/2 < 0
            lay["blcks"], lay["floats"] = nb + 1, total + 8
            lay["refused"].append([rng.randint(0, nb), f"bdadd 1 3 {one} {one} {one} {one}"])
        else:
            lay["refused"].append(["rep", f"bdadd 1 0 {one}"])
    return lay


def bd_generate(ctx, count):
    """corpus + fixed + one block per (dim, width) and family + random multi-block layouts"""
    rng = ctx.rng
    lays = []
    for f in sorted((ctx.verif / "corpus" / "C16").glob("bd-*.json")):
        j = json.loads(f.read_text())
        j.setdefault("name", f.stem)
        lays.append(bd_from_json(j))
    lays.append({"name": "empty-0-0", "blcks": 0, "floats": 0, "tol": "default", "blocks": [], "refused": []})
    lays.append({"name": "empty-roomy", "blcks": 3, "floats": 10, "tol": "default", "blocks": [], "refused": []})
    lays.append({"name": "empty-full-table", "blcks": 0, "floats": 4, "tol": "default", "blocks": [],
                 "refused": [[0, f"bdadd 1 0 {hx(1.0)}"]]})
    for nb in (1, 2, 5):
        lays.append(bd_layout(rng, [bd_block(rng, 1, 0, "dense") for _ in range(nb)], f"dim1-x{nb}", refusals=False))
    for name, d, w, C, r, ex in BD_FIXED_BAD:
        bad = {"dim": d, "width": w, "fam": "bad:" + name, "packed": [Fr(x) for x in C], "U": [Fr(x) for x in ex], "bad_row": r}
        for pos in (0, 1, 2):                # rejected block first / in the middle / last
            bl = [bd_block(rng, rng.randint(1, 5), 0, "dense") for _ in range(2)]
            bl[1] = bd_block(rng, 3, 2, "inner-zero")
            bl.insert(pos, bad)
            lays.append(bd_layout(rng, bl, f"fixed-{name}-at{pos + 1}"))
    for d in range(1, 8):                    # EVERY band width of every dimension, every family that fits
        for w in range(d):
            for fam in bd_families(d, w):
                lays.append(bd_layout(rng, [bd_block(rng, d, w, fam)], f"single-{d}-{w}-{fam}", refusals=False))
    for i in range(count):
        nb = rng.choice([1, 2, 2, 3, 3, 4, 5])
        blocks = []
        for _ in range(nb):
            d = rng.choice([1, 2, 3, 3, 4, 4, 5, 6, 7])
            w = rng.randint(0, d - 1)
            blocks.append(bd_block(rng, d, w, rng.choice(bd_families(d, w))))
        if i % 2 == 0:                       # quota: every other layout has a block of an inner-zero family
            d = rng.choice([3, 4, 4, 5, 6, 7])
            w = rng.randint(2, d - 1)
            fam = rng.choice([f for f in bd_families(d, w) if f in BD_INNER_FAMILIES])
            blocks[rng.randrange(nb)] = bd_block(rng, d, w, fam)
        tol = rng.choice(["default"] * 6 + [Fr(1e-14), Fr(1e-10), Fr(0.3), Fr(0.3)])
        if i % 4 == 1:                       # a block that is not positive definite: first / middle / last
            pos = rng.choice([0, nb // 2, nb - 1])
            d = rng.randint(1, 6)
            blocks[pos] = bd_bad_block(rng, d, rng.randint(0, d - 1))
        lays.append(bd_layout(rng, blocks, f"random-{i}", tol=tol))
    return lays


def bd_to_json(lay):
    f = lambda v: None if v is None else [str(x) for x in v]
    return dict(lay, tol=str(lay["tol"]), blocks=[dict(b, packed=f(b["packed"]), U=f(b.get("U"))) for b in lay["blocks"]])


def bd_from_json(j):
    f = lambda v: None if v is None else [Fr(x) for x in v]
    blocks = [dict(b, packed=f(b["packed"]), U=f(b.get("U")), fam=b.get("fam", "corpus"), bad_row=b.get("bad_row"))
              for b in j["blocks"]]
    total = sum(bd_nfloats(b["dim"], b["width"]) for b in blocks)
    tol = j.get("tol", "default")
    return {"name": j.get("name", "?"), "blcks": j.get("blcks", len(blocks)), "floats": j.get("floats", total),
            "tol": tol if tol == "default" else Fr(tol), "blocks": blocks, "refused": j.get("refused", [])}


def bd_hex(v):
    x = float(v)
    assert Fr(x) == v, f"{v} is not a double"
    return hx(x)


def bd_ops(lay):
    ops = [f"bdnew {lay['blcks']} {lay['floats']}"]
    ref = lay.get("refused", [])
    for k, b in enumerate(lay["blocks"]):
        ops += [l for pos, l in ref if pos == k]
        ops.append(f"bdadd {b['dim']} {b['width']} " + " ".join(bd_hex(v) for v in b["packed"]))
    ops += [l for pos, l in ref if pos == len(lay["blocks"])]
    ops += ["bddump", "bdreplicate"]
    ops += [l for pos, l in ref if pos == "rep"]
    ops += ["bddump", "bdupper", "bdchol " + ("default" if lay["tol"] == "default" else bd_hex(lay["tol"])), "bddump", "bdupper"]
    return ops


def bd_sqrt(q):
    """exact square root of a square of a rational, else None"""
    import math
    if q < 0:
        return None
    a, b = math.isqrt(q.numerator), math.isqrt(q.denominator)
    return Fr(a, b) if a * a == q.numerator and b * b == q.denominator else None


def bd_is_pow4(q):
    n, d = q.numerator, q.denominator
    for x in (n, d):
        if x & (x - 1) or (x.bit_length() - 1) % 2:
            return False
    return q > 0


def bd_dense_chol(C, d, w, tol):
    """independent dense right-looking Cholesky U'U in exact arithmetic, stopped at the first pivot < tol.
       returns (rejected row or 0, packed result, flags)"""
    A = bd_unpack(C, d, w)
    for i in range(d):
        for j in range(i):
            A[i][j] = A[j][i]
    scale = max([Fr(1)] + [abs(x) for x in C])
    flags = set()
    exact_so_far = True                      # all pivots so far are powers of 4: the double computation is exact
    for r in range(d):
        p = A[r][r]
        if abs(p - tol) <= Fr(1, 10 ** 9) * scale and not (exact_so_far and abs(p - tol) > Fr(1, 10 ** 15)):
            flags.add("ambiguous")
        if p < tol:
            return r + 1, bd_pack(A, d, w), flags
        s = bd_sqrt(p)
        if s is None:
            flags.add("inexact")
            return -1, None, flags
        exact_so_far = exact_so_far and bd_is_pow4(p)
        for j in range(r, d):
            A[r][j] = A[r][j] / s
        A[r][r] = s
        for i in range(r + 1, d):
            for j in range(i, d):
                A[i][j] -= A[r][i] * A[r][j]
                A[j][i] = A[i][j]
        for j in range(r):
            A[r][j] = Fr(0)
    for i in range(d):
        for j in range(i + w + 1, d):
            if A[i][j] != 0:
                flags.add("fill-outside-band")
    return 0, bd_pack(A, d, w), flags


def bd_inner_zero_kinds(C, U, d, w):
    """pivot rows of the factor with an exact zero inside the band that is followed by a non-zero"""
    MC, MU = bd_unpack(C, d, w), bd_unpack(U, d, w)
    kinds = set()
    for i in range(d):
        js = list(range(i + 1, min(d, i + w + 1)))
        for a, j in enumerate(js):
            if MU[i][j] == 0 and any(MU[i][k] != 0 for k in js[a + 1:]):
                kinds.add("in-C" if MC[i][j] == 0 else "after-elimination")
    return kinds


class BdOracle:
    """exact interpreter of the bd operation lines; compares what the implementation (or the Rat model) printed"""

    def __init__(self, ops, out, known=None, exact_out=False):
        self.ops, self.out, self.known, self.exact_out = ops, out, known, exact_out
        self.problems, self.info = [], {"inner": set(), "factored_blocks": 0, "rejected": 0, "refused": 0,
                                        "ambiguous": False, "inexact": False, "max_dev": 0.0}

    def bad(self, what, site):
        self.problems.append((what, site))

    def num_ok(self, tok, q, scale):
        if self.exact_out:                   # Rat model: equality
            try:
                return Fr(tok) == q
            except (ValueError, ZeroDivisionError):
                return False
        if not is_hex(tok):
            return False
        x = hex2float(tok)
        if x != x or abs(x) == float("inf"):
            return False
        dev = abs(Fr(x) - q)
        self.info["max_dev"] = max(self.info["max_dev"], float(dev / max(scale, abs(q))))
        return dev <= Fr(1, 10 ** 12) * max(scale, abs(q))

    def run(self):
        st = None          # {"blcks","floats","blocks":[{"d","w","in":[tokens],"val":[Fr],"state":"input"|"factored"|"partial","scale"}]}
        for k, (op, line) in enumerate(zip(self.ops, self.out)):
            t, o = op.split(), line.split()
            if t[0] == "bdnew":
                st = {"blcks": int(t[1]), "floats": int(t[2]), "blocks": []}
                if line != "ok":
                    self.bad(f"op #{k} {t[0]}: answered {line!r}", "BlockDiagonal::BlockDiagonal")
            elif t[0] == "bdadd":
                d, w, es = int(t[1]), int(t[2]), t[3:]
                N = bd_nfloats(d, w)
                used = sum(len(b["val"]) for b in st["blocks"])
                can = len(st["blocks"]) < st["blcks"] and 0 <= N <= len(es) and used + N <= st["floats"]
                if line != ("ok" if can else "refused"):
                    self.bad(f"op #{k} bdadd {d} {w}: answered {line!r}, expected {'ok' if can else 'refused'}", BD_SITE_ADD)
                    return
                if can:
                    vals = [Fr(hex2float(x)) for x in es[:N]]
                    st["blocks"].append({"d": d, "w": w, "in": es[:N], "val": vals, "state": "input",
                                         "scale": max([Fr(1)] + [abs(v) for v in vals])})
                else:
                    self.info["refused"] += 1
            elif t[0] == "bdreplicate":
                if line != "ok":
                    self.bad(f"op #{k} bdreplicate: answered {line!r}", "BlockDiagonal::replicate")
                st["blcks"], st["floats"] = len(st["blocks"]), sum(len(b["val"]) for b in st["blocks"])
            elif t[0] == "bddump":
                if not self.check_dump(k, o, st):
                    return
            elif t[0] == "bdupper":
                size = sum(b["d"] for b in st["blocks"])
                rows, off = [], 0
                for b in st["blocks"]:
                    for i in range(1, b["d"] + 1):
                        n = min(b["w"] + 1, b["d"] - i + 1)
                        rows += [off, off + n]; off += n
                if o != ["upper", str(size), "rows"] + [str(x) for x in rows]:
                    self.bad(f"op #{k} bdupper: row table is not the packed row starts / ends "
                             f"(lengths min(width+1, dim-i+1)) of the blocks", BD_SITE_UPPER)
                    return
            elif t[0] == "bdchol":
                tol = Fr(1, 10 ** 14) if t[1] == "default" else Fr(hex2float(t[1]))
                want = 0
                for bi, b in enumerate(st["blocks"], 1):
                    if b["state"] != "input":
                        self.info["inexact"] = True      # factoring twice: not a square any more in general
                    r, res, flags = bd_dense_chol(b["val"], b["d"], b["w"], tol)
                    if "ambiguous" in flags:
                        self.info["ambiguous"] = True
                    if "inexact" in flags:
                        self.info["inexact"] = True
                    if "fill-outside-band" in flags:
                        self.bad("ORACLE: dense factor has fill outside the band", "oracle")
                    if self.info["ambiguous"] or self.info["inexact"]:
                        break
                    kn = (self.known or {}).get(bi - 1)
                    if kn is not None:
                        kr = kn["bad_row"] or 0
                        if r == kr and kn["U"] != res or r != kr and (r == 0 or 0 < kr < r):
                            self.bad(f"ORACLE: generator's factor of block {bi} differs from the exact dense Cholesky", "oracle")
                        elif r != kr:                    # a positive pivot below an explicit (large) tolerance
                            self.info["tol_rejections"] = 1
                    if r == 0:
                        self.info["inner"] |= bd_inner_zero_kinds(b["val"], res, b["d"], b["w"])
                        self.info["factored_blocks"] += 1
                        b["C"], b["val"], b["state"] = b["val"], res, "factored"
                    else:
                        b["C"], b["val"], b["state"], b["row"] = b["val"], res, "partial", r
                        self.info["rejected"] = bi
                        want = bi
                        break
                if self.info["ambiguous"] or self.info["inexact"]:
                    return                               # nothing exact to compare with from here on
                if o != ["int", str(want)]:
                    self.bad(f"op #{k} cholDec returned {line!r}, the first block with a pivot < tol is {want} "
                             f"(0 = all positive definite)", BD_SITE_CHOL)
                    return
            else:
                self.bad(f"op #{k}: unknown operation {t[0]!r}", "c16_sparse")
                return

    def check_dump(self, k, o, st):
        bl = st["blocks"]
        ncnt = sum(len(b["val"]) for b in bl)
        begins, off = [0], 0
        for b in bl:
            off += bd_nfloats(b["d"], b["w"]); begins.append(off)
        head = (["bd", str(len(bl)), str(ncnt), str(sum(b["d"] for b in bl)), "dim"] + [str(b["d"]) for b in bl]
                + ["width"] + [str(b["w"]) for b in bl] + ["begin"] + [str(x) for x in begins] + ["nonz"])
        if o[:len(head)] != head or len(o) != len(head) + ncnt:
            self.bad(f"op #{k} bddump: blocks/ncnt/size/dim/width/begin are not the running sums of "
                     f"dim*(width+1)-width*(width+1)/2 over the added blocks", BD_SITE_ADD)
            return False
        vals = o[len(head):]
        pos = 0
        for bi, b in enumerate(bl, 1):
            got = vals[pos:pos + len(b["val"])]; pos += len(b["val"])
            if b["state"] == "input":
                same = all(Fr(x) == v for x, v in zip(got, b["val"])) if self.exact_out else got == b["in"]
                if not same:
                    after = self.info["rejected"] and bi > self.info["rejected"]
                    self.bad(f"op #{k} bddump: block {bi} is not the block that was added"
                             + (" (blocks after the rejected one must be untouched)" if after else ""),
                             BD_SITE_CHOL if after else BD_SITE_ADD)
                    return False
            else:
                if not all(self.num_ok(x, q, b["scale"]) for x, q in zip(got, b["val"])):
                    what = ("differs from the exact Cholesky factor U (C = U'U)" if b["state"] == "factored" else
                            f"(rejected at row {b['row']}) differs from: rows < {b['row']} of the factor, then the Schur complement")
                    self.bad(f"op #{k} bddump: block {bi} (dim {b['d']}, width {b['w']}) {what}", BD_SITE_CHOL)
                    return False
        return True


def bd_scale(lay):
    return float(max([Fr(1)] + [abs(v) for b in lay["blocks"] for v in b["packed"]]))


BD_CRASH_SITE = {"bdnew": "BlockDiagonal::BlockDiagonal", "bdadd": BD_SITE_ADD, "bdreplicate": "BlockDiagonal::replicate",
                 "bdchol": BD_SITE_CHOL, "bdupper": BD_SITE_UPPER}


def bd_crash_op(exe, ops):
    """index of the first operation whose execution kills the harness"""
    dies = lambda n: bool(run_cases(exe, [ops[:n]])[1])
    if not dies(len(ops)):
        return None
    lo, hi = 0, len(ops)                     # ops[:lo] survives, ops[:hi] dies
    while hi - lo > 1:
        mid = (lo + hi) // 2
        lo, hi = (lo, mid) if dies(mid) else (mid, hi)
    return hi - 1


def bd_eval(exe, drv, lays, with_model=True):
    cases = [bd_ops(l) for l in lays]
    impl, crashes = run_cases(exe, cases)
    mflt = mrat = None
    if with_model:
        mflt, _ = run_cases(drv, cases, args=("float",))
        mrat, _ = run_cases(drv, cases, args=("rat",))
    res, located = [], 0
    for i, lay in enumerate(lays):
        r = {"fails": [], "dis": [], "info": {}, "tail": [l[:200] for l in impl[i][-3:]]}
        res.append(r)
        payload = {"stream": "bdchol", "ops": cases[i], "layout": bd_to_json(lay)}
        if i in crashes:
            what, site = "harness crashed (sanitizer / abort)", "BlockDiagonal"
            if located < 2:                  # which operation?  (stdout of the dying process is lost: bisect on prefixes)
                located += 1
                k = bd_crash_op(exe, cases[i])
                if k is not None:
                    what += f" in op #{k} {cases[i][k].split()[0]}"
                    site = BD_CRASH_SITE.get(cases[i][k].split()[0], site)
            r["fails"].append((what, payload, site, crashes[i][1]))
            continue
        if len(impl[i]) != len(cases[i]):
            r["fails"].append(("harness produced %d lines for %d ops" % (len(impl[i]), len(cases[i])), payload, "c16_sparse", ""))
            continue
        known = {k: b for k, b in enumerate(lay["blocks"]) if b.get("U") is not None}
        orc = BdOracle(cases[i], impl[i], known)
        try:
            orc.run()
        except Exception as e:
            orc.bad(f"oracle could not read the implementation's output: {e!r}", "c16_sparse")
        for what, site in orc.problems:
            r["fails"].append((what, payload, site, ""))
        r["info"] = orc.info
        if not with_model:
            continue
        atol = 1e-12 * bd_scale(lay)
        for mode, mo in (("float", mflt[i]), ("rat", mrat[i])):
            if mode == "rat" and (orc.info["ambiguous"] or orc.info["inexact"]):
                continue
            bad = next((k for k in range(max(len(impl[i]), len(mo)))
                        if k >= len(impl[i]) or k >= len(mo) or not lines_equal(impl[i][k], mo[k], rtol=1e-9, atol=atol)), None)
            if bad is not None:
                r["dis"].append((f"bdchol/{mode}", {"ops": cases[i], "op": cases[i][bad] if bad < len(cases[i]) else None},
                                 impl[i][bad:bad + 1], mo[bad:bad + 1], f"op #{bad}"))
        if not (orc.info["ambiguous"] or orc.info["inexact"]) and len(mrat[i]) == len(cases[i]):
            mor = BdOracle(cases[i], mrat[i], known, exact_out=True)   # the Rat model must give U EXACTLY
            try:
                mor.run()
            except Exception as e:
                mor.bad(f"unreadable output: {e!r}", "model")
            for what, site in mor.problems:
                r["fails"].append(("model (drv_sparse rat): " + what, payload, "model:" + site, ""))
    return res


def bd_fails(exe, lay, site):
    r = bd_eval(exe, None, [lay], with_model=False)[0]
    return any(s == site for _, _, s, _ in r["fails"])


def bd_shrink(exe, lay, site):
    """fewest blocks on which the oracle still fails at the same site"""
    try:
        idx = ddmin(list(range(len(lay["blocks"]))),
                    lambda ix: bd_fails(exe, dict(lay, blocks=[lay["blocks"][k] for k in ix], refused=[],
                                                  blcks=len(ix), floats=sum(len(lay["blocks"][k]["packed"]) for k in ix)), site),
                    max_tests=40)
        small = dict(lay, blocks=[lay["blocks"][k] for k in idx], refused=[], blcks=len(idx),
                     floats=sum(len(lay["blocks"][k]["packed"]) for k in idx), name=lay["name"] + "-shrunk")
        if len(idx) < len(lay["blocks"]) and bd_fails(exe, small, site):
            return small
    except Exception:
        pass
    return None


def bd_stream(ctx, corr, count, with_model=True):
    exe = ctx.build_cpp("c16_sparse", [ctx.verif / "harness" / "c16_sparse.cpp"])
    drv = ctx.driver("drv_sparse")
    lays = bd_generate(ctx, count)
    res = bd_eval(exe, drv, lays, with_model)
    shapes, shrunk, inner_cases, sampled = set(), False, 0, False
    for lay, r in zip(lays, res):
        nontrivial = any(b["width"] >= 1 for b in lay["blocks"])
        key = json.dumps(["bd", [[b["dim"], b["width"], [str(v) for v in b["packed"]]] for b in lay["blocks"]], str(lay["tol"])])
        take = not sampled and len(lay["blocks"]) >= 2
        sampled = sampled or take
        corr.case(key=key if nontrivial else None, sample={"bd_layout": bd_to_json(lay), "impl": r["tail"]} if take else None)
        info = r["info"]
        corr.count("bd_cases")
        corr.count("bd_blocks", len(lay["blocks"]))
        corr.count("bd_blocks_factored", info.get("factored_blocks", 0))
        for b in lay["blocks"]:
            shapes.add((b["dim"], b["width"]))
        if info.get("inner"):
            inner_cases += 1
            corr.count("bd_inner_zero_cases")
            for kd in sorted(info["inner"]):
                corr.count("bd_inner_zero_cases:" + kd)
        if info.get("rejected"):
            nb = len(lay["blocks"])
            corr.count("bd_rejected_block_cases")
            corr.count("bd_rejected:" + ("only" if nb == 1 else "first" if info["rejected"] == 1 else
                                         "last" if info["rejected"] == nb else "middle"))
        if info.get("refused"):
            corr.count("bd_capacity_refusals", info["refused"])
        if lay["tol"] != "default":
            corr.count("bd_explicit_tol_cases")
        if info.get("ambiguous") or info.get("inexact"):
            corr.count("bd_ambiguous_or_inexact_cases")
        if info.get("tol_rejections"):
            corr.count("bd_positive_pivot_below_explicit_tol_cases")
        corr.maxstat("bd_max_rel_dev_from_exact_factor", info.get("max_dev", 0.0))
        for what, payload, site, detail in r["fails"]:
            if not shrunk and not site.startswith("model") and site != "oracle":
                shrunk = True
                small = bd_shrink(exe, lay, site)
                if small is not None:
                    rs = bd_eval(exe, None, [small], with_model=False)[0]
                    for w2, p2, s2, d2 in rs["fails"][:1]:
                        corr.fail(w2, dict(p2, shrunk_from=lay["name"]), site=s2, detail=d2)
            corr.fail(what, payload, site=site, detail=detail)
        for stream, case, im, mo, why in r["dis"]:
            corr.disagree(stream, case, im, mo, why=why)
    corr.stats["bd_shapes_dim_width_covered"] = len(shapes)
    corr.stats.setdefault("bd_max_rel_dev_from_exact_factor", 0.0)
    want_shapes = {(d, w) for d in range(1, 8) for w in range(d)}
    if not want_shapes <= shapes:
        corr.inconclusive.append("bdchol: not every (dim, band width) with dim <= 7 was exercised")
    if inner_cases < 0.3 * len(lays):
        corr.inconclusive.append("bdchol: fewer than 30% layouts with an exact zero inside the band of a pivot row "
                                 "followed by a non-zero")
    if corr.stats.get("bd_inner_zero_cases:after-elimination", 0) < 0.05 * len(lays):
        corr.inconclusive.append("bdchol: fewer than 5% layouts with an inner zero that appears only after elimination")
    if corr.stats.get("bd_rejected_block_cases", 0) < 0.1 * len(lays):
        corr.inconclusive.append("bdchol: fewer than 10% layouts with a block that is not positive definite")
    if corr.stats.get("bd_ambiguous_or_inexact_cases", 0):
        corr.inconclusive.append("bdchol: the generator produced a numerically ambiguous / inexact layout")


# ------------------------------------------------------------------ search / classify / replay

def search(ctx, broken, corr):
    """something broke and the always-on oracle saw nothing: look harder on the implementation only"""
    c2 = Corr()
    pats = build_cases(ctx, 1500, all_small_patterns())
    run_stream(ctx, c2, pats, with_model=False)
    fails = c2.failures
    if fails:
        f = fails[0]
        f.replay = shrink(ctx, f)
    c3 = Corr()
    bd_stream(ctx, c3, 3000, with_model=False)          # failures of this stream arrive shrunk (bd_shrink)
    return fails[:3] + c3.failures[:3]


def fails_same(ctx, pattern, what):
    c = Corr()
    run_stream(ctx, c, [pattern], with_model=False)
    return any(f.what.split(" = ")[0][:40] == what.split(" = ")[0][:40] for f in c.failures)


def shrink(ctx, failure):
    p = failure.replay.get("pattern")
    if not p:
        return failure.replay
    ents = [(r, c, v) for r, row in enumerate(p["rows"]) for c, v in row]
    def rebuild(es):
        rows = [[] for _ in range(p["m"])]
        for r, c, v in es:
            rows[r].append((c, v))
        return dict(p, rows=rows)
    try:
        small = ddmin(ents, lambda es: fails_same(ctx, rebuild(es), failure.what), max_tests=60)
        q = rebuild(small)
        q["rows"] = [r for r in q["rows"] if r] or [[]]
        q["m"] = len(q["rows"])
        if not fails_same(ctx, q, failure.what):
            q = rebuild(small)
        return {"stream": "sparse", "pattern": q, "ops": [l for _, l in case_ops(q, random.Random(0))], "shrunk": True}
    except Exception:
        return failure.replay


def classify(ctx, failure):
    # F16 (first pivot never tested by Envelope::cholDec) was fixed in /repo (a4c88cc); its inputs stay in
    # corpus/C16/pat-f16-*.json as regression cases and are ordinary violations if they ever fail again.
    return None


def explained_by_known(ctx, broken_item, matched_ids):
    return False


def replay(ctx, payload):
    f = payload.get("failure") or {}
    inp = f.get("input") or {}
    print(json.dumps({k: f.get(k) for k in ("what", "site")}, indent=1))
    if "file" in inp:
        c = Corr()
        gkf_regressions(ctx, c)
        for x in c.failures:
            print("STILL FAILS:", x.what)
        return 1 if c.failures else 0
    if inp.get("stream") == "bdchol":
        exe = ctx.build_cpp("c16_sparse", [ctx.verif / "harness" / "c16_sparse.cpp"])
        if inp.get("layout"):
            r = bd_eval(exe, None, [bd_from_json(inp["layout"])], with_model=False)[0]
            problems = [(w, s) for w, _, s, _ in r["fails"]]
        else:                                           # operation lines only
            out, crashes = run_cases(exe, [inp["ops"]])
            orc = BdOracle(inp["ops"], out[0])
            if crashes:
                orc.bad("harness crashed (sanitizer / abort)", BD_SITE_CHOL)
            else:
                orc.run()
            problems = orc.problems
        for w, s in problems:
            print("STILL FAILS:", w, "@", s)
        return 1 if problems else 0
    if "pattern" in inp:
        c = Corr()
        run_stream(ctx, c, [inp["pattern"]], with_model=False)
        for x in c.failures:
            print("STILL FAILS:", x.what, "@", x.site)
        return 1 if c.failures else 0
    print(json.dumps(payload.get("no_longer_checks"), indent=1)[:4000])
    return 0
