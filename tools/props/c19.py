"""C19 — gama-g3 reproduces consistent global networks, independent of algorithm."""
import importlib.util
import tempfile

from lib.core import *

ID = "C19"
PROPS_FILES = ["Gama/Props/C19.lean"]
LEAN_TARGETS = ["Gama.Props.C19"]
DRIVERS = ["drv_g3"]
RULE = ("generated ECEF networks (tools/gen/c19_g3net.py): 3-7 points around a centre drawn from {generic, near either "
        "pole (1e-4..0.3 deg), a point exactly on the rotation axis, antimeridian (+-1e-6..1e-2 deg), equator, "
        "Greenwich}; n/e and u components fixed/free/constrained; vectors (single and multi-vector clusters, "
        "diagonal/banded/full covariances), xyz, distances, heights, height differences, angles; approximate "
        "coordinates displaced along the adjusted components; 15 % of the correspondence cases carry a gross error "
        "(rejection loop).  non-trivial = at least one adjusted point with displaced approximate coordinates; "
        "distinct by XML text")
TRUSTED = [
    "the line harness harness/c19_g3.cpp reads private members of g3::Point / g3::Model via '#define private public'",
    "tools/gen/c19_g3net.py: independent WGS84 conversions, frames, Jacobian and rank used as the oracle's reference",
]
MODELLED = [
    "the g3 XML parser (dataparser_g3.cpp), Model::update_init, the result writer "
    "(g3_model_write_xml_adjustment_results.cpp, Point::write_xml) and g3_adjres.cpp are exercised end-to-end only",
    "the solvers behind class Adj are C01-C04's theorems; here Adj is only run (4 algorithms) on the dumped equations",
    "Angle / ZenithAngle / Azimuth coefficients are not modelled in Lean (bookkeeping only); angles are covered by "
    "the end-to-end oracle, zenith angles and azimuths are not generated (azimuth input is rejected by the parser)",
    "Ellipsoid::xyz2blh (B, L, H of a point) is an input of the frame model (C18's subject)",
    "operator<< / istringstream>> of numbers: the round-trip theorem assumes rd (fmt x) = x; gama-g3 writes the dump "
    "with precision(16), which is not bit-faithful for every double (observed relative deviation <= 2e-16)",
    "libm sin/cos/sqrt, IEEE rounding",
]
ASSUMPTIONS = ["approximate coordinates within tol-abs (1 m) of the generating ones, second-order terms of distances / "
               "heights / angles below 1e-8 m (displacements <= 2 mm for those families)"]

TOL_XYZ = 1e-5          # the property's tolerance on adjusted coordinates [m]


def _gen():
    spec = importlib.util.spec_from_file_location("c19_g3net", str(VERIF / "tools" / "gen" / "c19_g3net.py"))
    m = importlib.util.module_from_spec(spec)
    spec.loader.exec_module(m)
    return m


def harness_sources(ctx):
    L = ctx.repo / "lib" / "gnu_gama"
    return ([ctx.verif / "harness" / "c19_g3.cpp"] + sorted((L / "g3").glob("*.cpp")) +
            [L / "xml" / f for f in ("dataparser.cpp", "dataparser_adj.cpp", "dataparser_g3.cpp", "dataparser_g3adj.cpp",
                                     "dataobject.cpp", "baseparser.cpp", "encoding.cpp", "encoding_cp1251.cpp",
                                     "encoding_unknown_handler.cpp")] +
            [L / "adj" / "adj.cpp", L / "adj" / "adj_input_data.cpp", L / "adj" / "icgs.cpp", L / "e3.cpp",
             L / "ellipsoid.cpp", L / "ellipsoids.cpp", L / "gon2deg.cpp", L / "latlong.cpp", L / "version.cpp"])


# ------------------------------------------------------------------ comparison model <-> implementation

def cmp_lines(impl, model, stat):
    """model token `skip` = the rest of the line is not modelled.  Returns None or a description."""
    if len(impl) != len(model):
        return "line count %d vs %d" % (len(impl), len(model))
    for a, b in zip(impl, model):
        ta, tb = a.split(), b.split()
        if "skip" in tb:
            k = tb.index("skip")
            if tb[k + 1:] == [] and len(tb) >= 2 and tb[1] == "rhs":
                pass
            ta, tb = ta[:k], tb[:k]
        if tb[:2] == ["res", "rhs"] or ta[:2] == ["res", "rhs"]:
            # element-wise, `skip` elements are wildcards
            fa, fb = a.split(), b.split()
            if len(fa) != len(fb):
                return "rhs length: %s | %s" % (a[:120], b[:120])
            for x, y in zip(fa, fb):
                if y == "skip":
                    continue
                if not tok_equal(x, y, rtol=1e-9, atol=1e-5):
                    return "rhs: %s vs %s" % (x, y)
                if is_hex(x) and is_hex(y):
                    stat["dev_rhs"] = max(stat.get("dev_rhs", 0.0), abs(hex2float(x) - hex2float(y)))
            continue
        if len(ta) != len(tb):
            return "token count: %s | %s" % (a[:160], b[:160])
        for x, y in zip(ta, tb):
            if not tok_equal(x, y, rtol=1e-12, atol=1e-15):
                return "%s: %s vs %s" % (" ".join(ta[:3]), x, y)
            if is_hex(x) and is_hex(y) and x != y:
                stat["dev_coef"] = max(stat.get("dev_coef", 0.0), abs(hex2float(x) - hex2float(y)))
            if is_hex(x):
                stat["hex_tokens"] = stat.get("hex_tokens", 0) + 1
                stat["hex_identical"] = stat.get("hex_identical", 0) + (1 if x == y else 0)
    return None


# ------------------------------------------------------------------ gama-g3 output

def parse_result(text):
    res = {"points": {}}
    for k in ("parameters", "equations", "defect", "redundancy"):
        m = re.search(r"<%s>\s*(-?\d+)" % k, text)
        res[k] = int(m.group(1)) if m else None
    res["rejected"] = len(re.findall(r"<rejected>", text))
    for m in re.finditer(r"<point>\s*<id>\s*(\S+)\s*</id>(.*?)</point>", text, re.S):
        body = m.group(2)
        p = {}
        for c in "xyz":
            g = re.search(r"<%s-given\s*>\s*(\S+)" % c, body)
            a = re.search(r"<%s-adjusted\s*>\s*(\S+)" % c, body)
            p[c] = float(a.group(1)) if a else (float(g.group(1)) if g else None)
        for c in "neu":
            d = re.search(r"<d%s>\s*(\S+)\s*</d%s>\s*<ind>(\d+)</ind>" % (c, c), body)
            if d:
                p["d" + c] = (float(d.group(1)), int(d.group(2)))
        res["points"][m.group(1)] = p
    return res


def run_g3(g3, xml_path, alg, out_path, pe_path=None):
    cmd = [str(g3), "--algorithm", alg] + (["--project-equations", str(pe_path)] if pe_path else []) + [str(xml_path), str(out_path)]
    try:
        rc, out, err = sh(cmd, timeout=120)
    except subprocess.TimeoutExpired:
        return -9, "timeout", None
    if rc != 0 or not Path(out_path).exists():
        return rc, (out + err)[-1500:], None
    return 0, err[-500:], parse_result(Path(out_path).read_text(errors="replace"))


ALGS = ["envelope", "gso", "svd", "cholesky"]


def oracle(ctx, corr, gen, g3, exe, net, tmp, tag, n_orders):
    """end-to-end property on the executable; returns True when everything held"""
    def fail(what, detail="", site="gama-g3"):
        corr.fail(what, {"stream": "g3-e2e", "net": net, "xml": gen.to_xml(net, newline="\n")}, site, detail)
        return False

    true = {p["id"]: p["true"] for p in net["points"]}
    xml = tmp / f"{tag}.xml"
    xml.write_text(gen.to_xml(net, newline="\n"))
    exp = gen.expected_stats(net)
    results = {}
    for a in ALGS:
        rc, msg, r = run_g3(g3, xml, a, tmp / f"{tag}-{a}.out", tmp / f"{tag}-{a}.pe" if a == "envelope" else None)
        if r is None:
            return fail(f"gama-g3 --algorithm {a} failed (rc={rc}) on a consistent network", msg)
        results[a] = r
        got = {k: r[k] for k in ("equations", "parameters", "defect", "redundancy")}
        if got != exp:
            return fail(f"gama-g3 --algorithm {a} reports {got}, expected {exp}", site="Model::update_adjustment")
        if r["rejected"]:
            return fail(f"gama-g3 --algorithm {a} rejected {r['rejected']} consistent observation(s)")
    ok = True
    # adjusted = generating
    for a in ALGS:
        pts = results[a]["points"]
        if set(pts) != set(true):
            return fail(f"{a}: points in the result {sorted(pts)} differ from the input {sorted(true)}")
        if net["exact"]:
            dev = max(abs(pts[i][c] - true[i]["xyz".index(c)]) for i in true for c in "xyz")
            corr.maxstat("max_dev_adjusted_vs_generating_m", dev)
            if dev > TOL_XYZ:
                ok = fail(f"{a}: adjusted coordinates differ from the generating ones by {dev:.3e} m")
        else:
            # singular free network: the shape is reproduced and the constrained points keep their centroid
            dev = 0.0
            for c in net["clusters"]:
                for o in c["obs"]:
                    if o["t"] == "vector":
                        for k, cc in enumerate("xyz"):
                            dev = max(dev, abs(pts[o["to"]][cc] - pts[o["from"]][cc] - o["d"][k]))
            corr.maxstat("max_dev_shape_m", dev)
            if dev > TOL_XYZ:
                ok = fail(f"{a}: adjusted vectors differ from the consistent observations by {dev:.3e} m")
            con = [p for p in net["points"] if p["h"] == "constr" and p["u"] == "constr"]
            if con:
                for k, cc in enumerate("xyz"):
                    s = sum(pts[p["id"]][cc] - p["given"][k] for p in con)
                    corr.maxstat("max_dev_centroid_m", abs(s))
                    if abs(s) > 1e-4 * max(1, len(con)):
                        ok = fail(f"{a}: constrained points moved their centroid by {s:.3e} m ({cc})")
    # algorithms agree
    for a in ALGS[1:]:
        dev = max(abs(results[a]["points"][i][c] - results["envelope"]["points"][i][c]) for i in true for c in "xyz")
        corr.maxstat("max_dev_between_algorithms_m", dev)
        if dev > 2e-6:
            ok = fail(f"envelope and {a} differ by {dev:.3e} m on a consistent network")
    # record orders
    for k in range(n_orders):
        po = list(range(len(net["points"])))
        co = list(range(len(net["clusters"])))
        ctx.rng.shuffle(po)
        ctx.rng.shuffle(co)
        x2 = tmp / f"{tag}-ord{k}.xml"
        x2.write_text(gen.to_xml(net, po, co, newline="\n"))
        a = ALGS[k % 4]
        rc, msg, r = run_g3(g3, x2, a, tmp / f"{tag}-ord{k}.out")
        if r is None:
            ok = fail(f"record order {po}/{co}: gama-g3 --algorithm {a} failed rc={rc}", msg)
            continue
        dev = max(abs(r["points"][i][c] - results[a]["points"][i][c]) for i in true for c in "xyz")
        corr.maxstat("max_dev_between_orders_m", dev)
        if dev > 2e-6 or any(r[q] != results[a][q] for q in ("equations", "parameters", "defect", "redundancy")):
            ok = fail(f"record order points={po} clusters={co} changes the result of {a} by {dev:.3e} m / statistics",
                      site="Model::update_observations")
    # the dump adjusted in-process by class Adj
    pe = tmp / f"{tag}-envelope.pe"
    rc, lines, err = run_proc(exe, f"case 0\nadjfile {pe}\n", timeout=120)
    sols = {}
    for l in lines:
        t = l.split()
        if t[:1] == ["adj"] and len(t) > 3 and t[2] != "throw":
            sols[t[1]] = (int(t[2]), [hex2float(v) for v in t[4:]])
        elif t[:1] == ["adj"]:
            ok = fail(f"class Adj ({t[1]}) failed on gama-g3's own project-equation dump: {' '.join(t[2:])[:200]}", site="Adj")
    if rc != 0 or len(sols) != 4:
        if rc != 0:
            ok = fail("harness crashed while adjusting gama-g3's project-equation dump", err[-1500:], site="Adj/DataParser")
    else:
        ref = {}
        for p in results["envelope"]["points"].values():
            for c in "neu":
                if "d" + c in p:
                    ref[p["d" + c][1]] = p["d" + c][0]
        for a, (defect, x) in sols.items():
            if defect != exp["defect"]:
                ok = fail(f"Adj({a}) on the dump reports defect {defect}, expected {exp['defect']}", site="Adj")
            if len(x) != exp["parameters"]:
                ok = fail(f"Adj({a}) on the dump has {len(x)} unknowns, expected {exp['parameters']}", site="AdjInputData::write_xml")
                continue
            dev = max([abs(x[i - 1] - v) for i, v in ref.items()] or [0.0])
            corr.maxstat("max_dev_dump_vs_g3_mm", dev)
            if dev > 1.5e-3:
                ok = fail(f"Adj({a}) on the dump differs from gama-g3's dn/de/du by {dev:.3e} mm", site="AdjInputData::write_xml")
    return ok


# ------------------------------------------------------------------ check

def load_corpus(ctx):
    d = ctx.verif / "corpus" / ID
    return [json.loads(f.read_text()) for f in sorted(d.glob("*.json"))] if d.exists() else []


def gross_error(rng, net):
    """correspondence only: one observation off by metres -> rejection loop in update_linearization"""
    net = json.loads(json.dumps(net))
    cands = [o for c in net["clusters"] for o in c["obs"] if o["t"] in ("vector", "distance")]
    if cands:
        o = rng.choice(cands)
        if o["t"] == "vector":
            o["d"][rng.randrange(3)] += rng.choice([-7.5, 3.25, 12.0])
        else:
            o["v"] += rng.choice([-4.0, 2.5])
    net["corr_only"] = True
    return net


def correspond(ctx, corr):
    gen = _gen()
    exe = ctx.build_cpp("c19_g3", harness_sources(ctx), libs=["-lexpat"])
    gdir = ctx.build_gama(sanitize=False, targets=("gama-g3",))
    g3 = gdir / "gama-g3"
    nets = load_corpus(ctx)
    n_corpus = len(nets)
    for _ in range(ctx.size(60, 700)):
        net = gen.gen_network(ctx.rng)
        nets.append(net)
        if ctx.rng.random() < 0.15:
            nets.append(gross_error(ctx.rng, net))

    # ---- correspondence: harness on the XML, driver on the data the harness extracted
    hcases = [["xml " + gen.to_xml(n), "adjrt"] for n in nets]
    impl, crashes = run_cases(exe, hcases)
    dcases = []
    for i, out in enumerate(impl):
        data = [l[5:] for l in out if l.startswith("data ")]
        evs = [l for l in out if l.startswith("ev ")]
        dcases.append(data + ["run"] + evs + ["adjrt"])
    model, mcr = run_cases(ctx.driver("drv_g3"), dcases)
    stat = {}
    for i, n in enumerate(nets):
        fam = n.get("family", "?") + ("+gross" if n.get("corr_only") and i >= n_corpus else "")
        xmltxt = hcases[i][0]
        moved = any(p["given"] is not None and p["given"] != p["true"] for p in n["points"])
        corr.case(key=sha(xmltxt) if moved else None,
                  sample={"family": fam, "center": n.get("center"), "points": len(n["points"]),
                          "impl_head": [l[:100] for l in impl[i][:3]]} if i in (n_corpus, n_corpus + 1) else None)
        corr.count("family " + fam)
        corr.count("center " + str(n.get("center_kind")))
        if i in crashes:
            corr.fail("g3 harness crashed (sanitizer) while building the model / project equations",
                      {"stream": "g3-harness", "net": n, "xml": gen.to_xml(n, newline="\n")},
                      "Model::update_linearization", crashes[i][1])
            continue
        if n.get("corr_only") and any(l.startswith("throw string No parameters") for l in impl[i]):
            corr.count("gross_error_cases_refused_no_parameters")     # everything left was rejected: a correct refusal
            continue
        if any(l.startswith("throw") for l in impl[i]):
            corr.fail("generated g3 input refused: " + [l for l in impl[i] if l.startswith("throw")][0][:200],
                      {"stream": "g3-harness", "net": n, "xml": gen.to_xml(n, newline="\n")}, "DataParser/Model")
            continue
        ires = [l for l in impl[i] if l.startswith("res ") and not l.startswith("res adjrt")]
        split = model[i].index("res nominx") + 1 if "res nominx" in model[i] else \
            next((k + 1 for k, l in enumerate(model[i]) if l.startswith("res minx")), len(model[i]))
        mres, mrt = model[i][:split], model[i][split:]
        why = cmp_lines(ires, mres, stat)
        if why:
            corr.disagree("g3-linearisation", {"net": n, "xml": xmltxt[:3000]}, ires[:80], mres[:80], why)
        # round trip: real writer -> real reader is the identity; model reader / writer agree with them
        if "res adjrt same" not in impl[i]:
            corr.fail("AdjInputData::write_xml -> DataParser does not reproduce the adjustment input: " +
                      ";".join(l for l in impl[i] if l.startswith("res adjrt") or l.startswith("rd throw"))[:300],
                      {"stream": "adj-roundtrip", "net": n, "xml": gen.to_xml(n, newline="\n")}, "AdjInputData::write_xml")
        ird = [l for l in impl[i] if l.startswith("rd ")]
        iev = [l for l in impl[i] if l.startswith("ev ") and l != "ev W" and "gnu-gama-data" not in l]
        why = cmp_lines(ird + iev, mrt, stat)
        if why:
            corr.disagree("adj-xml", {"net": n, "xml": xmltxt[:3000]}, (ird + iev)[:60], mrt[:60], why)
        if any(l.split()[2:] and "0" in l.split()[2:] for l in impl[i] if l.startswith("res act")):
            corr.count("cases_with_rejected_or_inactive_observation")
    for k, v in stat.items():
        corr.stats[k] = v

    # ---- end-to-end oracle
    with tempfile.TemporaryDirectory(prefix="c19-") as td:
        tmp = Path(td)
        singular = 0
        k = 0
        for i, n in enumerate(nets):
            if n.get("corr_only"):
                continue
            k += 1
            if k > ctx.size(45, 500):
                break
            oracle(ctx, corr, gen, g3, exe, n, tmp, f"n{i}", n_orders=ctx.size(2, 4))
            singular += 0 if n["family"] not in ("vec-constr-exact", "vec-constr-shape") else 1
            corr.count("oracle_networks")
        corr.stats["oracle_singular_networks"] = singular
        if singular < 0.08 * max(1, corr.stats.get("oracle_networks", 0)):
            corr.inconclusive.append("fewer than 8 % singular (constrained free) networks in the oracle")
    special = sum(v for k, v in corr.stats.items() if k.startswith("center ") and k != "center generic")
    if special < 0.3 * len(nets):
        corr.inconclusive.append("fewer than 30 % networks at poles / antimeridian / equator / Greenwich")


def search(ctx, broken, corr):
    """something broke without a failing input: run the end-to-end oracle on many more networks"""
    gen = _gen()
    exe = ctx.build_cpp("c19_g3", harness_sources(ctx), libs=["-lexpat"])
    g3 = ctx.build_gama(sanitize=False, targets=("gama-g3",)) / "gama-g3"
    c2 = Corr()
    with tempfile.TemporaryDirectory(prefix="c19s-") as td:
        for i in range(ctx.size(150, 1500)):
            net = gen.gen_network(ctx.rng)
            oracle(ctx, c2, gen, g3, exe, net, Path(td), f"s{i}", n_orders=2)
            if c2.failures:
                break
    return c2.failures


def classify(ctx, failure):
    net = (failure.replay or {}).get("net") or {}
    pts = {p["id"]: p for p in net.get("points", [])}
    has = any(o["t"] == "angle" and any(pts[o[k]]["h"] != "fixed" and pts[o[k]]["u"] == "fixed" for k in ("from", "left", "right"))
              for c in net.get("clusters", []) for o in c["obs"])
    if has and "heap-buffer-overflow" in (failure.detail or "") and "add_element" in (failure.detail or ""):
        return "C19-angle-dm-floats"
    left_adjusted = any(o["t"] == "angle" and (pts[o["left"]]["h"] != "fixed" or pts[o["left"]]["u"] != "fixed")
                        for c in net.get("clusters", []) for o in c["obs"])
    if left_adjusted and "adjusted coordinates differ from the generating ones" in failure.what:
        return "C19-angle-left-sign"
    m = re.match(r"gama-g3 --algorithm envelope reports \{.*'defect': (\d+).*expected \{.*'defect': (\d+)", failure.what)
    if m and int(m.group(1)) < int(m.group(2)) and net.get("family", "").startswith("vec-constr"):
        # singular free network: AdjEnvelope's LDL^T misses a zero pivot (absolute tolerance sqrt(eps) on a
        # rounded pivot); gso / svd / cholesky report the true defect on the same input
        return "C19-envelope-defect-undercount"
    if (net.get("family", "").startswith("vec-constr") and "changes the result of envelope" in failure.what):
        # same mechanism seen through the record order: whether the rounded zero pivot passes the absolute
        # tolerance depends on the elimination order, which follows the order of the input records
        return "C19-envelope-defect-undercount"
    return None


def explained_by_known(ctx, broken_item, matched_ids):
    return False


def replay(ctx, payload):
    gen = _gen()
    f = payload.get("failure") or {}
    inp = f.get("input") or {}
    print(json.dumps({k: f.get(k) for k in ("what", "site")}, indent=1))
    if "net" not in inp:
        print(json.dumps(payload.get("no_longer_checks"), indent=1)[:4000])
        return 0
    exe = ctx.build_cpp("c19_g3", harness_sources(ctx), libs=["-lexpat"])
    g3 = ctx.build_gama(sanitize=False, targets=("gama-g3",)) / "gama-g3"
    corr = Corr()
    net = inp["net"]
    if inp.get("stream") == "g3-e2e":
        with tempfile.TemporaryDirectory(prefix="c19r-") as td:
            oracle(ctx, corr, gen, g3, exe, net, Path(td), "r", n_orders=4)
    else:
        out, crashes = run_cases(exe, [["xml " + gen.to_xml(net), "adjrt"]])
        if crashes:
            corr.fail("harness crashed", {}, "", crashes[0][1])
        elif "res adjrt same" not in out[0]:
            corr.fail("round trip differs: " + ";".join(l for l in out[0] if l.startswith("res adjrt"))[:300], {})
    for fl in corr.failures:
        print("STILL FAILS:", fl.what)
        print(fl.detail[-1500:])
    if not corr.failures:
        print("no longer fails on this tree")
    return 1 if corr.failures else 0


LEVEL_TEXT = ("Lean 4 theorems over the reals about executable models of what is specific to gama-g3: the north-east-up "
              "frame of g3::Point (orthogonal, det -1), the rotated coefficient triples of vector / xyz / distance / "
              "height rows (exact linear map resp. derivative), one-step exactness for consistent vectors, the "
              "unknown-index bookkeeping (order independence up to a renumbering, redundancy identity) and the "
              "adj-input-data writer/reader round trip; models tied to the C++ by differential correspondence "
              "(frames, sparse rows, right-hand sides, cofactor blocks, indices, SAX events) and an end-to-end oracle "
              "on gama-g3 (4 algorithms, record orders, statistics, dump re-adjusted by class Adj).")
LEVEL_NOTE = ("The least-squares solvers behind class Adj are not part of this check (C01-C04). The g3 parser, "
              "Model::update_init and the result writer are exercised end-to-end only. Angle / zenith / azimuth "
              "coefficients are not modelled. Number formatting is assumed to round-trip (rd (fmt x) = x). "
              "Proofs are over exact reals, not IEEE doubles.")
TECHNIQUE = "Lean 4 proof (Mathlib: matrices, derivatives, list permutations) + model/implementation correspondence + end-to-end oracle"
