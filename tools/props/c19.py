"""C19 — gama-g3 reproduces consistent global networks, independent of algorithm."""
import importlib.util
import math
import sys
import tempfile

from lib.core import *

ID = "C19"
PROPS_FILES = ["Gama/Props/C19.lean", "Gama/Props/C19Dump.lean"]
LEAN_TARGETS = ["Gama.Props.C19", "Gama.Props.C19Dump"]
DRIVERS = ["drv_g3"]
RULE = ("stream lin: single Model::linearization(T*) calls on 1-3 points anywhere on the ellipsoid (poles, equator, "
        "antimeridian), sights up to 57 deg off the horizontal, every n/e/u state combination incl. fixed n,e + free u "
        "and N != E states, stale `ind` members, corrections, instrument heights, deflections; stream parse: 2-8 records "
        "with/without -dh children in random order, repeated and foreign children, plus documents with an <azimuth> "
        "record (must be refused); every angle case of stream lin is also compared with an independent right-hand side "
        "(direction difference); every network's minx list is compared with the constrained entries of par_list; "
        "generated ECEF networks (tools/gen/c19_g3net.py): 3-7 points around a centre drawn from {generic, near either "
        "pole (1e-4..0.3 deg), a point exactly on the rotation axis, antimeridian (+-1e-6..1e-2 deg), equator, "
        "Greenwich}; n/e and u components fixed/free/constrained; vectors (single and multi-vector clusters, "
        "diagonal/banded/full covariances), xyz, distances, heights, height differences, angles; approximate "
        "coordinates displaced along the adjusted components; 15 % of the correspondence cases carry a gross error "
        "(rejection loop); every network is also adjusted in the harness with one of the four algorithms "
        "(Model::update_adjustment + write_xml_adjustment_results_points: stream g3-result) and its dump is written with "
        "precision(16) and (17), read back and written again.  non-trivial = at least one adjusted point with displaced "
        "approximate coordinates; distinct by XML text")
TRUSTED = [
    "tools/gen/c19_linearization.py (C++ front end: tokenizer + recursive-descent parser + symbolic interpreter of the eight "
    "Model::linearization(T*) bodies -> Gen/G3Linearization.lean; validated by the `lin` stream) and tools/gen/c19_g3parser.py "
    "(shape reader of the pending -dh fields and of the handler / class / dimension rows of dataparser_g3.cpp -> "
    "Gen/G3ParserSites.lean; validated by the `parse` stream)",
    "hand-written models Gama/Model/{G3Book,G3Net,G3Dump,AdjXml,Neu}.lean (book-keeping, network loop, gama-g3's adjustment input "
    "dumpOf, dump writer/reader, frames): tied by the streams of drv_g3 only",
    "the line harness harness/c19_g3.cpp reads private members of g3::Point / g3::Model via '#define private public'",
    "tools/gen/c19_g3net.py: independent WGS84 conversions, frames, Jacobian and rank used as the oracle's reference",
]
MODELLED = [
    "the SAX state table of the g3 XML parser (dataparser_g3.cpp) apart from its pending -dh attributes, "
    "Model::update_init, the text layout of the result writer (g3_model_write_xml_adjustment_results.cpp; its numbers - "
    "corrections, adjusted XYZ, n-e-u / xyz covariance blocks, statistics, point order - are modelled in "
    "Gama/Model/G3Net.lean and compared in the stream g3-result; B L H of the result go through xyz2blh, C18), the "
    "adjusted-observation part of the result and g3_adjres.cpp are exercised end-to-end only",
    "the solvers behind class Adj are C01-C04's theorems; round 9 composes them with gama-g3's own input (Gama/Model/G3Dump.lean: "
    "dumpOf = sparse rows + cluster cofactors through C10's activeCov + minx list; Props/C19Dump.lean: C19_g3_same_adjustment) and "
    "compares the homogenised system of the real Adj with AdjM.homogenise (dumpOf ...) (stream g3-homogenised)",
    "E_3 / R_3 primitives (e3.cpp), Point::diff_N.., X_dh, model_height, Parameter::index are hand-written Lean "
    "(Gama/Model/{Neu,G3Lin}.lean), pinned by a normalised-text comparison in the translator and by the `lin` stream",
    "angle coefficients: proved to be the derivative of the horizontal angle (difference of the direction angles in the "
    "station's n-e plane, formed from the initial coordinates in the geodetic frame); that the angle between the vertical "
    "planes the right-hand side uses is arccos(cos(that difference)) with the same two direction angles is proved for a "
    "station without deflection, unraised targets and zero corrections (C19_angle_rhs_same_theta); with target heights / "
    "deflection it is checked numerically (`lin` derivative oracle and the angle right-hand-side oracle); zenith: "
    "derivative proved for station and target; "
    "azimuth coefficients are not derivatives (cos/sin of the observed value, not divided by the distance) - azimuth "
    "input is refused by the parser (G2): proved on the regenerated parser tables (C19_azimuth_unreachable: every accepted "
    "<obs> cluster is free of azimuth records), so this code is unreachable from gama-g3; enabling azimuth input breaks "
    "that theorem",
    "regularisation: the minx list (column indices of the constrained components, C19_minx_spec) and the set class Adj "
    "regularises over (regSet: the list, all columns when no list is set - Adj::init calls min_x(n, list) only then) are "
    "modelled (regSet is a hand definition; round 9: it equals the S the model of Adj::init_least_squares derives from dumpOf, "
    "C19_dump_is_project_equations); that the four solvers' default without a list is `all unknowns` is C08's",
    "heights in the one-step theorem: the observation function is H - geoid + du (affine in the displacement along the "
    "point's own normal); the second-order effect of a horizontal displacement on H (xyz2blh) is not modelled",
    "Ellipsoid::xyz2blh (B, L, H of a point) is an input of the frame model (C18's subject)",
    "operator<< / istringstream>> of numbers: the round-trip theorem is stated for any printer with rd (fmt x) = q x, "
    "fmt (q x) = fmt x (q = rounding to the printed digits; example: a three-decimal printer), and derived from the "
    "decomposition print = round to p digits + exact rendering, read = exact parsing + nearest double with "
    "D(N(D x)) = D x (`DecimalStream`); for the precision(p) printer over Q the law is proved (Props/C19Codec.lean, "
    "C19_stream_codec_printer); that libstdc++'s precision(16) / (17) on doubles satisfies it is a stated "
    "hypothesis, tested bit for bit on every number of every dump (`res adjrt` = exact for 17 digits, `res adjrt16` = "
    "stable projection for 16 digits, relative change <= 5.2e-16)",
    "libm sin/cos/sqrt, IEEE rounding",
]
ASSUMPTIONS = ["approximate coordinates within tol-abs (1 m) of the generating ones, second-order terms of distances / "
               "heights / angles below 1e-8 m (displacements <= 2 mm for those families)"]

TOL_XYZ = 1e-5          # the property's tolerance on adjusted coordinates [m]


def _tr(name):
    spec = importlib.util.spec_from_file_location(name, str(VERIF / "tools" / "gen" / (name + ".py")))
    m = importlib.util.module_from_spec(spec)
    sys.modules.setdefault(name, m)
    spec.loader.exec_module(m)
    return m


def translate(ctx):
    _tr("c19_linearization").translate(ctx.repo, ctx.lean)
    _tr("c19_g3parser").translate(ctx.repo, ctx.lean)


def _gen():
    spec = importlib.util.spec_from_file_location("c19_g3net", str(VERIF / "tools" / "gen" / "c19_g3net.py"))
    m = importlib.util.module_from_spec(spec)
    spec.loader.exec_module(m)
    return m


def harness_sources(ctx):
    L = ctx.repo / "lib" / "gnu_gama"
    return ([ctx.verif / "harness" / "c19_g3.cpp"] + sorted((L / "g3").glob("*.cpp")) +
            [L / "xml" / f for f in ("dataparser.cpp", "dataparser_adj.cpp", "dataparser_g3.cpp", "dataparser_g3adj.cpp",
                                     "dataobject.cpp", "baseparser.cpp", "encoding.cpp", "encoding_cp1251.cpp",
                                     "encoding_unknown_handler.cpp")] +
            [L / "adj" / "adj.cpp", L / "adj" / "adj_input_data.cpp", L / "adj" / "icgs.cpp", L / "e3.cpp",
             L / "ellipsoid.cpp", L / "ellipsoids.cpp", L / "gon2deg.cpp", L / "latlong.cpp", L / "version.cpp"])


# ------------------------------------------------------------------ comparison model <-> implementation

def cmp_lines(impl, model, stat):
    """model token `skip` = the rest of the line is not modelled.  Returns None or a description."""
    if len(impl) != len(model):
        return "line count %d vs %d" % (len(impl), len(model))
    for a, b in zip(impl, model):
        ta, tb = a.split(), b.split()
        if "skip" in tb:
            k = tb.index("skip")
            if tb[k + 1:] == [] and len(tb) >= 2 and tb[1] == "rhs":
                pass
            ta, tb = ta[:k], tb[:k]
        if tb[:2] == ["res", "rhs"] or ta[:2] == ["res", "rhs"]:
            # element-wise, `skip` elements are wildcards
            fa, fb = a.split(), b.split()
            if len(fa) != len(fb):
                return "rhs length: %s | %s" % (a[:120], b[:120])
            for x, y in zip(fa, fb):
                if y == "skip":
                    continue
                if not tok_equal(x, y, rtol=1e-9, atol=1e-5):
                    return "rhs: %s vs %s" % (x, y)
                if is_hex(x) and is_hex(y):
                    stat["dev_rhs"] = max(stat.get("dev_rhs", 0.0), abs(hex2float(x) - hex2float(y)))
            continue
        if len(ta) != len(tb):
            return "token count: %s | %s" % (a[:160], b[:160])
        for x, y in zip(ta, tb):
            if not tok_equal(x, y, rtol=1e-12, atol=1e-15):
                return "%s: %s vs %s" % (" ".join(ta[:3]), x, y)
            if is_hex(x) and is_hex(y) and x != y:
                stat["dev_coef"] = max(stat.get("dev_coef", 0.0), abs(hex2float(x) - hex2float(y)))
            if is_hex(x):
                stat["hex_tokens"] = stat.get("hex_tokens", 0) + 1
                stat["hex_identical"] = stat.get("hex_identical", 0) + (1 if x == y else 0)
    return None


def hom_cmp(impl, model, stat):
    """homogenised rows A_dot, b_dot: model (dense restatement of the block Cholesky) vs class Adj"""
    if len(impl) != len(model):
        return "line count %d vs %d: %s | %s" % (len(impl), len(model), (impl or ["-"])[0][:80], (model or ["-"])[0][:80])
    for a, b in zip(impl, model):
        ta, tb = a.split(), b.split()
        if len(ta) != len(tb):
            return "token count: %s | %s" % (a[:120], b[:120])
        scale = max([abs(hex2float(x)) for x in ta if is_hex(x)] + [1.0])
        for x, y in zip(ta, tb):
            if not tok_equal(x, y, rtol=1e-9, atol=1e-12 * scale):
                return "%s: %s vs %s" % (" ".join(ta[:3]), x, y)
            if is_hex(x):
                stat["hom_tokens"] = stat.get("hom_tokens", 0) + 1
                stat["hom_identical"] = stat.get("hom_identical", 0) + (1 if x == y else 0)
    return None


# ------------------------------------------------------------------ gama-g3 output

def parse_result(text):
    res = {"points": {}}
    for k in ("parameters", "equations", "defect", "redundancy"):
        m = re.search(r"<%s>\s*(-?\d+)" % k, text)
        res[k] = int(m.group(1)) if m else None
    res["rejected"] = len(re.findall(r"<rejected>", text))
    for m in re.finditer(r"<point>\s*<id>\s*(\S+)\s*</id>(.*?)</point>", text, re.S):
        body = m.group(2)
        p = {}
        for c in "xyz":
            g = re.search(r"<%s-given\s*>\s*(\S+)" % c, body)
            a = re.search(r"<%s-adjusted\s*>\s*(\S+)" % c, body)
            p[c] = float(a.group(1)) if a else (float(g.group(1)) if g else None)
        for c in "neu":
            d = re.search(r"<d%s>\s*(\S+)\s*</d%s>\s*<ind>(\d+)</ind>" % (c, c), body)
            if d:
                p["d" + c] = (float(d.group(1)), int(d.group(2)))
        res["points"][m.group(1)] = p
    return res


def run_g3(g3, xml_path, alg, out_path, pe_path=None):
    cmd = [str(g3), "--algorithm", alg] + (["--project-equations", str(pe_path)] if pe_path else []) + [str(xml_path), str(out_path)]
    try:
        rc, out, err = sh(cmd, timeout=120)
    except subprocess.TimeoutExpired:
        return -9, "timeout", None
    if rc != 0 or not Path(out_path).exists():
        return rc, (out + err)[-1500:], None
    return 0, err[-500:], parse_result(Path(out_path).read_text(errors="replace"))


ALGS = ["envelope", "gso", "svd", "cholesky"]


def oracle(ctx, corr, gen, g3, exe, net, tmp, tag, n_orders):
    """end-to-end property on the executable; returns True when everything held"""
    def fail(what, detail="", site="gama-g3"):
        corr.fail(what, {"stream": "g3-e2e", "net": net, "xml": gen.to_xml(net, newline="\n")}, site, detail)
        return False

    true = {p["id"]: p["true"] for p in net["points"]}
    xml = tmp / f"{tag}.xml"
    xml.write_text(gen.to_xml(net, newline="\n"))
    exp = gen.expected_stats(net)
    results = {}
    for a in ALGS:
        rc, msg, r = run_g3(g3, xml, a, tmp / f"{tag}-{a}.out", tmp / f"{tag}-{a}.pe" if a == "envelope" else None)
        if r is None:
            return fail(f"gama-g3 --algorithm {a} failed (rc={rc}) on a consistent network", msg)
        results[a] = r
        got = {k: r[k] for k in ("equations", "parameters", "defect", "redundancy")}
        if got != exp:
            return fail(f"gama-g3 --algorithm {a} reports {got}, expected {exp}", site="Model::update_adjustment")
        if r["rejected"]:
            return fail(f"gama-g3 --algorithm {a} rejected {r['rejected']} consistent observation(s)")
    ok = True
    # adjusted = generating
    for a in ALGS:
        pts = results[a]["points"]
        if set(pts) != set(true):
            return fail(f"{a}: points in the result {sorted(pts)} differ from the input {sorted(true)}")
        if net["exact"]:
            dev = max(abs(pts[i][c] - true[i]["xyz".index(c)]) for i in true for c in "xyz")
            corr.maxstat("max_dev_adjusted_vs_generating_m", dev)
            if dev > TOL_XYZ:
                ok = fail(f"{a}: adjusted coordinates differ from the generating ones by {dev:.3e} m")
        else:
            # singular free network: the shape is reproduced and the constrained points keep their centroid
            dev = 0.0
            for c in net["clusters"]:
                for o in c["obs"]:
                    if o["t"] == "vector":
                        for k, cc in enumerate("xyz"):
                            dev = max(dev, abs(pts[o["to"]][cc] - pts[o["from"]][cc] - o["d"][k]))
            corr.maxstat("max_dev_shape_m", dev)
            if dev > TOL_XYZ:
                ok = fail(f"{a}: adjusted vectors differ from the consistent observations by {dev:.3e} m")
            con = [p for p in net["points"] if p["h"] == "constr" and p["u"] == "constr"]
            if con:
                for k, cc in enumerate("xyz"):
                    s = sum(pts[p["id"]][cc] - p["given"][k] for p in con)
                    corr.maxstat("max_dev_centroid_m", abs(s))
                    if abs(s) > 1e-4 * max(1, len(con)):
                        ok = fail(f"{a}: constrained points moved their centroid by {s:.3e} m ({cc})")
    # algorithms agree
    for a in ALGS[1:]:
        dev = max(abs(results[a]["points"][i][c] - results["envelope"]["points"][i][c]) for i in true for c in "xyz")
        corr.maxstat("max_dev_between_algorithms_m", dev)
        if dev > 2e-6:
            ok = fail(f"envelope and {a} differ by {dev:.3e} m on a consistent network")
    # record orders
    for k in range(n_orders):
        po = list(range(len(net["points"])))
        co = list(range(len(net["clusters"])))
        ctx.rng.shuffle(po)
        ctx.rng.shuffle(co)
        x2 = tmp / f"{tag}-ord{k}.xml"
        x2.write_text(gen.to_xml(net, po, co, newline="\n"))
        a = ALGS[k % 4]
        rc, msg, r = run_g3(g3, x2, a, tmp / f"{tag}-ord{k}.out")
        if r is None:
            ok = fail(f"record order {po}/{co}: gama-g3 --algorithm {a} failed rc={rc}", msg)
            continue
        dev = max(abs(r["points"][i][c] - results[a]["points"][i][c]) for i in true for c in "xyz")
        corr.maxstat("max_dev_between_orders_m", dev)
        if dev > 2e-6 or any(r[q] != results[a][q] for q in ("equations", "parameters", "defect", "redundancy")):
            ok = fail(f"record order points={po} clusters={co} changes the result of {a} by {dev:.3e} m / statistics",
                      site="Model::update_observations")
    # the dump adjusted in-process by class Adj
    pe = tmp / f"{tag}-envelope.pe"
    rc, lines, err = run_proc(exe, f"case 0\nadjfile {pe}\n", timeout=120)
    sols = {}
    for l in lines:
        t = l.split()
        if t[:1] == ["adj"] and len(t) > 3 and t[2] != "throw":
            sols[t[1]] = (int(t[2]), [hex2float(v) for v in t[4:]])
        elif t[:1] == ["adj"]:
            ok = fail(f"class Adj ({t[1]}) failed on gama-g3's own project-equation dump: {' '.join(t[2:])[:200]}", site="Adj")
    if rc != 0 or len(sols) != 4:
        if rc != 0:
            ok = fail("harness crashed while adjusting gama-g3's project-equation dump", err[-1500:], site="Adj/DataParser")
    else:
        ref = {}
        for p in results["envelope"]["points"].values():
            for c in "neu":
                if "d" + c in p:
                    ref[p["d" + c][1]] = p["d" + c][0]
        for a, (defect, x) in sols.items():
            if defect != exp["defect"]:
                ok = fail(f"Adj({a}) on the dump reports defect {defect}, expected {exp['defect']}", site="Adj")
            if len(x) != exp["parameters"]:
                ok = fail(f"Adj({a}) on the dump has {len(x)} unknowns, expected {exp['parameters']}", site="AdjInputData::write_xml")
                continue
            dev = max([abs(x[i - 1] - v) for i, v in ref.items()] or [0.0])
            corr.maxstat("max_dev_dump_vs_g3_mm", dev)
            if dev > 1.5e-3:
                ok = fail(f"Adj({a}) on the dump differs from gama-g3's dn/de/du by {dev:.3e} mm", site="AdjInputData::write_xml")
    return ok


def result_oracle(corr, net, gen, lines, alg):
    """on the implementation's own numbers: X' = X0 + R (dn, de, du)/1000 with R from the printed frame, dn/de/du =
    adj x at the printed index, every point with a parameter on par_list written exactly once"""
    x, frames, idx, given = [], {}, {}, {}
    for l in lines:
        t = l.split()
        if t[:2] == ["data", "adj"]:
            x = [hex2float(v) for v in t[6:]]
        elif t[:2] == ["res", "frame"]:
            frames[t[2]] = [hex2float(v) for v in t[3:12]]
        elif t[:2] == ["res", "idx"]:
            idx[t[2]] = [int(v) for v in t[3:6]]
        elif t[:2] == ["data", "pt"]:
            given[t[2]] = [hex2float(v) for v in t[5:8]]
    seen = []
    for l in lines:
        t = l.split()
        if t[:2] != ["res", "pt"] or len(t) < 12:
            continue
        name = t[2]
        seen.append(name)
        d = [hex2float(v) for v in t[3:6]]
        adj = [hex2float(v) for v in t[9:12]]
        want = [x[k - 1] if k else 0.0 for k in idx.get(name, [0, 0, 0])]
        if any(abs(a - b) > 1e-9 * max(1.0, abs(b)) for a, b in zip(d, want)):
            corr.fail(f"point {name}: reported dn/de/du {d} are not the unknowns {want} of its indices {idx.get(name)} ({alg})",
                      {"stream": "g3-result", "net": net, "xml": gen.to_xml(net, newline="\n"), "alg": alg}, "Model::update_adjustment")
            return
        R = frames.get(name)
        if R and name in given:
            for k in range(3):
                exp = given[name][k] + (R[3 * k] * d[0] + R[3 * k + 1] * d[1] + R[3 * k + 2] * d[2]) / 1000.0
                if abs(exp - adj[k]) > 1e-7:
                    corr.fail(f"point {name}: adjusted {'XYZ'[k]} = {adj[k]!r} but X0 + R(dn,de,du)/1000 = {exp!r} ({alg})",
                              {"stream": "g3-result", "net": net, "xml": gen.to_xml(net, newline="\n"), "alg": alg}, "Point::write_xml")
                    return
    want_pts = sorted(nm for nm, ix in idx.items() if nm in seen or any(ix))
    if sorted(seen) != sorted(set(seen)) or not set(nm for nm, ix in idx.items() if any(ix)) <= set(seen):
        corr.fail(f"adjustment results: points written {seen}, points with an adjusted parameter "
                  f"{sorted(nm for nm, ix in idx.items() if any(ix))}",
                  {"stream": "g3-result", "net": net, "xml": gen.to_xml(net, newline="\n"), "alg": alg},
                  "Model::write_xml_adjustment_results_points")


# ------------------------------------------------------------------ stream `lin`: one Model::linearization(T*)

LIN_TYPES = ["vector", "xyz", "distance", "height", "hdiff", "zenith", "azimuth", "angle"]
LIN_ROLES = {"vector": ["frm", "to"], "distance": ["frm", "to"], "hdiff": ["frm", "to"], "zenith": ["frm", "to"],
             "azimuth": ["frm", "to"], "xyz": ["pt"], "height": ["pt"], "angle": ["frm", "left", "right"]}
# the unknowns an observation type can have a coefficient for (lean: Gama.Props.C19 `pattern`)
LIN_PATTERN = {"vector": {"frm": "NEU", "to": "NEU"}, "distance": {"frm": "NEU", "to": "NEU"},
               "zenith": {"frm": "NEU", "to": "NEU"}, "azimuth": {"frm": "NE", "to": "NEU"},
               "hdiff": {"frm": "U", "to": "U"}, "xyz": {"pt": "NEU"}, "height": {"pt": "U"},
               "angle": {"frm": "NEU", "left": "NEU", "right": "NEU"}}
WGS_A, WGS_F = 6378137.0, 1 / 298.257223563


def blh2xyz(b, l, h):
    e2 = WGS_F * (2 - WGS_F)
    n = WGS_A / math.sqrt(1 - e2 * math.sin(b) ** 2)
    return ((n + h) * math.cos(b) * math.cos(l), (n + h) * math.cos(b) * math.sin(l), (n * (1 - e2) + h) * math.sin(b))


def gen_lin_case(rng, force_type=None, clean=False):
    """one direct linearisation: points around a centre anywhere on the ellipsoid, sights up to 60 deg off the
    horizontal, n/e and u states drawn independently per point (so: fixed n,e + free u targets, constrained
    components, unused points), 15 % with different N and E states (only reachable by a direct call)"""
    ty = force_type or rng.choice(LIN_TYPES)
    kind = rng.choice(["generic", "generic", "pole", "equator", "antimeridian"])
    b0 = {"generic": rng.uniform(-1.4, 1.4), "pole": rng.choice([-1, 1]) * (math.pi / 2 - rng.choice([1e-6, 1e-3, 5e-3])),
          "equator": rng.choice([0.0, 1e-9]), "antimeridian": rng.uniform(-1.2, 1.2)}[kind]
    l0 = math.pi - 1e-7 if kind == "antimeridian" else rng.uniform(-math.pi, math.pi)
    h0 = rng.uniform(-50, 3000)
    clean = clean or rng.random() < 0.5
    az0 = rng.uniform(0, 2 * math.pi)
    pts, nxt = {}, 1
    for k, role in enumerate(LIN_ROLES[ty]):
        if role in ("frm", "pt"):
            dn = de = du = 0.0
        else:
            d = rng.choice([rng.uniform(20, 200), rng.uniform(200, 5000)])
            a = az0 if role != "right" else az0 + rng.uniform(0.2, 2.9)      # right is clockwise of left, < 200 gon
            elev = rng.choice([rng.uniform(-0.05, 0.05), rng.uniform(-1.0, 1.0)])
            dn, de, du = d * math.cos(a), d * math.sin(a), d * math.tan(elev)
        b = b0 + dn / 6.37e6
        l = l0 + de / (6.37e6 * max(math.cos(b0), 1e-3))
        h = h0 + du
        sh_ = rng.choice([1, 2, 2, 3]) if rng.random() < 0.93 else 0
        su = rng.choice([1, 2, 2, 3]) if rng.random() < 0.93 else 0
        sn = se = sh_
        if not clean and rng.random() < 0.15:
            se = rng.choice([0, 1, 2, 3])
        ind = []
        for st_ in (sn, se, su):
            if st_ in (2, 3):
                ind.append(nxt)
                nxt += 1
            else:
                ind.append(rng.choice([0, 0, 7 + nxt]))         # index() must hide it
        cor = [0.0, 0.0, 0.0] if clean or rng.random() < 0.6 else [rng.uniform(-0.05, 0.05) for _ in range(3)]
        dbl = [0.0, 0.0] if clean or rng.random() < 0.6 else [rng.uniform(-5e-5, 5e-5) for _ in range(2)]
        mode = rng.choice(["blh", "xyz"])
        abc = (b, l, h) if mode == "blh" else blh2xyz(b, l, h)
        pts[role] = {"mode": mode, "abc": list(abc), "geoid": rng.choice([0.0, rng.uniform(-40, 40)]), "dbl": dbl,
                     "st": [sn, se, su], "ind": ind, "cor": cor, "blh": [b, l, h]}
    dh = [0.0] * 4 if clean or rng.random() < 0.4 else [rng.choice([0.0, rng.uniform(0, 2.5)]) for _ in range(4)]
    xyz = {r: blh2xyz(*pts[r]["blh"]) for r in pts}
    noise = rng.choice([0.0, 1e-4, 2e-3, 0.8, 3.0])
    if ty in ("vector",):
        v = [xyz["to"][i] - xyz["frm"][i] + rng.uniform(-noise, noise) for i in range(3)]
    elif ty == "xyz":
        v = [xyz["pt"][i] + rng.uniform(-noise, noise) for i in range(3)]
    elif ty == "distance":
        v = [math.dist(xyz["to"], xyz["frm"]) + rng.uniform(-noise, noise), 0.0, 0.0]
    elif ty == "height":
        v = [pts["pt"]["blh"][2] - pts["pt"]["geoid"] + rng.uniform(-noise, noise), 0.0, 0.0]
    elif ty == "hdiff":
        v = [pts["to"]["blh"][2] - pts["frm"]["blh"][2] + rng.uniform(-noise, noise), 0.0, 0.0]
    else:
        v = [rng.uniform(0.1, 3.0), 0.0, 0.0]
    tol = rng.choice([1000.0, 1000.0, 0.5, 1e-3])
    return {"type": ty, "pts": pts, "v": v, "dh": dh, "tol": tol, "clean": clean, "center": kind}


def lin_lines(c, override=None, shift=None):
    """protocol lines of a case; override = {role: (x, y, z)} replaces a point by geocentric coordinates,
    shift = {role: (dx, dy, dz)} sets the corrections of X, Y, Z (frame and vertical stay)"""
    out = []
    for role in LIN_ROLES[c["type"]]:
        p = dict(c["pts"][role])
        mode, abc = p["mode"], p["abc"]
        if override and role in override:
            mode, abc = "xyz", override[role]
        if shift and role in shift:
            p["cor"] = shift[role]
        out.append("gpt %s %s %s %s %s %s %s %s %d %d %d %d %d %d %s %s %s 0" % (
            role, mode, hx(abc[0]), hx(abc[1]), hx(abc[2]), hx(p["geoid"]), hx(p["dbl"][0]), hx(p["dbl"][1]),
            p["st"][0], p["st"][1], p["st"][2], p["ind"][0], p["ind"][1], p["ind"][2],
            hx(p["cor"][0]), hx(p["cor"][1]), hx(p["cor"][2])))
    d = c["dh"]
    out.append("lin %s %s %s %s %s %s %s %s %s" % (c["type"], hx(c["v"][0]), hx(c["v"][1]), hx(c["v"][2]),
                                                  hx(d[0]), hx(d[1]), hx(d[2]), hx(d[3]), hx(c["tol"])))
    return out


def hx(x):
    return float2hex(float(x))


def parse_lin_out(lines):
    """-> (gpt: role -> tokens, rows: [[(index, coef)]], rhs: [float])"""
    gpt, rows, rhs = {}, [], []
    for l in lines:
        t = l.split()
        if t[:2] == ["data", "gpt"]:
            gpt[t[2]] = t[3:]
        elif t[:2] == ["res", "row"]:
            rows.append([(int(t[4 + 2 * k]), hex2float(t[5 + 2 * k])) for k in range(int(t[3]))])
        elif t[:2] == ["res", "rhs"]:
            rhs = [hex2float(x) for x in t[3:]]
    return gpt, rows, rhs


def lin_expected_indices(c):
    """the property `only free`: a coefficient for exactly the adjusted (free / constrained) unknowns of the
    points of the observation that the observation depends on; None when N and E have different states"""
    exp = []
    for role, comps in LIN_PATTERN[c["type"]].items():
        p = c["pts"][role]
        if p["st"][0] != p["st"][1]:
            return None
        for k, cn in enumerate("NEU"):
            if cn in comps and p["st"][k] in (2, 3):
                exp.append(p["ind"][k])
    return sorted(exp)


def angle_expressible(gpt):
    """the angle right - left, clockwise in the station's n-e plane, lies well inside (0, 200 gon): the only range in
    which rhs (acos, [0, 200 gon]) and coefficients (right - left) of Model::linearization(Angle*) agree (G4)"""
    g = {r: [hex2float(x) for x in gpt[r][:21]] for r in ("frm", "left", "right")}
    R = g["frm"][12:21]
    az = {}
    for r in ("left", "right"):
        d = [g[r][3 + j] - g["frm"][3 + j] for j in range(3)]
        n = R[0] * d[0] + R[3] * d[1] + R[6] * d[2]
        e = R[1] * d[0] + R[4] * d[1] + R[7] * d[2]
        az[r] = math.atan2(e, n)
    a = (az["right"] - az["left"]) % (2 * math.pi)
    return 0.05 < a < math.pi - 0.05


def angle_rhs_expected(gpt, c):
    """(obs - A) * 2e6/pi with A the angle in [0, pi] between the horizontal parts (w.r.t. the station's vertical,
    B + dB, L + dL) of the sights instrument -> left / right target, each raised along its own vertical"""
    g = {r: [hex2float(x) for x in gpt[r][:21]] for r in ("frm", "left", "right")}

    def up(q):
        b, l = q[6] + q[10], q[7] + q[11]
        return (math.cos(b) * math.cos(l), math.cos(b) * math.sin(l), math.sin(b))

    def raised(q, dh):
        u = up(q)
        return [q[j] + dh * u[j] for j in range(3)]
    dh = c["dh"]
    ins = raised(g["frm"], dh[0])
    u = up(g["frm"])
    hs = []
    for r, k in (("left", 2), ("right", 3)):
        a = [x - y for x, y in zip(raised(g[r], dh[k]), ins)]
        au = sum(a[j] * u[j] for j in range(3))
        h = [a[j] - au * u[j] for j in range(3)]
        if math.sqrt(sum(x * x for x in h)) < 1e-3:
            return None
        hs.append(h)
    cr = [hs[0][1] * hs[1][2] - hs[0][2] * hs[1][1], hs[0][2] * hs[1][0] - hs[0][0] * hs[1][2],
          hs[0][0] * hs[1][1] - hs[0][1] * hs[1][0]]
    ang = math.atan2(math.sqrt(sum(x * x for x in cr)), sum(hs[0][j] * hs[1][j] for j in range(3)))
    return (c["v"][0] - ang) * 2e6 / math.pi


def lin_stream(ctx, corr, exe):
    cases = [c["case"] for c in load_corpus(ctx, "lin")]
    cases += [gen_lin_case(ctx.rng) for _ in range(ctx.size(400, 6000))]
    for ty in LIN_TYPES:                                   # every type, every run: clean cases for the oracles
        cases += [gen_lin_case(ctx.rng, ty, clean=True) for _ in range(ctx.size(6, 60))]
    lin_oracles(ctx, corr, exe, cases)


def lin_oracles(ctx, corr, exe, cases):
    impl, crashes = run_cases(exe, [lin_lines(c) for c in cases])
    dcases = [[l[5:] for l in out if l.startswith("data gpt ")] + [l[5:] for l in out if l.startswith("data lin ")]
              for out in impl]
    model, _ = run_cases(ctx.driver("drv_g3"), dcases)
    stat = {}
    deriv_jobs = []
    for i, c in enumerate(cases):
        key = (c["type"], tuple(tuple(c["pts"][r]["st"]) for r in c["pts"]))
        corr.case(key=sha(" ".join(lin_lines(c))), sample={"stream": "lin", "type": c["type"], "impl": impl[i][-3:]} if i < 2 else None)
        corr.count("lin type " + c["type"])
        if any(c["pts"][r]["st"][0] in (0, 1) and c["pts"][r]["st"][2] in (2, 3) for r in c["pts"]):
            corr.count("lin cases with a fixed n,e + adjusted u point")
        if i in crashes:
            corr.fail("Model::linearization crashed (sanitizer)", {"stream": "lin", "case": c}, "Model::linearization", crashes[i][1])
            continue
        ires = [l for l in impl[i] if l.startswith("res ")]
        why = cmp_lines(ires, model[i], stat) if ires else "no output: " + " | ".join(impl[i][-2:])
        if why:
            corr.disagree("g3-lin", {"case": c, "lines": lin_lines(c)}, ires[:8], model[i][:8], why)
        # ---- oracle on the implementation: coefficients exactly for the adjusted unknowns
        gpt, rows, rhs = parse_lin_out(impl[i])
        exp = lin_expected_indices(c)
        if exp is not None and rows:
            for k, r in enumerate(rows):
                got = sorted(ix for ix, _ in r)
                if got != exp:
                    corr.fail(f"{c['type']} row {k + 1}: coefficients for unknowns {got}, but the adjusted unknowns of its "
                              f"points are {exp}", {"stream": "lin", "case": c}, f"Model::linearization({c['type']})")
                    break
        # ---- oracle on the implementation (round 4, next to C19_angle_rhs_same_theta): the right-hand side of an angle
        #      row is (observed - angle between the horizontal directions to the left and the right target) * 2e6/pi,
        #      directions = sights instrument -> raised target projected on the plane normal to the station's vertical
        if c["type"] == "angle" and rhs and all(len(gpt.get(r, [])) >= 21 for r in ("frm", "left", "right")):
            exp_rhs = angle_rhs_expected(gpt, c)
            if exp_rhs is not None:
                dev = abs(rhs[0] - exp_rhs)
                corr.maxstat("lin_max_dev_angle_rhs_vs_direction_difference_cc", dev)
                corr.count("lin_angle_rhs_checks")
                if dev > 1e-5 + 1e-10 * abs(exp_rhs):
                    corr.fail(f"angle: right-hand side is {rhs[0]:.9g} cc but observed - (direction to the right target - "
                              f"direction to the left target) is {exp_rhs:.9g} cc",
                              {"stream": "lin", "case": c, "role": "rhs"}, "Model::linearization(angle)")
        if c["clean"] and c["type"] != "azimuth" and rows and all(len(g) >= 21 for g in gpt.values()):
            if c["type"] == "angle" and not angle_expressible(gpt):
                corr.count("lin angle cases outside (0, 200 gon) skipped by the derivative oracle (limitation G4)")
                continue
            deriv_jobs.append((i, gpt, rows, rhs))
    for k, v in stat.items():
        corr.stats["lin_" + k] = v
    # ---- oracle on the implementation: every coefficient is the derivative of the right-hand side
    #      (rhs = (obs - f(points)) * scale, coefficient = df / d(n|e|u) per millimetre)
    H = 5e-3
    jobs, meta = [], []
    for i, gpt, rows, rhs in deriv_jobs[:ctx.size(60, 600)]:
        c = cases[i]
        for role in LIN_ROLES[c["type"]]:
            p = c["pts"][role]
            g = [hex2float(x) for x in gpt[role][:21]]
            x0, R = g[3:6], g[12:21]
            for k, cn in enumerate("NEU"):
                if p["st"][k] not in (2, 3) or cn not in LIN_PATTERN[c["type"]][role]:
                    continue
                col = (R[k], R[3 + k], R[6 + k])
                for sgn in (+1, -1):
                    if c["type"] in ("height", "hdiff"):      # H() follows the coordinates only through xyz2blh
                        jobs.append(lin_lines(c, override={role: tuple(x0[j] + sgn * H * col[j] for j in range(3))}))
                    else:                                      # move the point, keep its frame and vertical
                        jobs.append(lin_lines(c, shift={role: tuple(sgn * H * col[j] for j in range(3))}))
                meta.append((i, role, k))
    out, cr = run_cases(exe, jobs)
    for j, (i, role, k) in enumerate(meta):
        c = cases[i]
        _, rows, rhs0 = parse_lin_out(impl[i])
        _, _, rp = parse_lin_out(out[2 * j])
        _, _, rm = parse_lin_out(out[2 * j + 1])
        if len(rp) != len(rhs0) or len(rm) != len(rhs0):
            continue
        ind = c["pts"][role]["ind"][k]
        # natural size of a coefficient of this type: 1 (linear types), rho''/1000/distance (angular types, cc per mm)
        xs = [blh2xyz(*q["blh"]) for q in c["pts"].values()]
        dmax = max([math.dist(a, b) for a in xs for b in xs] + [1.0])
        floor = 636.62 / dmax if c["type"] in ("zenith", "angle") else 1.0
        for r in range(len(rhs0)):
            coef = sum(v for ix, v in rows[r] if ix == ind)
            num = -(rp[r] - rm[r]) / (2 * H) / 1000.0
            scale = max([abs(v) for _, v in rows[r]] + [abs(num), floor])     # largest coefficient of the row
            corr.maxstat("lin_max_dev_coefficient_vs_numeric_derivative_rel_to_row", abs(coef - num) / scale)
            if abs(coef - num) > 2e-5 * scale:
                corr.fail(f"{c['type']}: coefficient of {role}.{'NEU'[k]} is {coef:.9g} but the right-hand side changes by "
                          f"{num:.9g} per mm when the point moves along that axis (row {r + 1})",
                          {"stream": "lin", "case": c, "role": role, "comp": "NEU"[k]}, f"Model::linearization({c['type']})")
                break
        corr.count("lin_derivative_checks")


# ------------------------------------------------------------------ stream `parse`: records through DataParser

PARSE_KINDS = ["distance", "zenith", "vector", "xyz", "hdiff", "height", "angle"]     # <azimuth> is always refused (G2)
PARSE_OPTS = {"distance": ["from-dh", "to-dh"], "zenith": ["from-dh", "to-dh"], "vector": ["from-dh", "to-dh"],
              "xyz": [], "hdiff": [], "height": [], "angle": ["from-dh", "left-dh", "right-dh"]}
PARSE_DIM = {"vector": 3, "xyz": 3}


def gen_parse_case(rng):
    recs = []
    for _ in range(rng.randint(2, 8)):
        k = rng.choice(PARSE_KINDS)
        opts = []
        for tag in PARSE_OPTS[k]:
            if rng.random() < 0.5:
                opts.append((tag, round(rng.uniform(0.1, 3.0), 3)))
        rng.shuffle(opts)
        if opts and rng.random() < 0.15:
            opts.append((opts[0][0], round(rng.uniform(0.1, 3.0), 3)))       # the same child twice: last one wins
        recs.append({"kind": k, "opts": opts, "val": round(rng.uniform(10, 150), 3)})
    if rng.random() < 0.12:                                                    # a child the record kind does not know
        r = rng.choice(recs)
        r["opts"].append((rng.choice([t for t in ("from-dh", "to-dh", "left-dh", "right-dh") if t not in PARSE_OPTS[r["kind"]]]),
                          1.5))
        r["bad"] = True
    return recs


def parse_xml(recs):
    body = []
    for i, r in enumerate(recs):
        k, v = r["kind"], r["val"]
        if k in ("distance", "zenith", "hdiff", "azimuth"):
            main = "<from>A%d</from> <to>B%d</to> <val>%s</val>" % (i, i, v)
        elif k == "vector":
            main = "<from>A%d</from> <to>B%d</to> <dx>%s</dx> <dy>%s</dy> <dz>%s</dz>" % (i, i, v, v + 1, v + 2)
        elif k == "xyz":
            main = "<id>A%d</id> <x>%s</x> <y>%s</y> <z>%s</z>" % (i, v, v + 1, v + 2)
        elif k == "height":
            main = "<id>A%d</id> <val>%s</val>" % (i, v)
        else:
            main = "<from>A%d</from> <left>B%d</left> <right>C%d</right> <val>%s</val>" % (i, i, i, v)
        opts = " ".join("<%s>%s</%s>" % (t, x, t) for t, x in r["opts"])
        body.append("<%s> %s %s </%s>" % (k, main, opts, k))
    dim = sum(PARSE_DIM.get(r["kind"], 1) for r in recs)
    return ('<?xml version="1.0" ?> <gnu-gama-data xmlns="http://www.gnu.org/software/gama/gnu-gama-data"> <g3-model> '
            "<obs> " + " ".join(body) + " <cov-mat> <dim>%d</dim> <band>0</band> %s </cov-mat> </obs> </g3-model> </gnu-gama-data>"
            % (dim, " ".join("<flt>1</flt>" for _ in range(dim))))


def impl_built(lines):
    """the dh members of the observations the real parser built, in the model driver's format"""
    if any(l.startswith("throw") for l in lines):
        return ["throw"]
    out = []
    for l in lines:
        t = l.split()
        if t[:2] != ["data", "ob"]:
            continue
        k = t[3]
        n = {"distance": 2, "zenith": 2, "vector": 2, "hdiff": 2, "azimuth": 2, "angle": 3}.get(k, 0)
        out.append("pb " + " ".join([k] + (t[-n:] if n else [])))
    return out


def parse_stream(ctx, corr, exe):
    cases = [gen_parse_case(ctx.rng) for _ in range(ctx.size(150, 2000))]
    perms = []
    for recs in cases:
        order = list(range(len(recs)))
        ctx.rng.shuffle(order)
        perms.append(order)
    parse_oracles(ctx, corr, exe, cases, perms)
    azimuth_refused_oracle(ctx, corr, exe)


def azimuth_refused_oracle(ctx, corr, exe, docs=None):
    """oracle on the implementation next to C19_azimuth_unreachable: a cluster with an <azimuth> record is refused
    (its handler pushes no scale entry, DataParser::g3_obs sees obs_dim != scale.size()).  If one is accepted,
    Model::linearization(Azimuth*) — whose coefficients are not derivatives and are specified nowhere — is reachable."""
    if docs is None:
        docs = []
        for _ in range(ctx.size(12, 60)):
            recs = [r for r in gen_parse_case(ctx.rng) if not r.get("bad")]
            for r in recs:
                r["opts"] = [o for o in r["opts"] if o[0] in PARSE_OPTS[r["kind"]]]
            az = {"kind": "azimuth", "opts": [("from-dh", 1.5)] if ctx.rng.random() < 0.5 else [], "val": round(ctx.rng.uniform(1, 399), 3)}
            recs.insert(ctx.rng.randrange(len(recs) + 1), az)
            docs.append(recs)
    out, crashes = run_cases(exe, [["parse " + parse_xml(r)] for r in docs])
    for i, recs in enumerate(docs):
        corr.count("parse documents with an azimuth record")
        if i in crashes:
            corr.fail("DataParser crashed (sanitizer) on an <azimuth> record", {"stream": "parse-azimuth", "records": recs},
                      "DataParser::g3_obs_azimuth", crashes[i][1])
        elif not any(l.startswith("throw") for l in out[i]):
            corr.fail("a cluster with an <azimuth> record is accepted by the parser: Model::linearization(Azimuth*) is "
                      "reachable, and its coefficients (cos / sin of the observed value, no distance) are not the "
                      "derivative of the azimuth",
                      {"stream": "parse-azimuth", "records": recs, "xml": parse_xml(recs)}, "DataParser::g3_obs_azimuth")
        else:
            corr.count("parse documents with an azimuth record refused")


def parse_oracles(ctx, corr, exe, cases, perms):
    impl, crashes = run_cases(exe, [["parse " + parse_xml(r)] for r in cases])
    impl2, crashes2 = run_cases(exe, [["parse " + parse_xml([r[i] for i in o])] for r, o in zip(cases, perms)])
    model, _ = run_cases(ctx.driver("drv_g3"),
                         [["prec %s %s" % (r["kind"], " ".join("%s %s" % (t, hx(x)) for t, x in r["opts"])) for r in recs] + ["prun"]
                          for recs in cases])
    stat = {}
    for i, recs in enumerate(cases):
        corr.case(key=sha(parse_xml(recs)) if any(r["opts"] for r in recs) else None,
                  sample={"stream": "parse", "impl": impl[i][:3]} if i < 1 else None)
        corr.count("parse records", len(recs))
        if i in crashes or i in crashes2:
            corr.fail("DataParser crashed (sanitizer) on g3 records", {"stream": "parse", "records": recs}, "DataParser",
                      (crashes.get(i) or crashes2.get(i))[1])
            continue
        a = impl_built(impl[i])
        m = ["throw"] if any(l.startswith("throw") for l in model[i]) else model[i]
        if a == ["throw"]:
            corr.count("parse documents refused")
        why = cmp_lines(a, m, stat)
        if why:
            corr.disagree("g3-parse", {"records": recs, "xml": parse_xml(recs)}, a[:10], m[:10], why)
        # ---- oracle on the implementation: each observation depends on its own record only, so the permuted
        #      document gives the permuted observations
        b = impl_built(impl2[i])
        if a != ["throw"] and b != ["throw"]:
            exp = [a[k] for k in perms[i]]
            if exp != b:
                k = next(j for j in range(len(exp)) if j >= len(b) or exp[j] != b[j])
                corr.fail(f"g3 parser: record {recs[perms[i][k]]['kind']} is built as `{b[k] if k < len(b) else None}` after "
                          f"reordering the records but as `{exp[k]}` in the original order (a value of another record leaks in)",
                          {"stream": "parse", "records": recs, "order": perms[i], "xml": parse_xml(recs)}, "DataParser::g3_obs_*")
        elif (a == ["throw"]) != (b == ["throw"]):
            corr.fail("g3 parser: a document is refused in one record order and accepted in another",
                      {"stream": "parse", "records": recs, "order": perms[i]}, "DataParser")
        # ---- every -dh child reaches the member of the observation it names (the last one if repeated)
        MEMBERS = {"distance": ["from-dh", "to-dh"], "zenith": ["from-dh", "to-dh"], "vector": ["from-dh", "to-dh"],
                   "hdiff": ["from-dh", "to-dh"], "angle": ["from-dh", "left-dh", "right-dh"]}
        for r, l in zip(recs, a if a != ["throw"] else []):
            want = [dict(r["opts"]).get(t, 0.0) for t in MEMBERS.get(r["kind"], [])]
            got = [hex2float(x) for x in l.split()[2:]]
            if want != got:
                corr.fail(f"g3 parser: {r['kind']} record with children {r['opts']} is built with heights {got}, expected {want}",
                          {"stream": "parse", "records": recs, "xml": parse_xml(recs)}, f"DataParser::g3_obs_{r['kind']}")
                break
        # ---- and a record without children gets zero heights
        for r, l in zip(recs, a if a != ["throw"] else []):
            if not r["opts"] and any(hex2float(x) != 0.0 for x in l.split()[2:]):
                corr.fail(f"g3 parser: {r['kind']} record without -dh children is built with non-zero heights: {l}",
                          {"stream": "parse", "records": recs, "xml": parse_xml(recs)}, "DataParser::g3_obs_*")
                break


# ------------------------------------------------------------------ check

def load_corpus(ctx, stream=None):
    """corpus files without a "stream" entry are networks (xml / end-to-end streams)"""
    d = ctx.verif / "corpus" / ID
    all_ = [json.loads(f.read_text()) for f in sorted(d.glob("*.json"))] if d.exists() else []
    return [c for c in all_ if c.get("stream") == stream]


def gross_error(rng, net):
    """correspondence only: one observation off by metres -> rejection loop in update_linearization"""
    net = json.loads(json.dumps(net))
    cands = [o for c in net["clusters"] for o in c["obs"] if o["t"] in ("vector", "distance")]
    if cands:
        o = rng.choice(cands)
        if o["t"] == "vector":
            o["d"][rng.randrange(3)] += rng.choice([-7.5, 3.25, 12.0])
        else:
            o["v"] += rng.choice([-4.0, 2.5])
    net["corr_only"] = True
    return net


def minx_oracle(lines):
    """the spec of the regularisation list on the harness's own output: `res minx` = Parameter::index() of the
    constrained (state 3) entries of `res par`, in list order; `res nominx` iff there is none"""
    state, index, par, got = {}, {}, None, None
    for l in lines:
        t = l.split()
        if t[:2] == ["data", "pt"] and len(t) >= 16:
            state[t[2]] = dict(zip("NEU", (int(x) for x in t[13:16])))
        elif t[:2] == ["res", "idx"]:
            index[t[2]] = dict(zip("NEU", (int(x) for x in t[3:6])))
        elif t[:2] == ["res", "par"]:
            par = [x.rsplit(".", 1) for x in t[2:]]
        elif t[:2] == ["res", "minx"] and got is None:
            got = [int(x) for x in t[3:]]
        elif t[:2] == ["res", "nominx"] and got is None:
            got = []
    if par is None or got is None:
        return None
    try:
        exp = [index[nm][c] for nm, c in par if state[nm][c] == 3]
    except KeyError:
        return None
    if got != exp:
        return (f"the regularisation list handed to Adj::min_x is {got or 'absent'}, but the column indices of the "
                f"constrained parameters on par_list are {exp or 'none'}")
    return None


def correspond(ctx, corr):
    gen = _gen()
    exe = ctx.build_cpp("c19_g3", harness_sources(ctx), libs=["-lexpat"])
    gdir = ctx.build_gama(sanitize=False, targets=("gama-g3",))
    g3 = gdir / "gama-g3"
    nets = load_corpus(ctx)
    n_corpus = len(nets)
    for _ in range(ctx.size(60, 700)):
        net = gen.gen_network(ctx.rng)
        nets.append(net)
        if ctx.rng.random() < 0.15:
            nets.append(gross_error(ctx.rng, net))

    # ---- correspondence: harness on the XML, driver on the data the harness extracted
    hcases = [["xml " + gen.to_xml(n), "adjrt", "homog", "adjust " + ctx.rng.choice(ALGS)] for n in nets]
    impl, crashes = run_cases(exe, hcases)
    # cases in which Model::update_adjustment would read adj->x()(0) (finding G8): the harness skipped the adjustment;
    # run them again one by one without the guard — on /repo HEAD the sanitizer aborts (failing input), on a repaired
    # tree the result is compared like any other
    skipped = [i for i, out in enumerate(impl) if i not in crashes and any(l.startswith("res adjust-skipped") for l in out)]
    if skipped:
        again, cr2 = run_cases(exe, [[hcases[i][0], hcases[i][3].replace("adjust ", "adjust! ")] for i in skipped])
        for k, i in enumerate(skipped):
            corr.count("result_cases_with_an_adjusted_height_without_column")
            if k in cr2:
                nm = [l.split()[-1] for l in impl[i] if l.startswith("res adjust-skipped")][0]
                corr.fail(f"Model::update_adjustment reads adj->x()(0) (outside the solution vector) for point {nm}: its "
                          "height is free / constrained but has no column (no active observation refers to it)",
                          {"stream": "g3-result", "net": nets[i], "xml": gen.to_xml(nets[i], newline="\n"), "alg": hcases[i][3]},
                          "Model::update_adjustment", cr2[k][1])
            else:
                impl[i] = impl[i] + [l for l in again[k] if l.startswith(("data adj ", "data qxx ", "data ref ", "res stat ", "res pt "))]
    dcases = []
    for i, out in enumerate(impl):
        data = [l[5:] for l in out if l.startswith("data ")]
        evs = [l for l in out if l.startswith("ev ")]
        # `data adj / qxx / ref` (what update_adjustment read from class Adj) only set state; `result` recomputes
        # the statistics and the per-point results from them
        dcases.append(data + ["run", "hom"] + evs + ["adjrt"] + (["result"] if any(l.startswith("data adj ") for l in out) else []))
    model, mcr = run_cases(ctx.driver("drv_g3"), dcases)
    stat = {}
    for i, n in enumerate(nets):
        fam = n.get("family", "?") + ("+gross" if n.get("corr_only") and i >= n_corpus else "")
        xmltxt = hcases[i][0]
        moved = any(p["given"] is not None and p["given"] != p["true"] for p in n["points"])
        corr.case(key=sha(xmltxt) if moved else None,
                  sample={"family": fam, "center": n.get("center"), "points": len(n["points"]),
                          "impl_head": [l[:100] for l in impl[i][:3]]} if i in (n_corpus, n_corpus + 1) else None)
        corr.count("family " + fam)
        corr.count("center " + str(n.get("center_kind")))
        if i in crashes:
            corr.fail("g3 harness crashed (sanitizer) while building the model / project equations",
                      {"stream": "g3-harness", "net": n, "xml": gen.to_xml(n, newline="\n")},
                      "Model::update_linearization", crashes[i][1])
            continue
        if n.get("corr_only") and any(l.startswith("throw string No parameters") for l in impl[i]):
            corr.count("gross_error_cases_refused_no_parameters")     # everything left was rejected: a correct refusal
            continue
        if any(l.startswith("throw") for l in impl[i]):
            corr.fail("generated g3 input refused: " + [l for l in impl[i] if l.startswith("throw")][0][:200],
                      {"stream": "g3-harness", "net": n, "xml": gen.to_xml(n, newline="\n")}, "DataParser/Model")
            continue
        RESULT = ("res stat ", "res pt ")
        # round 9: the homogenised system of class Adj on gama-g3's own input (weights from the cluster covariances)
        ihom = [l for l in impl[i] if l.startswith("hom ")]
        mhom = [l for l in model[i] if l.startswith("hom ") and not l.startswith("hom bd ")]
        mbd = [l.split()[2:] for l in model[i] if l.startswith("hom bd ")]
        model[i] = [l for l in model[i] if not l.startswith("hom ")]
        impl[i] = [l for l in impl[i] if not l.startswith("hom ")]
        why = hom_cmp(ihom, mhom, stat)
        if why:
            corr.disagree("g3-homogenised", {"net": n, "xml": xmltxt[:3000]}, ihom[:40], mhom[:40], why)
        elif ihom and ihom[0].startswith("hom dim"):
            corr.count("homogenised_systems_compared")
            if any(c.get("cov", {}).get("band", 0) for c in n.get("clusters", [])):
                corr.count("homogenised_systems_with_correlated_cluster")
        else:
            corr.count("homogenised_systems_refused_on_both_sides")
        if mbd and (mbd[0][0] != mbd[0][2] or mbd[0][1] != mbd[0][3]):
            corr.fail("BlockDiagonal is allocated for %s blocks / %s doubles (Cluster::update's act_nonz) but add_block receives "
                      "%s blocks / %s doubles" % tuple(mbd[0]), {"stream": "g3-bd-sizing", "net": n, "xml": gen.to_xml(n, newline="\n")},
                      "Model::update_linearization")
        # dm_floats adequacy on the implementation's own numbers: SparseMatrix(dm_floats, …) receives exactly dm_floats elements
        dmf = [l.split() for l in impl[i] if l.startswith("res dm ")]
        matf = [l.split() for l in impl[i] if l.startswith("res mat ")]
        if dmf and matf:
            corr.count("dm_floats_checks")
            if dmf[0][4] != matf[0][4] or dmf[0][2] != matf[0][2]:
                corr.fail("dm_floats / dm_rows reserved by the revisions (%s floats, %s rows) differ from what the linearisation "
                          "loop wrote into the sparse matrix (%s floats, %s rows)" % (dmf[0][4], dmf[0][2], matf[0][4], matf[0][2]),
                          {"stream": "g3-dm-floats", "net": n, "xml": gen.to_xml(n, newline="\n")}, "Model::revision / Model::linearization")
        ires = [l for l in impl[i] if l.startswith("res ") and not l.startswith(("res adjrt", "res adjust-skipped") + RESULT)]
        iresult = [l for l in impl[i] if l.startswith(RESULT)]
        mresult = [l for l in model[i] if l.startswith(RESULT)]
        model[i] = [l for l in model[i] if not l.startswith(RESULT)]
        split = model[i].index("res nominx") + 1 if "res nominx" in model[i] else \
            next((k + 1 for k, l in enumerate(model[i]) if l.startswith("res minx")), len(model[i]))
        mres, mrt = model[i][:split], model[i][split:]
        why = cmp_lines(ires, mres, stat)
        if why:
            corr.disagree("g3-linearisation", {"net": n, "xml": xmltxt[:3000]}, ires[:80], mres[:80], why)
        # ---- oracle on the implementation (round 4, C19_minx_spec): the list handed to Adj::min_x holds the column
        #      indices of exactly the constrained parameters of par_list, in that order; no list if there is none
        mx = minx_oracle(impl[i])
        if mx:
            corr.fail(mx, {"stream": "g3-minx", "net": n, "xml": gen.to_xml(n, newline="\n")}, "Model::update_linearization")
        else:
            corr.count("minx_oracle_checks")
        # round trip: real writer -> real reader is the identity; model reader / writer agree with them
        if "res adjrt same" not in impl[i]:
            corr.fail("AdjInputData::write_xml -> DataParser does not reproduce the adjustment input: " +
                      ";".join(l for l in impl[i] if l.startswith("res adjrt") or l.startswith("rd throw"))[:300],
                      {"stream": "adj-roundtrip", "net": n, "xml": gen.to_xml(n, newline="\n")}, "AdjInputData::write_xml")
        ird = [l for l in impl[i] if l.startswith("rd ")]
        iev = [l for l in impl[i] if l.startswith("ev ") and l != "ev W" and "gnu-gama-data" not in l]
        why = cmp_lines(ird + iev, mrt, stat)
        if why:
            corr.disagree("adj-xml", {"net": n, "xml": xmltxt[:3000]}, (ird + iev)[:60], mrt[:60], why)
        if any(l.split()[2:] and "0" in l.split()[2:] for l in impl[i] if l.startswith("res act")):
            corr.count("cases_with_rejected_or_inactive_observation")
        # result side: update_adjustment + Point::write_xml against G3Net.stats / reportPoint / pointOrder
        if iresult:
            corr.count("result_cases")
            corr.count("result_points", len(iresult) - 1)
            why = cmp_lines(iresult, mresult, stat)
            if why:
                corr.disagree("g3-result", {"net": n, "xml": xmltxt[:3000], "alg": hcases[i][3]}, iresult[:40], mresult[:40], why)
            result_oracle(corr, n, gen, impl[i], hcases[i][3])
        elif any(l.startswith("throw") for l in impl[i][-2:]):
            corr.count("result_cases_adjustment_refused")
        # precision(16) dump: rd (fmt x) = q x, fmt (q x) = fmt x, q (q x) = q x on every number of the real dump
        for l in impl[i]:
            t = l.split()
            if t[:2] == ["res", "adjrt16"]:
                corr.count("dump16_numbers", int(t[3]))
                corr.count("dump16_numbers_changed_by_16_digits", int(t[4]))
                corr.maxstat("dump16_max_relative_change", hex2float(t[5]))
                if t[2] != "stable":
                    corr.fail("precision(16) dump: writing the re-read data again does not give the same text / numbers "
                              "(the printer hypothesis `DecimalStream.stable` fails on this input)",
                              {"stream": "adj-roundtrip16", "net": n, "xml": gen.to_xml(n, newline="\n")},
                              "operator<< precision(16) / istringstream>>")
    for k, v in stat.items():
        corr.stats[k] = v

    # ---- single linearisations and parser records
    lin_stream(ctx, corr, exe)
    parse_stream(ctx, corr, exe)

    # ---- end-to-end oracle
    with tempfile.TemporaryDirectory(prefix="c19-") as td:
        tmp = Path(td)
        singular = 0
        k = 0
        for i, n in enumerate(nets):
            if n.get("corr_only"):
                continue
            k += 1
            if k > ctx.size(45, 500):
                break
            oracle(ctx, corr, gen, g3, exe, n, tmp, f"n{i}", n_orders=ctx.size(2, 4))
            singular += 0 if n["family"] not in ("vec-constr-exact", "vec-constr-shape") else 1
            corr.count("oracle_networks")
        corr.stats["oracle_singular_networks"] = singular
        if singular < 0.08 * max(1, corr.stats.get("oracle_networks", 0)):
            corr.inconclusive.append("fewer than 8 % singular (constrained free) networks in the oracle")
    special = sum(v for k, v in corr.stats.items() if k.startswith("center ") and k != "center generic")
    if special < 0.3 * len(nets):
        corr.inconclusive.append("fewer than 30 % networks at poles / antimeridian / equator / Greenwich")


def search(ctx, broken, corr):
    """something broke without a failing input: run the end-to-end oracle on many more networks"""
    gen = _gen()
    exe = ctx.build_cpp("c19_g3", harness_sources(ctx), libs=["-lexpat"])
    g3 = ctx.build_gama(sanitize=False, targets=("gama-g3",)) / "gama-g3"
    c2 = Corr()
    with tempfile.TemporaryDirectory(prefix="c19s-") as td:
        for i in range(ctx.size(150, 1500)):
            net = gen.gen_network(ctx.rng)
            oracle(ctx, c2, gen, g3, exe, net, Path(td), f"s{i}", n_orders=2)
            if c2.failures:
                break
    return c2.failures


def classify(ctx, failure):
    rp = failure.replay or {}
    if rp.get("stream") == "lin" and (rp.get("case") or {}).get("type") == "zenith" and rp.get("comp") in ("N", "E") \
            and failure.what.startswith("zenith: coefficient of"):
        # Model::linearization(ZenithAngle*): the n, e coefficients lack the factor local.e3 (the u component of the
        # line of sight); the u coefficients are right
        return "C19-zenith-horizontal-coef"
    if rp.get("stream") == "g3-result" and failure.what.startswith("Model::update_adjustment reads adj->x()(0)") \
            and "update_adjustment" in (failure.detail or ""):
        # a point with a free / constrained height that occurs in no active observation: U.index() = 0 is used as an
        # index into the solution vector (heap-buffer-overflow, read of 8 bytes before it)
        return "C19-height-index-zero"
    net = rp.get("net") or {}
    pts = {p["id"]: p for p in net.get("points", [])}
    has = any(o["t"] == "angle" and any(pts[o[k]]["h"] != "fixed" and pts[o[k]]["u"] == "fixed" for k in ("from", "left", "right"))
              for c in net.get("clusters", []) for o in c["obs"])
    if has and "heap-buffer-overflow" in (failure.detail or "") and "add_element" in (failure.detail or ""):
        return "C19-angle-dm-floats"
    left_adjusted = any(o["t"] == "angle" and (pts[o["left"]]["h"] != "fixed" or pts[o["left"]]["u"] != "fixed")
                        for c in net.get("clusters", []) for o in c["obs"])
    if left_adjusted and "adjusted coordinates differ from the generating ones" in failure.what:
        return "C19-angle-left-sign"
    m = re.match(r"gama-g3 --algorithm envelope reports \{.*'defect': (\d+).*expected \{.*'defect': (\d+)", failure.what)
    if m and int(m.group(1)) < int(m.group(2)) and net.get("family", "").startswith("vec-constr"):
        # singular free network: AdjEnvelope's LDL^T misses a zero pivot (absolute tolerance sqrt(eps) on a
        # rounded pivot); gso / svd / cholesky report the true defect on the same input
        return "C19-envelope-defect-undercount"
    if (net.get("family", "").startswith("vec-constr") and "changes the result of envelope" in failure.what):
        # same mechanism seen through the record order: whether the rounded zero pivot passes the absolute
        # tolerance depends on the elimination order, which follows the order of the input records
        return "C19-envelope-defect-undercount"
    return None


def explained_by_known(ctx, broken_item, matched_ids):
    # the derivative theorem of the zenith-angle coefficients is proved for the repaired formula
    # (notes/proposed/C19-zenith-horizontal-coef.diff); on a tree without the repair its proof fails for the reason
    # the registered finding describes
    if "C19-zenith-horizontal-coef" in matched_ids and getattr(broken_item, "kind", "") == "proof" \
            and "zenith" in (getattr(broken_item, "name", "") or "").lower():
        return True
    return False


def replay(ctx, payload):
    gen = _gen()
    f = payload.get("failure") or {}
    inp = f.get("input") or {}
    print(json.dumps({k: f.get(k) for k in ("what", "site")}, indent=1))
    if inp.get("stream") in ("lin", "parse", "parse-azimuth"):
        exe = ctx.build_cpp("c19_g3", harness_sources(ctx), libs=["-lexpat"])
        corr = Corr()
        if inp["stream"] == "lin":
            lin_oracles(ctx, corr, exe, [inp["case"]])
        elif inp["stream"] == "parse-azimuth":
            azimuth_refused_oracle(ctx, corr, exe, [inp["records"]])
        else:
            parse_oracles(ctx, corr, exe, [inp["records"]], [inp.get("order") or list(range(len(inp["records"])))])
        for fl in corr.failures:
            print("STILL FAILS:", fl.what)
        if not corr.failures:
            print("no longer fails on this tree")
        return 1 if corr.failures else 0
    if "net" not in inp:
        print(json.dumps(payload.get("no_longer_checks"), indent=1)[:4000])
        return 0
    exe = ctx.build_cpp("c19_g3", harness_sources(ctx), libs=["-lexpat"])
    g3 = ctx.build_gama(sanitize=False, targets=("gama-g3",)) / "gama-g3"
    corr = Corr()
    net = inp["net"]
    if inp.get("stream") == "g3-e2e":
        with tempfile.TemporaryDirectory(prefix="c19r-") as td:
            oracle(ctx, corr, gen, g3, exe, net, Path(td), "r", n_orders=4)
    elif inp.get("stream") == "g3-result":
        out, crashes = run_cases(exe, [["xml " + gen.to_xml(net), (inp.get("alg") or "adjust gso").replace("adjust ", "adjust! ")]])
        if crashes:
            corr.fail("Model::update_adjustment / result writer crashed (sanitizer)", {}, "", crashes[0][1])
        else:
            result_oracle(corr, net, gen, out[0], inp.get("alg"))
    elif inp.get("stream") == "g3-minx":
        out, crashes = run_cases(exe, [["xml " + gen.to_xml(net)]])
        if crashes:
            corr.fail("harness crashed", {}, "", crashes[0][1])
        else:
            mx = minx_oracle(out[0])
            if mx:
                corr.fail(mx, {})
    else:
        out, crashes = run_cases(exe, [["xml " + gen.to_xml(net), "adjrt"]])
        if crashes:
            corr.fail("harness crashed", {}, "", crashes[0][1])
        elif "res adjrt same" not in out[0]:
            corr.fail("round trip differs: " + ";".join(l for l in out[0] if l.startswith("res adjrt"))[:300], {})
    for fl in corr.failures:
        print("STILL FAILS:", fl.what)
        print(fl.detail[-1500:])
    if not corr.failures:
        print("no longer fails on this tree")
    return 1 if corr.failures else 0


LEVEL_TEXT = ("Lean 4 theorems about executable models of what is specific to gama-g3: the linearisation of all eight g3 "
              "observation types regenerated from g3_model_linearization.cpp by a translator (guards, coefficient "
              "expressions, right-hand sides): a coefficient is emitted for exactly the adjusted unknowns of the "
              "observation's points, right-hand sides vanish at the generating coordinates for every type, the vector / "
              "xyz / distance / height rows are exact linear maps resp. derivatives, the station's zenith coefficients "
              "are derivatives, angle and zenith rows are derivatives along every displacement of their points, one-step "
              "exactness for consistent vectors; the north-east-up frame (orthogonal, det -1); "
              "the unknown-index bookkeeping (order independence up to a renumbering, redundancy identity); the network "
              "level (update_linearization's loop over the active observations with the indices of update_index): two "
              "orders of the same records give design matrices and right-hand sides related by explicit row / column "
              "permutations, hence the same least-squares solutions, rank, corrections per parameter; the result side "
              "(update_adjustment, Point::write_xml): reported X Y Z = initial + R (dn,de,du), and a consistent network "
              "with positive definite weights and a resolving regularisation set is reported with its generating "
              "coordinates by every IsLSSolution (round 4: also with S = the regularisation set read off the model's minx list, "
              "C19_minx_spec / C19_consistent_network_reproduced_minx; one step from displaced coordinates without the linearity "
              "hypothesis for vector / xyz / height / hdiff; round 10: distance and zenith angle under first-order exactness of the "
              "observed value, C19_first_order_network_is_linear; the horizontal angle stays under the general hypothesis); "
              "round 9 (Props/C19Dump.lean): "
              "gama-g3's own adjustment input dumpOf (sparse rows, minx list, one cofactor block per cluster = C10's activeCov / "
              "apriori_sd^2) IS the system of the network theorems (C19_dump_is_project_equations), the weights are the inverse of "
              "those blocks and positive definite whenever Adj's block Cholesky accepts them (C19_dump_weights_pd) - no free weight "
              "matrix -, whatever Adj + any of the four algorithms answers on it is a least-squares solution under C01's input-side "
              "gap hypotheses stated on the g3 system (RankGap, SingGap: hypotheses, not derived; Env.InputOK: round 10 derives it from "
              "the decidable input predicate DistinctRoles - no record names a point twice -, C19_dump_input_ok; no concrete dumpOf "
              "instance meets the hypotheses jointly), any two algorithms that answer agree in x, r, [pvv] (C19_g3_same_adjustment), a "
              "consistent network is reproduced by every algorithm (C19_g3_consistent_network_reproduced), and the sparse-matrix "
              "allocation dm_floats is adequate: coefficients written <= reserved, = without azimuth records "
              "(C19_dm_floats_observation, C19_dm_floats_adequate; round 10: the BlockDiagonal(blocks, nonzeroes) sizing too, C19_block_diagonal_adequate); the "
              "pending-attribute discipline of the g3 data parser read from the source (every observation depends on "
              "its own record only, parsing is independent of record order); the adj-input-data writer/reader round "
              "trip. Models tied to the C++ by translators and differential correspondence (single linearisations, "
              "parser records, frames, sparse rows, right-hand sides, cofactor blocks, indices, SAX events) and an "
              "end-to-end oracle on gama-g3 (4 algorithms, record orders, statistics, dump re-adjusted by class Adj).")
LEVEL_NOTE = ("The least-squares solvers behind class Adj are C01-C04's models; Props/C19.lean states the network theorems for "
              "every IsLSSolution and a free positive definite W, Props/C19Dump.lean composes them with C01_adj_of_gap_all on "
              "gama-g3's own input (weights from the cluster covariances) under the hypotheses InputOK / RankGap / SingGap of that "
              "input; the rejection loop is outside dumpOf (active flags are inputs). The SAX state table of "
              "the g3 parser, Model::update_init and the text layout of the result writer are exercised end-to-end only. "
              "Azimuth coefficients are not derivatives (unreachable code: C19_azimuth_unreachable). Number formatting enters as a printer law (reading back gives the number rounded to the printed digits), proved for the precision(p) printer over Q, a hypothesis for doubles. Proofs are over exact reals, not "
              "IEEE doubles.")
TECHNIQUE = "Lean 4 proof (Mathlib: matrices, derivatives, list permutations) + model/implementation correspondence + end-to-end oracle"
