"""C07 — equivalent descriptions of the same survey give the same adjustment."""
import json
import math
import os
import random
import re
import shutil
import tempfile
from concurrent.futures import ThreadPoolExecutor
from pathlib import Path

from lib.core import *
from gen import c05_linearization as tr
from gen import c07_meta as M
from gen import c09_stats as tr_stats
from gen import c14_revision as tr_rev
from gen import c07_pointid as tr_pid
from gen import c07_pointid_init as tr_pid_init
from gen import c10_ysign as tr_ysign
from gen import c05_xnorth as tr_xnorth

ID = "C07"
PROPS_FILES = ["Gama/Props/C07.lean", "Gama/Props/C07Compose.lean", "Gama/Props/C07Revision.lean",
               "Gama/Props/C07ProjectEquations.lean", "Gama/Props/C07PointIdInit.lean", "Gama/Props/C07Mirror.lean",
               "Gama/Props/C07MirrorSigma.lean", "Gama/Props/C07MirrorLink.lean", "Gama/Props/C07MirrorGap.lean"]
LEAN_TARGETS = ["Gama.Props.C07", "Gama.Props.C07Compose", "Gama.Props.C07Revision", "Gama.Props.C07ProjectEquations",
                "Gama.Props.C07PointIdInit", "Gama.Props.C07Mirror", "Gama.Props.C07MirrorSigma",
                "Gama.Props.C07MirrorLink", "Gama.Props.C07MirrorGap"]
DRIVERS = ["drv_input"]
RULE = ("(a) input stream: PointID pairs from a pool of ASCII / digit / leading-zero / white-space / UTF-8 / long "
        "identifiers and random byte strings (distinct by the pair of byte strings, non-trivial = the two normalised "
        "ids differ), TRIPLES of identifiers (transitivity; 45 % built so that an order comparing numeric ids as numbers and "
        "everything else as strings would cycle: numeric n1 < n2 whose spellings sort the other way + an alphanumeric id "
        "between the spellings) and std::map<PointID,int> filled with 8..14 such identifiers in random order (size, every "
        "identifier found again, iteration ascending), sexagesimal literals and (value, stdev) attributes of single direction/angle/z-angle/azimuth "
        "observations sent through GKFparser, all 8x2 axes/angles combinations, remove/return_inconsistency on generated "
        "networks with coordinate and vector clusters; (b) metamorphic pairs: noisy gen_net networks of 7 families "
        "(all 13 observation types, fixed/free datum, correlated coordinate and vector clusters, levelling) x "
        "{translation up to 1e7 m, circle rotation (random, within 1e-6 gon of 0/200/400, onto the +-200 gon seam of the "
        "approximate orientation), permutation of points/clusters/observations, renaming (order preserving and not; "
        "numeric-looking, leading zeros, white space, UTF-8, XML-special), gon->degrees with equivalent stdev, from<->to "
        "swaps (70 % of them on the network extended by one or two points LISTED WITH COORDINATES ONLY - no fix/adj - and "
        "distances / slope distances / height differences measured to them, always among the swapped observations), 8 axes x 2 angle senses}; distinct by (network text, transformation), non-trivial = the original adjusts; "
        "(c) wrap stream: the real LocalLinearization on (observed value, orientation, bearing) triples whose misclosure is "
        "every multiple of 200 gon from -800 to 1200 gon (directions), -400..400 (angles), -400..600 with all xNorthAngle "
        "values (azimuths), offsets 0, +-1e-4 ... +-3e-3 gon, incl. triples with reading, orientation and bearing all in "
        "[0,400) gon; compared with the mathematical reduction to (-200,200] gon; a hit is realised as a circle-rotation pair")
LEVEL_TEXT = ("proof for the linearised problem, exploration beyond it: Lean 4 theorems over R about the linearisation "
              "regenerated from local_linearization.cpp on every run: every observation type depends on coordinates only "
              "through differences (translation), turning a circle changes only the right-hand sides of that set by a common "
              "amount along the orientation column unless a value crosses the +-200 gon wrap, swapping the ends leaves "
              "distance rows unchanged and negates height/coordinate-difference rows, mirroring y negates exactly the "
              "y-columns (and the rows / orientation columns of angular types, right-hand sides exactly except at +200 gon) "
              "for all 13 types, the design matrices of two processing orders are related by explicit row/column "
              "equivalences built from the index tables, renaming leaves the rows untouched; transported to solutions "
              "(coordinates, residuals, sum of squares, regularisation) by the LS-layer lemmas perm/shift and two sign "
              "lemmas; the normalisation of inconsistent axes/angles conjugates the cluster covariances as the transport "
              "requires. Round 3: the row relations are ASSEMBLED for the whole generated pass: the design matrix "
              "project_equations builds from the mirrored description is D_s A D_t and its least-squares solution is the "
              "sign-transformed one (exception: an angular right-hand side of exactly +200 gon); a turned direction set "
              "none of whose rows leaves (-200,200] gon (sufficient: |rhs + c| < 200 gon for the whole set) gives literally "
              "the same matrix and the solution with only the orientation shifted, a wrapping row is shifted by a non-zero "
              "number of circles instead; translation gives the identical problem; exchanged ends / identity-preserving "
              "re-expressions give the renumbered solution. Statistics are transported: reflexive generalised inverses "
              "under any invertible change of unknowns, sign matrices and permutations, 'belongs to S' preserved, hence "
              "q_xx' = D_t q_xx D_t, q_bb' = D_s q_bb D_s (sigmas unchanged, covariances between mirrored and other "
              "unknowns change sign), and on the std_error_ellipse regenerated from network.h the y flip keeps both "
              "semi-axes and maps the bearing to pi - alpha (mod pi). "
              "PointID::operator< / == / != REGENERATED from pointid.cpp on every run (tools/gen/c07_pointid.py) is proved to be a strict "
              "total order on all byte strings; PointID::init REGENERATED statement by statement (tools/gen/c07_pointid_init.py: the "
              "white-space loop body, the trailing-blank test, IsInteger / >> long / << long tests, early returns) is proved EQUAL to the "
              "hand model for every byte string (C07_pointid_init_source_tie); whether the revision keeps an observation does not depend on which end is "
              "written first (C07_swap_preserves_active_view over C14's requirement table, regenerated from local_revision.cpp by "
              "this check as well: the whole revision and the active view commute with exchanging the ends of distances, slope "
              "distances, height and coordinate differences); the degrees clause is proved "
              "on the shared model of deg2gon (Gama.Angles.deg2gon, every accepted string) and the 1/0.324 rescaling is "
              "proved exact; rounds 6-7: the circle-rotation clause is restated on the matrix and right-hand sides of a pass of "
              "Lin.passFrom (C07_ori_column_of_pass, C07_circle_rotation_of_pass; identity order) and on the output (np, u) of "
              "PE.projectEquations with S any subset of min_x_, where 'the orientation unknown is not regularised' is DERIVED "
              "(C07_pe_ori_not_regularised; C07_circle_rotation_of_project_equations, rows regular and no wrap still assumed); "
              "round 9: the mirror clause is stated on the pass project_equations() itself executes (two runs of "
              "Lin.passFrom over the regenerated linearisation on a network and its mirrored description: same numbering, A' = D_s A D_t, "
              "b' = D_s b, solution carried over; for the outputs of PE.projectEquations FULL since round 13: "
              "C07_mirror_of_project_equations (hypotheses: every observation regular at the approximate coordinates, every cluster a "
              "well-formed band matrix of the dimension of its observation list, both calls return; inside, no angular right-hand side "
              "exactly at +200 gon) - both calls revise, number, remove and regularise alike at any depth of the singular_coords "
              "recursion, because the numeric colinearity test reads the Gram matrix of the homogenised matrix = the normal matrix "
              "A^T P A, which the mirror conjugates by signs (C07_degen_inv; C07_degen_test_mirror, C07_hom_gram_is_normal_matrix); "
              "the form with the hypothesis DegenInv is kept as C07_mirror_of_project_equations_partial; no evaluated witness: the only "
              "evaluated PE.Net is a levelling network, which has no y), the weights D_s P D_s are derived cluster "
              "by cluster from the regenerated covariance loop of "
              "change_y_signs_for_inconsistent_system_ (Gen/YSign.lean, C10's translator; the hand model of the input stream is proved "
              "equal to it, C07_flip_is_generated; C07_mirror_weight_block per cluster, C07_mirror_sigma for the covariance matrix "
              "Sigma of a whole assembled problem with conjugated clusters, instantiated at the two outputs of projectEquations with the row "
              "signs of the pass theorem: C07_row_sign_link, C07_mirror_sigma_of_project_equations_full), "
              "xNorthAngle() of the mirrored system from the regenerated table (integer table only, the full circle between 400 - lh "
              "and -lh not composed with the pass theorem; x<->y exchange of the axes: table only), renaming lifted to the whole pass "
              "(identical rows and solution), the matrix of the older *_assembled theorems identified with the executed pass's "
              "(C07_assembled_is_executed_pass), the y_sign of the adjustment XML for y and orientations (hand model of the writer "
              "lines, no stream), and a negative witness for "
              "cov-mat / alpha (C07-F3). NOT proved: the iteration to convergence, the approximate-orientation median (C06), number "
              "parsing/printing; these are explored by the metamorphic search on gama-local only.")
LEVEL_NOTE = ("The theorems are about exact real arithmetic and about one linearisation; equality of two complete "
              "gama-local runs is explored with tolerances: coordinates 1e-6 m, linear residuals 2e-3 mm, angular "
              "residuals 2e-2 cc, relative 2e-5 for standard deviations / ellipses, 1e-3 for the sum of squares, "
              "covariances 5e-6 of sqrt(cii*cjj) (8 printed digits); for translations by T the budget is widened "
              "by 2e-9*T (rounding of 1e7 m coordinates to doubles), reported in the evidence as max_tolscale.")
TECHNIQUE = ("Lean 4 proof (algebra over R on generated definitions, list induction) + differential correspondence "
             "(bit-exact) on PointID / input conversions + metamorphic search on gama-local with shrinking")
TRUSTED = ["tools/gen/c07_meta.py: the re-expressions themselves (what counts as the same survey), the regex reader of the "
           "adjustment XML and the prescribed transformation of results",
           "tools/gen/c05_linearization.py (translator of local_linearization.cpp, validated by C05's correspondence)",
           "expat, iostream number parsing (the input stream goes through GKFparser)",
           "tools/gen/c09_stats.py (translator of std_error_ellipse into Gen/StatsGen.lean, validated by C09's correspondence)",
           "tools/gen/c07_pointid.py (translator of PointID::operator<, ==, != into Gen/PointIdCmp.lean; validated by the pid / "
           "pid3 / pmap operations of the input stream)",
           "tools/gen/c07_pointid_init.py (statement/expression translator of PointID::init into Gen/PointIdInit.lean; the three "
           "iostream idioms and the iterator declarations are pinned statements; validated by the pid operations of the input stream)",
           "tools/gen/c14_revision.py (translator of LocalRevision's requirement table, validated by C14's correspondence) and "
           "C14's model of the revision (Model/Revise.lean)",
           "Trig R instance of Lemmas/C07Cofactor.lean: atan2 y x = Complex.arg (x + y i) (same meaning as C09's)",
           "tools/gen/c10_ysign.py, tools/gen/c05_xnorth.py (translators of the covariance sign condition and of xNorthAngle(), "
           "validated by C10's / C05's correspondence); Model/Input.lean section Output (hand model of the y_sign lines of "
           "localnetworkxml.cpp; no stream — the fields are compared end to end by the metamorphic search)",
           "Gama/Model/Angles.lean deg2gon (shared with C18, tied to gon2deg.cpp by C18's literal stream and by this check's "
           "dms / ang operations)"]
MODELLED = ["iteration of the linearised adjustment to convergence (explored only)",
            "printing and parsing of numbers (explored only)",
            "libm (sin/cos/atan2/acos/sqrt)", "std::map<PointID,...> (assumed to iterate in operator< order; observed on the C++ "
            "side by the pmap operation of the input stream)",
            "the mirrored description as a network (mirLin / mirNet of Lemmas/C07Mirror*.lean: y, orientations, xNorthAngle and the "
            "mirrored observation values negated exactly; the value in [0, 400) gon the parser stores differs by a full circle, "
            "not composed); degrees / renaming are not stated on a PE.Net built from attribute strings",
            "std::isspace for bytes >= 0x80 (C locale: not white space)"]
ASSUMPTIONS = ["the \"C\" locale is in effect when identifiers are normalised",
               "identifiers passed to PointID are the attribute values delivered by expat (attribute-value normalisation "
               "of XML itself is not modelled)"]

SRC = """e3 ellipsoid ellipsoids gon2deg latlong outstream comb simplified statan utf8 version adj/adj adj/adj_input_data
adj/icgs xml/baseparser xml/encoding_cp1251 xml/encoding xml/encoding_unknown_handler xml/gkfparser xml/str2xml
local/bearing local/language local/acord/approx_heights local/acord/approx_vectors local/acord/acord2
local/acord/acordalgorithm local/acord/acordazimuth local/acord/acordhdiff local/acord/acordintersection
local/acord/acordpolar local/acord/acordstatistics local/acord/acordtraverse local/acord/acordvector
local/acord/acordweakchecks local/acord/acordzderived local/acord/reduce_to_ellipsoid local/format local/gamadata
local/lcoords local/local_linearization local/median/g2d_cogo local/median/g2d_coordinates local/median/g2d_helper
local/median/g2d_point local/network local/orientation local/results/text/underline
local/test_linearization_visitor local/local_revision local/observation local/pointid local/skipcomm
local/xmlerror""".split()

ALGS = ["envelope", "gso", "svd", "cholesky"]


def translate(ctx):
    # the theorems are about the generated linearisation: make sure it is the current tree's
    tr.translate(ctx.repo, ctx.lean)
    # C07_pointid_total_order is about PointID::operator< / == / != regenerated from pointid.cpp
    try:
        tr_pid.run(ctx.repo, ctx.lean / "Gama" / "Gen" / "PointIdCmp.lean")
    except tr_pid.Unparsable as e:
        raise TieBroken("c07_pointid translator", str(e))
    except (OSError, IndexError, ValueError, KeyError) as e:
        raise TieBroken("c07_pointid translator", repr(e))
    # round 9: PointID::init regenerated statement by statement (Gen/PointIdInit.lean), proved equal to the hand model
    try:
        tr_pid_init.run(ctx.repo, ctx.lean)
    except tr_pid_init.Unparsable as e:
        raise TieBroken("c07_pointid_init translator", str(e))
    except (OSError, IndexError, ValueError, KeyError) as e:
        raise TieBroken("c07_pointid_init translator", repr(e))
    # C07_ellipse_transport is about the std_error_ellipse regenerated by C09's translator
    try:
        text = tr_stats.gen(ctx.repo)
    except tr_stats.Unreadable as e:
        raise TieBroken("c09_stats translator", str(e))
    except (OSError, IndexError, ValueError, KeyError) as e:
        raise TieBroken("c09_stats translator", repr(e))
    f = ctx.lean / "Gama" / "Gen" / "StatsGen.lean"
    if not f.exists() or f.read_text() != text:
        f.write_text(text)
    # C07_swap_preserves_active_view is about the requirement table of LocalRevision regenerated by C14's translator
    # (which end of an observation has to be an active point): Gen/Revision.lean must be the current tree's
    try:
        tr_rev.run(ctx.repo, ctx.lean / "Gama" / "Gen" / "Revision.lean")
    except tr_rev.Unparsable as e:
        raise TieBroken("c14_revision translator", str(e))
    except (OSError, IndexError, ValueError, KeyError) as e:
        raise TieBroken("c14_revision translator", repr(e))
    # round 9: Props/C07Mirror.lean is about the covariance loop of change_y_signs_for_inconsistent_system_ with the
    # condition regenerated by C10's translator (Gen/YSign.lean) and about PointData::xNorthAngle() regenerated by C05's
    # (Gen/XNorth.lean): both must be the current tree's
    try:
        text = tr_ysign.gen(ctx.repo)
    except tr_ysign.YSignError as e:
        raise TieBroken("c10_ysign translator", str(e))
    except (OSError, IndexError, ValueError, KeyError) as e:
        raise TieBroken("c10_ysign translator", repr(e))
    f = ctx.lean / "Gama" / "Gen" / "YSign.lean"
    if not f.exists() or f.read_text() != text:
        f.write_text(text)
    try:
        tr_xnorth.translate(ctx.repo, ctx.lean)
    except (OSError, IndexError, ValueError, KeyError, RuntimeError) as e:
        raise TieBroken("c05_xnorth translator", repr(e))


def build_harness(ctx):
    srcs = [ctx.verif / "harness" / "c07_input.cpp"] + [ctx.repo / "lib" / "gnu_gama" / (s + ".cpp") for s in SRC]
    return ctx.build_cpp("c07_input", srcs, includes=[ctx.verif / "harness"], libs=["-lexpat"])


# ------------------------------------------------------------------ (a) input stream
def hx(b):
    if isinstance(b, str):
        b = b.encode()
    return b.hex() if b else "-"


ID_POOL = ["", " ", "0", "00", "1", "01", "001", "1 ", " 1", "1  2", "1\t2", "10", "9", "2", "12", "+1", "-1", "1.0", "1e3",
           "9223372036854775807", "9223372036854775808", "09223372036854775807", "99999999999999999999", "18446744073709551617",
           "a", "A", "b", "B", "a b", "a  b", " a b ", "ab", "aB", "Ab", "Z", "_", "é", "É", "e", "ž", "z", "Ω", "点", "点1", " ",
           " 1", "P1", "P01", "P10", "P9", "p1", "x" * 70, "x" * 69 + "y", "1a", "a1", "\x01", "!", "~", "\x7f", "\n1\n", "\r",
           "1\x0b", "\x0c2", "123456789", "1234567890", "4294967296", "2147483648", "007", "7", "7 ", "7.", "0x10", "١", "１"]


def pid_cases(ctx, n):
    rng = ctx.rng
    cases = []
    pool = [s.encode() for s in ID_POOL]
    for a in pool[:40]:
        for b in pool[:40]:
            if rng.random() < 0.25:
                cases.append((a, b))
    while len(cases) < n:
        r = rng.random()
        if r < 0.4:
            a, b = rng.choice(pool), rng.choice(pool)
        elif r < 0.7:
            a = bytes(rng.choice(b"0123456789 ") for _ in range(rng.randint(0, 21)))
            b = bytes(rng.choice(b"0123456789 ") for _ in range(rng.randint(0, 21))) if rng.random() < 0.7 else a.lstrip(b"0 ")
        else:
            alpha = [9, 10, 11, 12, 13, 32, 43, 45, 48, 49, 57, 65, 97, 127, 128, 160, 195, 169, 255, 1]
            a = bytes(rng.choice(alpha) for _ in range(rng.randint(0, 6)))
            b = bytes(rng.choice(alpha) for _ in range(rng.randint(0, 6)))
        if b"\x00" in a or b"\x00" in b:
            continue
        cases.append((a, b))
    return cases


def mixed_ids(rng):
    """three identifiers on which an order that compares numeric ids as numbers and everything else as strings would
    cycle: numeric n1 < n2 whose spellings sort the other way (n2 has more digits and a smaller leading digit), and
    an alphanumeric z that sorts between the two spellings (leading digit of n2, then a letter / non-ASCII byte)"""
    l2 = rng.randint(1, 8)
    l1 = rng.randint(l2 + 1, 9)
    n1 = str(l1) + "".join(rng.choice("0123456789") for _ in range(rng.randint(0, 2)))
    n2 = str(l2) + "".join(rng.choice("0123456789") for _ in range(len(n1) + rng.randint(0, 2)))
    z = str(l2) + rng.choice(["a", "b", "Z", "x7", "é", "_", "a0", "A"])
    return n1.encode(), n2.encode(), z.encode()


def pid3_cases(ctx, n):
    rng = ctx.rng
    pool = [s.encode() for s in ID_POOL if "\x00" not in s]
    out = []
    for k in range(n):
        r = rng.random()
        if r < 0.45:
            t = list(mixed_ids(rng))
            rng.shuffle(t)
        elif r < 0.8:
            t = [rng.choice(pool) for _ in range(3)]
        else:
            t = [bytes(rng.choice(b"0123456789ab ") for _ in range(rng.randint(1, 4))) for _ in range(3)]
        out.append(tuple(t))
    return out


def pmap_cases(ctx, n):
    """identifier sets (8..14) mixing numeric ids of different lengths, alphanumeric ids that sort between their
    spellings, and pool ids, in a random insertion order"""
    rng = ctx.rng
    pool = [s.encode() for s in ID_POOL if s.strip()]
    out = []
    for k in range(n):
        ids = []
        for _ in range(rng.randint(1, 3)):
            ids += list(mixed_ids(rng))
        ids += [str(rng.choice([2, 7, 9, 10, 25, 31, 100, 1234])).encode() for _ in range(rng.randint(1, 4))]
        ids += [rng.choice(pool) for _ in range(rng.randint(1, 4))]
        ids += [rng.choice([b"1a", b"1b", b"3c", b"b2", b"2x", b"9z", b"10a"]) for _ in range(rng.randint(1, 3))]
        rng.shuffle(ids)
        out.append(ids)
    return out


def pid3_oracle(t):
    """transitivity over all arrangements of the triple, on the implementation's own six answers ab ba bc cb ac ca"""
    ab, ba, bc, cb, ac, ca = (x == "1" for x in t[1:7])
    lt = {("a", "b"): ab, ("b", "a"): ba, ("b", "c"): bc, ("c", "b"): cb, ("a", "c"): ac, ("c", "a"): ca}
    for x in "abc":
        for y in "abc":
            for z in "abc":
                if len({x, y, z}) == 3 and lt[(x, y)] and lt[(y, z)] and not lt[(x, z)]:
                    return f"{x} < {y} and {y} < {z} but not {x} < {z}"
    return None


def dms_text(rng):
    r = rng.random()
    d, m = rng.randint(0, 399), rng.randint(0, 59)
    s = f"{rng.uniform(0, 60):.{rng.randint(0, 9)}f}" if rng.random() < 0.8 else str(rng.randint(0, 59))
    if s.startswith("60"):
        s = "59.9"
    t = f"{d}-{m}-{s}"
    if r < 0.1:
        t = "-" + t
    elif r < 0.15:
        t = "+" + t
    elif r < 0.2:
        t = f"{d}-{m}"                 # not sexagesimal
    elif r < 0.25:
        t = f"{rng.uniform(0, 400):.6f}"
    elif r < 0.28:
        t = f"{d}-{m}-"
    elif r < 0.40:
        # the rest of the language of the shared model (Angles.deg2gon): white space, explicit sign, exponents,
        # seconds without fraction digits, signs inside (rejected), huge fields (rejected)
        v = rng.randint(0, 9)
        sec = [f"{rng.randint(0, 59)}e0", f"{rng.randint(1, 5)}e1", f"{rng.randint(0, 599)}E-1", "5.", "1e", "1e+", ".5",
               "1e400", "0.5e-400", "-3"][v]
        t = rng.choice(["", " ", "\t ", "+", " +", "-"]) + f"{d}-{rng.choice([str(m), '+' + str(m), ' ' + str(m), '99999999999'])}-{sec}" + \
            rng.choice(["", " ", "\n"])
    return t


def input_cases(ctx):
    rng = ctx.rng
    cases, kinds = [], []
    for a, b in pid_cases(ctx, ctx.size(1500, 30000)):
        cases.append([f"pid {hx(a)} {hx(b)}"])
        kinds.append(("pid", a, b))
    for a, b, c in pid3_cases(ctx, ctx.size(400, 6000)):
        cases.append([f"pid3 {hx(a)} {hx(b)} {hx(c)}"])
        kinds.append(("pid3", a, b, c))
    for ids in pmap_cases(ctx, ctx.size(150, 2000)):
        cases.append(["pmap " + " ".join(hx(i) for i in ids)])
        kinds.append(("pmap", tuple(ids)))
    for _ in range(ctx.size(300, 5000)):
        t = dms_text(rng)
        cases.append([f"dms {hx(t)}"])
        kinds.append(("dms", t))
    for _ in range(ctx.size(200, 3000)):
        k = rng.choice(["direction", "angle", "z-angle", "azimuth"])
        if rng.random() < 0.6:
            d = rng.randint(0, 179 if k == "z-angle" else 359)
            v = f"{d}-{rng.randint(0, 59)}-{rng.uniform(0, 59.99):.{rng.randint(0, 8)}f}"
            if k == "z-angle" and d == 0:
                v = "0-0-1.5"
        else:
            v = f"{rng.uniform(0.001, 199.9 if k == 'z-angle' else 399.9):.{rng.randint(1, 9)}f}"
        sd = f"{rng.uniform(0.1, 30):.{rng.randint(0, 4)}f}"
        if float(sd) == 0:
            sd = "1"
        cases.append([f"ang {k} {hx(v)} {hx(sd)}"])
        kinds.append(("ang", k, v, sd))
    for ax in M.AXES + ["xx"]:
        for an in ("left-handed", "right-handed", "clockwise"):
            cases.append([f"axes {ax} {an}"])
            kinds.append(("axes", ax, an))
    return cases, kinds


KIND_NAME = {"direction": "direction", "distance": "distance", "angle": "angle", "s-distance": "s_distance",
             "z-angle": "z_angle", "azimuth": "azimuth"}


def flip_cases(ctx, tmp, n):
    """networks with observed coordinates / vectors, all axes x angles; op line carries the same data as hex doubles"""
    rng = ctx.rng
    cases = []
    for i in range(n):
        fam = rng.choice(["2d-coords-full", "3d-vec-coords", "2d-ang-azi"])
        net = M.base_network(rng, fam)
        net["axes"], net["angles"] = rng.choice(M.AXES), rng.choice(["left-handed", "right-handed"])
        text = M.to_gkf(net, nd=6)
        p = tmp / f"flip{i}.gkf"
        p.write_text(text)
        cur = {k: dict(v) for k, v in net["points"].items()}
        for o in net["obs"]:          # <coordinates><point .../> stores the observed values in the point only where the
            if o["kind"] == "coords":  # point has no coordinates of that group yet (gkfparser process_point(atts, observed))
                for it in o["items"]:
                    q = cur[it["id"]]
                    if "x" in it and "x" not in q:
                        q.update({"x": it["x"], "y": it["y"]})
                    if "z" in it and "z" not in q:
                        q["z"] = it["z"]
        pts = sorted(cur.items(), key=lambda kv: kv[0].encode())
        toks = [f"flip {p} {net['axes']} {net['angles']} {len(pts)}"]
        f6 = lambda v: float(f"{v:.6f}")
        for pid, q in pts:
            toks.append(f"{1 if 'x' in q else 0} {float2hex(f6(q.get('x', 0.0)))} {float2hex(f6(q.get('y', 0.0)))} {float2hex(f6(q.get('z', 0.0)))}")
        g2r = lambda g: float(f"{g:.6f}") * 3.14159265358979323846 / 200.0
        toks.append(str(len(net["obs"])))
        for o in net["obs"]:
            obs, cov = [], []
            for it in o["items"]:
                if o["kind"] == "obs":
                    v = f6(it["val"]) if it["t"] in ("distance", "s-distance") else g2r(it["val"])
                    obs.append((KIND_NAME[it["t"]], v))
                elif o["kind"] == "hdiffs":
                    obs.append(("h_diff", f6(it["val"])))
                elif o["kind"] == "vectors":
                    obs += [("xdiff", f6(it["dx"])), ("ydiff", f6(it["dy"])), ("zdiff", f6(it["dz"]))]
                elif o["kind"] == "coords":
                    for k in ("x", "y", "z"):
                        if k in it:
                            obs.append((k, f6(it[k])))
            if o["kind"] in ("vectors", "coords"):       # clusters with an explicit <cov-mat>: dense matrix on the op line
                n_ = len(o["cov"])
                band = o.get("band", n_ - 1)
                band = n_ - 1 if band is None else band
                cov = [float(o["cov"][i][j]) if abs(i - j) <= band else 0.0 for i in range(n_) for j in range(n_)]
            dim = len(obs) if cov else 0
            toks.append(f"{len(obs)} {dim}")
            toks += [f"{k} {float2hex(v)}" for k, v in obs]
            toks += [float2hex(v) for v in cov]
        cases.append([" ".join(toks)])
    return cases


def correspond_input(ctx, corr, tmp):
    exe = build_harness(ctx)
    cases, kinds = input_cases(ctx)
    fl = flip_cases(ctx, tmp, ctx.size(40, 400))
    kinds += [("flip",)] * len(fl)
    cases += fl
    impl, crashes = run_cases(exe, cases)
    model, _ = run_cases(ctx.driver("drv_input"), cases)
    numeric = eqn = lts = degs = flips = covflips = 0
    pid3_cycles = pid3_reported = pmaps = pmap_bad = 0
    for i, c in enumerate(cases):
        k = kinds[i]
        key = None
        if k[0] == "pid":
            key = ("pid", k[1], k[2]) if M.norm_id(k[1].decode("latin1")) != M.norm_id(k[2].decode("latin1")) else None
        elif k[0] in ("dms", "ang", "pid3", "pmap"):
            key = k
        elif k[0] == "flip":
            key = ("flip", i)
        corr.case(key=key, sample={"op": c[0][:160], "impl": (impl[i] or ["?"])[0][:160]} if i % 97 == 0 else None)
        if i in crashes:
            corr.fail("harness crashed (sanitizer or exception)", {"stream": "input", "ops": c}, site="c07_input", detail=crashes[i][1])
            continue
        if k[0] == "flip" and impl[i]:
            # oracle on the implementation's own answers (C07_remove_inconsistency): a second remove_inconsistency is a no-op
            seg = [x.strip() for x in impl[i][0].split("#")]
            if len(seg) == 3 and seg[0].startswith("ok ") and seg[0][3:].strip() != seg[1]:
                gkf = Path(c[0].split()[1])
                corr.fail("remove_inconsistency is not idempotent (a second call changes points / observations / covariances)",
                          {"stream": "input", "ops": c, "impl": impl[i], "gkf": gkf.read_text() if gkf.exists() else None},
                          site="LocalNetwork::remove_inconsistency")
        if k[0] == "pid3" and impl[i] and impl[i][0].startswith("ok "):
            why = pid3_oracle(impl[i][0].split())
            pid3_cycles += why is not None
            if why is not None and pid3_reported < 2:
                pid3_reported += 1
                ids3 = [x.decode("latin1") for x in k[1:]]
                corr.fail(f"PointID::operator< is not transitive on a={ids3[0]!r} b={ids3[1]!r} c={ids3[2]!r}: {why}",
                          {"stream": "input", "ops": c, "impl": impl[i]}, site="PointID::operator<")
        if k[0] == "pmap" and impl[i] and impl[i][0].startswith("ok "):
            t_ = impl[i][0].split()
            want_size = len({M.norm_id(x.decode("latin1")) for x in k[1]})
            pmaps += 1
            if (int(t_[1]) != want_size or int(t_[2]) != len(k[1]) or t_[3] != "1"):
                pmap_bad += 1
                if pmap_bad <= 2:
                    corr.fail(f"std::map<PointID,...> filled with {len(k[1])} identifiers ({want_size} distinct): size {t_[1]}, "
                              f"{t_[2]} found again, iteration ascending: {t_[3]}",
                              {"stream": "input", "ops": c, "impl": impl[i], "ids": [x.decode("latin1") for x in k[1]]},
                              site="PointID::operator<")
        # flip: values are angular observations normalised by the constructors (norm_rad_val) -> tolerant on those only
        rt = 1e-12 if k[0] == "flip" else 0.0
        if len(impl[i]) != len(model[i]) or not all(lines_equal(a, b, rtol=rt, atol=rt) for a, b in zip(impl[i], model[i])):
            corr.disagree("input", c, impl[i], model[i])
            continue
        t = impl[i][0].split() if impl[i] else []
        if k[0] == "pid" and len(t) > 6:
            lts += t[1] == "1" or t[2] == "1"
            eqn += t[3] == "1"
            numeric += t[5] == "1" or t[6] == "1"
            # oracle: trichotomy and consistency of == / != on the implementation's own answers
            if (t[1] == "1") + (t[2] == "1") + (t[3] == "1") != 1 or (t[3] == "1") == (t[4] == "1"):
                corr.fail("PointID order is not trichotomous", {"stream": "input", "ops": c, "impl": impl[i]}, site="PointID::operator<")
        elif k[0] == "dms":
            degs += t[:2] == ["ok", "1"]
        elif k[0] == "flip":
            flips += impl[i][0].split("#")[0] != impl[i][0].split("#")[2]
            covflips += any(t.startswith("0x") and t[2] in "89abcdef" for seg in impl[i][0].split("#")[0].split(":")[1:]
                            for t in seg.split(";")[0].split())
    corr.count("pid_triples_intransitive", pid3_cycles)
    corr.count("pid_maps_filled", pmaps)
    corr.count("pid_maps_inconsistent", pmap_bad)
    corr.count("pid_pairs_ordered", lts)
    corr.count("pid_pairs_equal_after_normalisation", eqn)
    corr.count("pid_pairs_with_numeric_id", numeric)
    corr.count("sexagesimal_literals_accepted", degs)
    corr.count("flip_networks_inconsistent", flips)
    corr.count("flip_networks_with_negative_covariance_after_removal", covflips)
    if numeric < 50 or eqn < 20:
        corr.inconclusive.append("PointID generator produced too few numeric / equal pairs")
    if flips < 5:
        corr.inconclusive.append("too few inconsistent axes/angles networks in the flip stream")


# ------------------------------------------------------------------ (c) wrap stream: angular right-hand sides at the seam
# The generated linearisation's wrap loops are proved (C05/C07) to reduce the misclosure to (-200, 200] gon.  This
# stream evaluates the REAL LocalLinearization on a grid of (observed value, orientation, bearing) triples whose
# misclosure sits at every multiple of 200 gon with tiny offsets of both signs, and compares with the mathematical
# reduction.  A hit is realised as a network for the end-to-end oracle (circle rotation pair).
WRAP_OFFS = [0.0] + [s_ * d_ for d_ in (1e-4, 2e-4, 5e-4, 1e-3, 3e-3) for s_ in (1, -1)]
G2R = math.pi / 200.0
R2CC = 200.0e4 / math.pi
WRAP_TOL_CC = 1e-3


def _polar(bearing_gon, dist=100.0):
    return dist * math.cos(bearing_gon * G2R), dist * math.sin(bearing_gon * G2R)


def _c_bearing(dx, dy):
    b = math.atan2(dy, dx)
    return b if b >= 0 else b + 2 * math.pi


def wrap_cases(ctx):
    """[(op line, info)]: info = kind, gon values of the triple, the intended misclosure"""
    rng = ctx.rng
    out = []

    def add(kind, cs, rh, v, o, bt, bf, a_gon):
        tx, ty = _polar(bt)
        fx, fy = _polar(bf, 80.0)
        line = " ".join(["wrap", kind, str(cs), str(rh), float2hex(v * G2R), float2hex(o * G2R), float2hex(tx), float2hex(ty),
                         float2hex(fx), float2hex(fy)])
        out.append((line, {"kind": kind, "v": v, "o": o, "bt": bt, "bf": bf, "a": a_gon, "cs": cs, "rh": rh,
                           "t": (tx, ty), "f": (fx, fy)}))

    near = lambda: rng.choice([0.0, 1e-4, 2e-4, 1e-3, 399.9999, 399.9998, 399.999, 200.0, 100.0])
    for k in range(-4, 7):                      # direction: a = v + o - bearing, any multiple of 200 gon in [-800, 1200]
        for d in WRAP_OFFS:
            a = 200.0 * k + d
            for j in range(4):
                v = rng.uniform(0, 400) if j < 2 else near()
                bt = rng.uniform(0, 400) if j % 2 == 0 else near()
                add("Direction", 4, 0, v, a - v + bt, bt, 0.0, a)
            # realisable triples: v, o, bearing all in [0, 400) and the misclosure a multiple of 400 gon (+ offset)
            if k % 2 == 0 and -2 <= k <= 4:
                for _ in range(4):
                    e1, e2 = abs(rng.choice(WRAP_OFFS[1:])), abs(rng.choice(WRAP_OFFS[1:]))
                    if k == -2:
                        v, o = e1, e2                  # tiny reading, tiny orientation, bearing just below 400
                    elif k == 0:
                        v, o = rng.uniform(1, 399), None
                    elif k == 2:
                        v, o = rng.uniform(200, 399.9), None
                    else:
                        v, o = 400 - e1, 400 - e2      # reading and orientation just below 400, tiny bearing
                    if o is None:
                        bt = rng.uniform(0, 400)
                        o = a - v + bt
                    else:
                        bt = v + o - a
                    if 0 <= o < 400 and 0 <= bt < 400 and 0 <= v < 400:
                        add("Direction", 4, 0, v, o, bt, 0.0, a)
    for k in (-2, -1, 0, 1, 2):                 # angle: a = v - (bearing(fs) - bearing(bs) mod 400), a in (-400, 400)
        for d in WRAP_OFFS:
            a = 200.0 * k + d
            if not -400 < a < 400:
                continue
            lo, hi = max(0.0, -a), min(400.0, 400.0 - a)
            for j in range(3):
                ds = lo + (hi - lo) * (0.5 if j == 0 or hi - lo < 1e-2 else rng.random())
                if not (0 <= ds < 400 and 0 <= a + ds < 400):
                    continue
                bt = rng.uniform(0, 400)
                add("Angle", 4, 0, a + ds, 0.0, bt, (bt + ds) % 400.0, a)
    for cs, rh in ((4, 0), (5, 0), (0, 0), (3, 0), (0, 1), (1, 1), (4, 1), (6, 1)):   # azimuth: a = v + xNorth - bearing
        xn = ((M_XNORTH[cs] if not rh else (400 - M_XNORTH[cs])) % 400)
        for k in range(-2, 4):
            for d in WRAP_OFFS:
                a = 200.0 * k + d
                lo, hi = max(0.0, xn - a), min(400.0, 400.0 + xn - a)       # bearing range so that v in [0, 400)
                if hi <= lo:
                    continue
                bt = lo + (hi - lo) * (0.5 if hi - lo < 1e-2 else rng.random())
                v = a - xn + bt
                if 0 <= v < 400 and 0 <= bt < 400:
                    add("Azimuth", cs, rh, v, 0.0, bt, 0.0, a)
    return out


# PointData::xNorthAngle, left-handed value in gon, by enum position (EN, NW, SE, WS, NE, SW, ES, WN); used only to
# place the azimuth grid (the comparison takes the value the harness prints)
M_XNORTH = {0: 300, 1: 400, 2: 200, 3: 100, 4: 400, 5: 200, 6: 300, 7: 100}


def wrap_expected(info, value, xnorth):
    """misclosure in cc as the code forms it, and its reduction to (-200e4, 200e4]"""
    sb = _c_bearing(info["t"][0], info["t"][1])
    if info["kind"] == "Direction":
        a = (value + info["o"] * G2R - sb) * R2CC
    elif info["kind"] == "Azimuth":
        a = (value + xnorth - sb) * R2CC
    else:
        ds = _c_bearing(info["f"][0], info["f"][1]) - sb
        if ds < 0:
            ds += 2 * math.pi
        a = (value - ds) * R2CC
    return a, a - 400e4 * math.ceil((a - 200e4) / 400e4)


def wrap_network(info, c0=57.3):
    """a network in which gama-local meets the triple of a Direction hit: station S, the target G whose
    approximate position has the bearing of the hit while its reading closes on the true position, three more
    targets that fix the approximate orientation at the hit's value.  Returns (net_a, spec): net_a has the set
    turned by +c0 (away from the seam), spec turns it back onto the hit."""
    v, o, bt = info["v"], info["o"], info["bt"]
    eps = (v + o - bt + 200.0) % 400.0 - 200.0            # misclosure modulo 400 gon: tiny
    S = {"x": 1000.0, "y": 1000.0, "status": "fix"}
    pts = {"S": S}
    at = lambda b, d: {"x": S["x"] + d * math.cos(b * G2R), "y": S["y"] + d * math.sin(b * G2R)}
    true_g = at(bt + eps, 100.0)
    pts["G"] = dict(at(bt, 100.0), status="adj")          # approximate position: bearing of the hit
    others = {"A": (bt + 110.0, 180.0), "B": (bt + 205.0, 150.0), "C": (bt + 290.0, 220.0)}
    for pid, (b, d) in others.items():
        pts[pid] = dict(at(b % 400.0, d), status="fix")
    items = [{"t": "direction", "to": "G", "val": v % 400.0, "stdev": 10.0}]
    for pid, (b, d) in others.items():
        items.append({"t": "direction", "to": pid, "val": (G_bearing(S, pts[pid]) - o) % 400.0, "stdev": 10.0})
    items.append({"t": "distance", "to": "G", "val": math.hypot(true_g["x"] - S["x"], true_g["y"] - S["y"]), "stdev": 5.0})
    obs = [{"kind": "obs", "from": "S", "items": items}]
    for pid in ("A", "B"):
        obs.append({"kind": "obs", "from": pid, "items": [
            {"t": "distance", "to": "G", "val": math.hypot(true_g["x"] - pts[pid]["x"], true_g["y"] - pts[pid]["y"]), "stdev": 5.0}]})
    net_b = {"dim": 2, "points": pts, "obs": obs, "family": "wrap-realised",
             "params": {"sigma-apr": 10, "conf-pr": 0.95, "tol-abs": 1000, "sigma-act": "aposteriori"}}
    for ci, ob in enumerate(net_b["obs"]):
        ob["cid"] = str(ci)
        for ii, it in enumerate(ob["items"]):
            it["uid"] = f"{ci}.{ii}"
    net_a, _ = M.t_rotate(net_b, {"kind": "rotate", "c": {"0": c0}})
    return net_a, {"kind": "rotate", "c": {"0": -c0}}


def G_bearing(p, q):
    return (math.atan2(q["y"] - p["y"], q["x"] - p["x"]) / G2R) % 400.0


def wrap_stream(ctx, corr, tmp, gama_dir=None):
    """always-on: real LocalLinearization vs the mathematical reduction on the seam grid; hits are realised e2e"""
    exe = build_harness(ctx)
    cases = wrap_cases(ctx)
    impl, crashes = run_cases(exe, [[c[0]] for c in cases])
    hits = []
    for i, (line, info) in enumerate(cases):
        corr.case(key=("wrap", line), sample={"op": line[:120], "impl": (impl[i] or ["?"])[0][:100]} if i % 211 == 0 else None)
        corr.count("wrap_" + info["kind"])
        if i in crashes or not impl[i] or not impl[i][0].startswith("lin "):
            corr.fail("LocalLinearization threw / crashed on a seam triple", {"stream": "wrap", "ops": [line], "impl": impl[i]},
                      site="LocalLinearization::" + info["kind"].lower(), detail=str(crashes.get(i, impl[i]))[:300])
            continue
        t = impl[i][0].split()
        value, rhs, xn = hex2float(t[1]), hex2float(t[2]), hex2float(t[3])
        a, want = wrap_expected(info, value, xn)
        turns = (rhs - a) / 400e4
        ok = abs(turns - round(turns)) * 400e4 <= WRAP_TOL_CC and -200e4 - WRAP_TOL_CC < rhs <= 200e4 + WRAP_TOL_CC
        corr.maxstat("wrap_max_dev_cc", min(abs(rhs - want), abs(abs(rhs - want) - 400e4)))
        if not ok:
            hits.append((line, info, a, want, rhs))
    corr.count("wrap_hits", len(hits))
    if not hits:
        return
    # realise a Direction hit with reading, orientation, bearing all in [0, 400) as a network (circle rotation pair)
    realised = 0
    if gama_dir is None:
        gama_dir = ctx.build_gama(sanitize=False, targets=("gama-local",))
    for line, info, a, want, rhs in hits:
        if realised >= 2:
            break
        if info["kind"] != "Direction" or not (0 <= info["v"] < 400 and 0 <= info["o"] < 400 and 0 <= info["bt"] < 400):
            continue
        if abs((a / 1e4 + 200.0) % 400.0 - 200.0) > 0.01:
            continue
        d = tmp / f"wrap{realised}"
        d.mkdir(exist_ok=True)
        net_a, spec = wrap_network(info)
        try:
            payload, bad = failure_payload(gama_dir / "gama-local", d, net_a, spec, "envelope")
        except Exception as ex:
            ctx.log("wrap realisation failed:", repr(ex))
            continue
        if bad:
            realised += 1
            payload["wrap_hit"] = {"op": line, "misclosure_cc": a, "expected_rhs_cc": want, "rhs_cc": rhs}
            corr.fail("circle rotation onto a seam triple changes the adjustment (angular right-hand side not reduced to "
                      "(-200, 200] gon): " + ", ".join(payload["fields"][:6]), payload, site="LocalLinearization::direction",
                      detail=json.dumps(payload["violations"][:4], ensure_ascii=False))
    corr.count("wrap_hits_realised", realised)
    for line, info, a, want, rhs in hits[:1 if realised else 3]:
        corr.fail("angular right-hand side is not the reduction of the misclosure to (-200, 200] gon",
                  {"stream": "wrap", "ops": [line], "kind": info["kind"], "misclosure_cc": a, "expected_rhs_cc": want,
                   "rhs_cc": rhs, "triple_gon": {k: info[k] for k in ("v", "o", "bt", "bf")}},
                  site="LocalLinearization::" + info["kind"].lower(),
                  detail=f"misclosure {a!r} cc: rhs {rhs!r}, expected {want!r}")


# ------------------------------------------------------------------ (b) metamorphic search
def run_gama(gama, wd, tag, net, alg, text=False):
    p, x, t = wd / f"{tag}.gkf", wd / f"{tag}.xml", wd / f"{tag}.txt"
    p.write_text(M.to_gkf(net))
    for f in (x, t):
        if f.exists():
            f.unlink()
    cmd = [str(gama), str(p), "--algorithm", alg, "--xml", str(x)] + (["--text", str(t)] if text else [])
    try:
        rc, out, err = sh(cmd, timeout=40)       # a normal run takes < 1 s; a comparator that is not an order can make std::map loop
    except Exception as e:   # timeout
        return {"error": f"timeout/{e}", "obs": [], "crash": True}, ""
    if rc in (86, 87) or rc < 0:
        return {"error": f"crash rc={rc} {err[-400:]}", "obs": [], "crash": True}, ""
    if not x.exists():
        return {"error": f"no xml rc={rc} {(out + err)[-200:]}", "obs": []}, ""
    return M.parse_xml(x.read_text(errors="replace")), (t.read_text(errors="replace") if text and t.exists() else "")


def outlying_rows(text):
    """rows of the table 'Outlying absolute terms in project equations' of the text output"""
    m = re.search(r"Outlying absolute terms.*?\n=+[^\n]*\n(.*?)\n\s*\n", text, re.S)
    rows = []
    if m:
        for l in m.group(1).splitlines():
            t = l.split()
            if len(t) >= 6:
                try:
                    rows.append({"from": t[1], "to": t[2], "type": t[3], "term": float(t[-1])})
                except ValueError:
                    pass
    return rows


def eval_pair(gama, wd, tag, net, spec, alg, text=False):
    nb, e = M.apply(net, spec)
    ra, ta = run_gama(gama, wd, tag + "a", net, alg, text)
    rb, tb = run_gama(gama, wd, tag + "b", nb, alg, text)
    bad = M.compare(ra, rb, e, net)
    crash = [r["error"] for r in (ra, rb) if r.get("crash")]
    return bad, ra, rb, nb, e, crash, (ta, tb)


def seam_distance(net_a, net_b, rows_a, rows_b):
    """largest distance (gon) of an approximate orientation shift from 200 gon, over the stations whose
    directions were removed as outliers (None when nothing was removed)"""
    worst = None
    for net, rows in ((net_a, rows_a), (net_b, rows_b)):
        for st in sorted(set(r["from"] for r in rows if r["type"] == "dir.")):
            if st not in net["points"]:
                continue
            for sft in M.orientation_shifts(net, st):
                d = abs(sft - 200.0)
                worst = d if worst is None else max(worst, d)
    return worst


def bad_signature(bad):
    return tuple(sorted(set(b[0] for b in bad)))


def shrink(gama, wd, net, spec, alg, bad):
    """drop observations (ddmin over item uids), re-applying the transformation to the reduced network; the
    reduced pair must fail with at least one of the originally violated fields and the original must still adjust"""
    want = set(bad_signature(bad))

    def fails(uids):
        small = M.drop_items(net, uids)
        if not small["obs"]:
            return False
        try:
            b, ra, rb, *_ = eval_pair(gama, wd, "s", small, M.respec(spec, small), alg)
        except Exception:
            return False
        if ra.get("error") is not None and "status" not in want:
            return False
        # the reduced pair must fail in the SAME way: a violated field the original pair did not show (typically
        # points removed / dof changed because dropping observations made the network singular, where the order of
        # the input decides which unknowns go: C20's subject) means ddmin walked into another phenomenon
        sig = set(bad_signature(b))
        return bool(sig) and sig <= want

    uids = M.all_uids(net)
    if len(uids) > 60 or not fails(uids):
        return net, spec
    small_uids = ddmin(uids, fails, max_tests=120)
    small = M.drop_items(net, small_uids)
    return small, M.respec(spec, small)


def failure_payload(gama, wd, net, spec, alg):
    bad, ra, rb, nb, e, crash, (ta, tb) = eval_pair(gama, wd, "f", net, spec, alg, text=True)
    corr_clusters = [o["kind"] for o in net["obs"] if o["kind"] in ("vectors", "coords")
                     and any(o["cov"][i][j] != 0 for i in range(len(o["cov"])) for j in range(len(o["cov"])) if i != j)]
    return {"stream": "meta", "family": net.get("family"), "algorithm": alg, "spec": spec, "net": net,
            "gkf_original": M.to_gkf(net), "gkf_transformed": M.to_gkf(nb),
            "violations": [{"field": b[0], "detail": str(b[1])[:300], "measured": b[2], "allowed": b[3]} for b in bad[:40]],
            "fields": sorted(set(b[0] for b in bad)),
            "status": [ra.get("error"), rb.get("error")],
            "outlying": [outlying_rows(ta), outlying_rows(tb)],
            "seam_distance": seam_distance(net, nb, outlying_rows(ta), outlying_rows(tb)),
            "correlated_clusters": corr_clusters,
            "consistent": (None if spec["kind"] != "mirror" else
                           ((spec["axes"] in ("ne", "sw", "es", "wn")) == (spec["angles"] == "left-handed")))}, bad


def meta_cases(ctx, n):
    rng = ctx.rng
    kinds = ["translate", "rotate", "rotate-seam", "permute", "rename", "degrees", "swap", "mirror"]
    out = []
    k = 0
    while len(out) < n:
        net = M.base_network(rng)
        for _ in range(3):
            kind = kinds[k % len(kinds)]
            k += 1
            net_k = net
            if kind == "swap" and rng.random() < 0.7:
                # points listed with coordinates only (no fix/adj) as one end of distances / slope distances / height
                # differences: left out by the revision, whichever end they are written at
                net_k = M.with_unused_points(rng, net)
            spec = M.random_spec(rng, net_k, kind)
            if spec is None:
                continue
            algs = ALGS if ctx.thorough else [ALGS[len(out) % 4]]
            out.append((net_k, spec, algs))
    # every one of the 8 axes x 2 angle senses at least once as the target of a mirror of a network WITH azimuths
    # (the north bearing of the x axis only matters for azimuths; random draws reach a given combination rarely)
    for i, axes in enumerate(M.AXES):
        for j, ang in enumerate(("left-handed", "right-handed")):
            net = M.base_network(rng, "2d-ang-azi")
            out.append((net, {"kind": "mirror", "axes": axes, "angles": ang}, ALGS if ctx.thorough else [ALGS[(2 * i + j) % 4]]))
    return out


def corpus_cases(ctx):
    d = ctx.verif / "corpus" / "C07"
    out = []
    if d.exists():
        for f in sorted(d.glob("*.json")):
            j = json.loads(f.read_text())
            if j.get("stream") == "meta":
                out.append((j["net"], j["spec"], [j.get("algorithm", "envelope")], f.name))
    return out


def search_meta(ctx, corr, n, wd, gama):
    cases = [(net, spec, algs, None) for net, spec, algs in meta_cases(ctx, n)]
    cases = corpus_cases(ctx) + cases
    jobs = []
    for i, (net, spec, algs, src) in enumerate(cases):
        for alg in algs:
            jobs.append((i, net, spec, alg, src))

    def work(j):
        i, net, spec, alg, src = j
        d = wd / f"j{i}{alg}"
        d.mkdir(exist_ok=True)
        try:
            bad, ra, rb, nb, e, crash, _ = eval_pair(gama, d, "p", net, spec, alg)
        except Exception as ex:        # a bug of the oracle itself must not pass silently
            return j, [("oracle-exception", repr(ex), 1, 0)], None, None, [], 1.0
        shutil.rmtree(d, ignore_errors=True)
        return j, bad, ra.get("error"), rb.get("error"), crash, e.get("tolscale", 1.0)

    with ThreadPoolExecutor(max_workers=min(16, os.cpu_count() or 4)) as ex:
        results = list(ex.map(work, jobs))
    seen_sig = {}
    for (i, net, spec, alg, src), bad, ea, eb, crash, ts in results:
        kind = spec["kind"] + ("-seam" if spec.get("seam") else "")
        corr.case(key=(M.to_gkf(net), json.dumps(spec, sort_keys=True), alg) if ea is None else None,
                  sample={"family": net.get("family"), "spec": json.dumps(spec, ensure_ascii=False)[:200], "alg": alg,
                          "violations": len(bad)} if i % 37 == 0 else None)
        corr.count("pairs_" + kind)
        if spec["kind"] == "swap" and net.get("unused_uids"):
            corr.count("pairs_swap_with_coordinates_only_points")
            corr.count("swapped_observations_to_coordinates_only_points", len(net["unused_uids"]))
        corr.count("family_" + str(net.get("family")))
        corr.maxstat("max_tolscale", ts)
        if ea is not None:
            corr.count("original_not_adjusted")
        for c in crash:
            corr.fail("gama-local crashed", {"stream": "meta", "spec": spec, "net": net, "algorithm": alg, "crash": c},
                      site="gama-local", detail=c)
        if not bad:
            continue
        corr.count("pairs_failing_" + kind)
        sig = (kind, net.get("family"), bad_signature(bad))
        seen_sig[sig] = seen_sig.get(sig, 0) + 1
        if seen_sig[sig] > 2:           # report at most two (shrunk) representatives per signature
            continue
        d = wd / f"shr{i}{alg}"
        d.mkdir(exist_ok=True)
        # a pair on which gama-local crashed / timed out is reported as it is (every shrinking step would wait again)
        small, sspec = (net, spec) if crash else shrink(gama, d, net, spec, alg, bad)
        payload, sbad = failure_payload(gama, d, small, sspec, alg)
        if not sbad:                   # shrinking lost it (should not happen): report the unshrunk pair
            payload, sbad = failure_payload(gama, d, net, spec, alg)
        shutil.rmtree(d, ignore_errors=True)
        for part in split_groups(payload):
            what = (f"{kind} of a {net.get('family')} network changes the adjustment: " + ", ".join(part["fields"][:8]))
            corr.fail(what, part, site=site_of(part), detail=json.dumps(part["violations"][:6], ensure_ascii=False))
    for sig, k in seen_sig.items():
        corr.count("failing_signature " + " ".join(map(str, sig))[:150], k)


_SIGMA_L = re.compile(r"\('(dx|dy|dz|coordinate-[xyz])'")


def split_groups(p):
    """one failure per mechanism group: (A) sigma_L-derived statistics of observations in correlated clusters,
    (B) everything else -- so that two independent defects met by the same pair are classified separately"""
    a = [v for v in p["violations"] if v["field"] in ("stdev", "qrr", "f", "std-residual") and _SIGMA_L.match(v["detail"])]
    b = [v for v in p["violations"] if v not in a]
    if not a or not b or not p.get("correlated_clusters"):
        return [p]
    out = []
    for grp in (a, b):
        q = dict(p)
        q["violations"] = grp
        q["fields"] = sorted(set(v["field"] for v in grp))
        out.append(q)
    return out


def site_of(p):
    k = classify_payload(p)
    return {"C07-F2": "LocalNetwork::vyrovnani_ (sigma_L)", "C07-F3": "LocalNetworkXML::coordinates/std_error_ellipses"}.get(k, "gama-local")


# ------------------------------------------------------------------ known findings (narrow signatures on the shrunk replay)
def classify_payload(p):
    if not isinstance(p, dict) or p.get("stream") != "meta":
        return None
    fields = set(p.get("fields", []))
    spec = p.get("spec", {})
    # (F15 orientation seam and C07-F1 mirrored covariances are FIXED in /repo (01e764d, c7fddb0): they are no longer
    #  classified; their shrunk pairs stay in corpus/C07 as regression inputs and must pass.)
    # C07-F2 (root cause = C09-F1): sigma_L / qrr / f / std-residual of observations inside a cluster with a
    # non-diagonal covariance matrix depend on the position of the observation in the cluster
    if fields and fields <= {"stdev", "qrr", "f", "std-residual"} and p.get("correlated_clusters") and \
            spec.get("kind") in ("permute", "mirror", "swap") and \
            all(re.match(r"\('(dx|dy|dz|coordinate-[xyz])'", v["detail"]) for v in p.get("violations", [])):
        return "C07-F2"
    if spec.get("kind") == "mirror" and p.get("consistent") is False:
        # C07-F3: XML cov-mat / ellipse bearing refer to the internally mirrored system
        covs = [v for v in p.get("violations", []) if v["field"] == "cov"]
        flipped = all(re.search(r"expected (\S+) got (\S+)", v["detail"]) and
                      abs(float(re.search(r"expected (\S+) got (\S+)", v["detail"]).group(1)) +
                          float(re.search(r"expected (\S+) got (\S+)", v["detail"]).group(2))) <=
                      1e-4 * abs(float(re.search(r"expected (\S+) got (\S+)", v["detail"]).group(1))) + 1e-12 for v in covs)
        if fields and fields <= {"cov", "ellipse-alpha"} and flipped:
            return "C07-F3"
    return None


def classify(ctx, failure):
    return classify_payload(failure.replay)


def explained_by_known(ctx, broken_item, matched_ids):
    return False


# ------------------------------------------------------------------ pipeline entry points
def correspond(ctx, corr):
    tmp = Path(tempfile.mkdtemp(prefix="c07-", dir=str(ctx.build)))
    try:
        correspond_input(ctx, corr, tmp)
        gd = ctx.build_gama(sanitize=False, targets=("gama-local",))
        wrap_stream(ctx, corr, tmp, gd)
        search_meta(ctx, corr, ctx.size(400, 2500), tmp, gd / "gama-local")
        for k in ("translate", "rotate", "rotate-seam", "permute", "rename", "degrees", "swap", "mirror"):
            if corr.stats.get("pairs_" + k, 0) < 5:
                corr.inconclusive.append(f"fewer than 5 pairs of kind {k}")
        if corr.stats.get("pairs_swap_with_coordinates_only_points", 0) < 3:
            corr.inconclusive.append("fewer than 3 swap pairs with a point listed with coordinates only as one end of an observation")
        if corr.stats.get("original_not_adjusted", 0) > 0.1 * max(1, corr.evaluations):
            corr.inconclusive.append("more than 10 % of the generated networks do not adjust")
    finally:
        shutil.rmtree(tmp, ignore_errors=True)


def search(ctx, broken, corr):
    """something broke (proof / translator / correspondence) and the always-on oracle found nothing: look harder"""
    tmp = Path(tempfile.mkdtemp(prefix="c07s-", dir=str(ctx.build)))
    try:
        gd = ctx.build_gama(sanitize=False, targets=("gama-local",))
        c2 = Corr()
        ctx2 = Ctx(ctx.id, "thorough", ctx.seed)
        # the wrap code of the generated linearisation changed / is not translatable, or anything else broke: the seam
        # grid on the real LocalLinearization first (cheap), with other seeds, hits realised as networks
        for k in range(3):
            wrap_stream(Ctx(ctx.id, "thorough", ctx.seed + 77 * (k + 1)), c2, tmp, gd)
            if c2.failures:
                return c2.failures
        search_meta(ctx2, c2, 1200, tmp, gd / "gama-local")
        if not [f for f in c2.failures if classify_payload(f.replay) is None]:     # reproductions of known findings do not count
            # the input stream with many more cases (PointID order / conversion)
            ctx3 = Ctx(ctx.id, "thorough", ctx.seed + 1000)
            correspond_input(ctx3, c2, tmp)
            for d in c2.disagreements[:3]:
                g = Path(d["case"][0].split()[1]) if d["case"] and d["case"][0].startswith("flip ") else None
                c2.fail("model and implementation disagree on an input operation", {"stream": "input", "ops": d["case"],
                                                                                      "impl": d["impl"], "model": d["model"],
                                                                                      "gkf": g.read_text() if g and g.exists() else None},
                        site="c07_input")
        return c2.failures
    finally:
        shutil.rmtree(tmp, ignore_errors=True)


def replay(ctx, payload):
    inp = payload.get("failure", {}).get("input", payload)
    tmp = Path(tempfile.mkdtemp(prefix="c07r-", dir=str(ctx.build)))
    try:
        if inp.get("stream") == "wrap":
            exe = build_harness(ctx)
            impl, crashes = run_cases(exe, [inp["ops"]])
            print("impl :", impl[0], " expected rhs (cc):", inp.get("expected_rhs_cc"))
            if crashes or not impl[0] or not impl[0][0].startswith("lin "):
                return 1
            rhs = hex2float(impl[0][0].split()[2])
            return 0 if abs(rhs - inp["expected_rhs_cc"]) <= WRAP_TOL_CC or \
                abs(abs(rhs) - 200e4) <= WRAP_TOL_CC and abs(abs(inp["expected_rhs_cc"]) - 200e4) <= WRAP_TOL_CC else 1
        if inp.get("stream") == "input":
            try:
                translate(ctx)          # the driver must be the model of THIS tree (Gen/PointIdCmp.lean is regenerated)
            except TieBroken as e:
                print("translator:", e)
            ok, log = ctx.lake_build(DRIVERS)
            if not ok:
                print("lake build drv_input failed:", log[-400:])
            exe = build_harness(ctx)
            ops = list(inp["ops"])
            if inp.get("gkf") and ops and ops[0].startswith("flip "):      # the op line names a file: restore it
                g = tmp / "replay.gkf"
                g.write_text(inp["gkf"])
                t = ops[0].split()
                t[1] = str(g)
                ops[0] = " ".join(t)
            impl, crashes = run_cases(exe, [ops])
            model, _ = run_cases(ctx.driver("drv_input"), [ops])
            print("impl :", impl[0])
            print("model:", model[0])
            rt = 1e-12 if ops and ops[0].startswith("flip ") else 0.0
            same = len(impl[0]) == len(model[0]) and all(lines_equal(a, b, rtol=rt, atol=rt) for a, b in zip(impl[0], model[0]))
            idem = True
            if ops and ops[0].startswith("pid3 ") and impl[0] and impl[0][0].startswith("ok "):
                why = pid3_oracle(impl[0][0].split())
                print("transitive on the triple:", why is None, why or "")
                idem = why is None
            if ops and ops[0].startswith("pmap ") and impl[0] and impl[0][0].startswith("ok "):
                t_ = impl[0][0].split()
                idem = t_[2] == str(len(ops[0].split()) - 1) and t_[3] == "1"
                print("every inserted identifier found again, iteration ascending:", idem)
            if ops and ops[0].startswith("flip ") and impl[0]:
                seg = [x.strip() for x in impl[0][0].split("#")]
                idem = not (len(seg) == 3 and seg[0].startswith("ok ") and seg[0][3:].strip() != seg[1])
                print("second remove_inconsistency is a no-op:", idem)
            return 1 if (crashes or not same or not idem) else 0
        gd = ctx.build_gama(sanitize=False, targets=("gama-local",))
        p, bad = failure_payload(gd / "gama-local", tmp, inp["net"], inp["spec"], inp.get("algorithm", "envelope"))
        for b in bad[:20]:
            print("violated:", b)
        print("status:", p["status"], "known finding:", classify_payload(p))
        return 1 if bad else 0
    finally:
        shutil.rmtree(tmp, ignore_errors=True)
