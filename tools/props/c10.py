"""C10 — correlated observations are weighted by their full covariance matrix."""
import itertools
import re
from fractions import Fraction

from lib.core import *

ID = "C10"
PROPS_FILES = ["Gama/Props/C10.lean", "Gama/Props/C10YSign.lean", "Gama/Props/C10HomSites.lean",
               "Gama/Props/C10Accept.lean", "Gama/Props/C10Net.lean", "Gama/Props/C10Aliased.lean",
               "Gama/Props/C10PeWitness.lean"]
LEAN_TARGETS = ["Gama.Props.C10", "Gama.Props.C10YSign", "Gama.Props.C10HomSites",
                "Gama.Props.C10Accept", "Gama.Props.C10Net", "Gama.Props.C10Aliased", "Gama.Props.C10PeWitness"]
DRIVERS = ["drv_cov"]
RULE = ("CovMat/BandMat index maps for every dim 1..8 x band 0..dim-1 (exhaustive); band LDL' / Cholesky / forward "
        "substitution on SPD matrices L L' built from small integers, every band; Cluster::activeCov for EVERY active "
        "mask (dim <= 6, every band) plus random multi-dimensional observations; scaleCov at every position; "
        "BlockDiagonal::cholDec + Homogenization sweep vs the dense path; the whole Homogenization::run on 1..5 blocks of dim "
        "1..6 with every band width, unsorted sparse rows over 1..6 unknowns (empty rows, fill-in, exact zeros, repeated column "
        "indices, not positive definite block first/middle/last); malformed: indefinite, zero / negative "
        "variance, exactly singular; <cov-mat> documents through gama-local; inconsistent axes/angles (all 8 axes-xy) x <vectors> "
        "clusters with 2..5 vectors / <coordinates> clusters with 3..5 points x full or band >= 3 covariance matrices (L L' and "
        "diagonally dominant) with non-zero cov(dy_i,dy_j): left- vs right-handed angles x 4 algorithms vs the exact rational "
        "generalised least squares solution, the same networks through the real change_y_signs_for_inconsistent_system_ in process "
        "(bit-exact vs the model and vs D C D), and their --export adjusted again. Distinct = distinct operation line; "
        "non-trivial = dim >= 2 (index maps: band >= 1; masks: at least one excluded and one active observation)")

SRC = ["lib/gnu_gama/adj/adj.cpp", "lib/gnu_gama/adj/adj_input_data.cpp", "lib/gnu_gama/adj/icgs.cpp"]
ALGS = ["envelope", "gso", "svd", "cholesky"]


# ------------------------------------------------------------------ generators

def H(x):
    return float2hex(float(x))


def band_pairs(d, b):
    return [(i, j) for i in range(1, d + 1) for j in range(i, min(d, i + b) + 1)]


def gen_L(rng, d, b, diag=(1, 2, 3, 4), off=(-3, 3)):
    """lower triangular band matrix of small integers, positive diagonal (0-based dense)"""
    L = [[0] * d for _ in range(d)]
    for i in range(d):
        L[i][i] = rng.choice(diag)
        for j in range(max(0, i - b), i):
            L[i][j] = rng.randint(off[0], off[1])
    if b >= 1 and d >= 2:      # make sure the band is really used
        i = rng.randint(b, d - 1) if d - 1 >= b else d - 1
        if L[i][i - min(b, i)] == 0:
            L[i][i - min(b, i)] = rng.choice([-2, -1, 1, 2])
    return L


def llt(L):
    d = len(L)
    return [[sum(L[i][k] * L[j][k] for k in range(d)) for j in range(d)] for i in range(d)]


def packed(C, b):
    d = len(C)
    return [C[i - 1][j - 1] for (i, j) in band_pairs(d, b)]


def cov_tokens(d, b, elems):
    return [str(d), str(b)] + [H(e) for e in elems]


def gen_spd(rng, d, b, **kw):
    L = gen_L(rng, d, b, **kw)
    C = llt(L)
    return L, C


def frac_solve(M, rhs):
    """exact solution of M x = rhs (square, Fractions); None if singular"""
    n = len(M)
    A = [[Fraction(v) for v in row] + [Fraction(r)] for row, r in zip(M, rhs)]
    for c in range(n):
        piv = next((r for r in range(c, n) if A[r][c] != 0), None)
        if piv is None:
            return None
        A[c], A[piv] = A[piv], A[c]
        for r in range(n):
            if r != c and A[r][c] != 0:
                f = A[r][c] / A[c][c]
                A[r] = [x - f * y for x, y in zip(A[r], A[c])]
    return [A[i][n] / A[i][i] for i in range(n)]


def frac_inv(M):
    n = len(M)
    cols = [frac_solve(M, [1 if i == k else 0 for i in range(n)]) for k in range(n)]
    if any(c is None for c in cols):
        return None
    return [[cols[j][i] for j in range(n)] for i in range(n)]


# ------------------------------------------------------------------ correspondence

def compare(impl, model, rtol, atol):
    return len(impl) == len(model) and all(lines_equal(a, b, rtol=rtol, atol=atol) for a, b in zip(impl, model))


def correspond(ctx, corr):
    rng = ctx.rng
    exe = ctx.build_cpp("c10_cov", [ctx.verif / "harness" / "c10_cov.cpp"] + [ctx.repo / s for s in SRC])
    drv = ctx.driver("drv_cov")
    cases = []     # (stream, lines, key, rtol, atol, meta)

    def add(stream, lines, key, rtol=0.0, atol=0.0, meta=None):
        cases.append((stream, lines, key, rtol, atol, meta or {}))

    corpus = ctx.verif / "corpus" / "C10"
    if corpus.exists():
        for f in sorted(corpus.glob("cov-*.txt")):
            ls = [l for l in f.read_text().split("\n") if l.strip()]
            add("corpus", ls, "corpus:" + f.name, 1e-9, 1e-12)

    # 1. index maps: exhaustive dims 1..8 (thorough: ..14), every band (and band = dim for the formula's limit)
    maxd = ctx.size(8, 14)
    for d in range(1, maxd + 1):
        for b in range(0, d):
            add("idx", [f"idx {d} {b}"], f"idx {d} {b}" if b >= 1 else None)
            add("bandidx", [f"bandidx {d} {b}"], f"bandidx {d} {b}" if b >= 1 else None)

    # 2. band LDL' (CovMat::cholDec), Adj::choldec, forward substitution: every dim x band, several draws
    reps = ctx.size(2, 12)
    for d in range(1, 9):
        for b in range(0, d):
            for rep in range(reps):
                L, C = gen_spd(rng, d, b)
                toks = cov_tokens(d, b, packed(C, b))
                v = [rng.randint(-9, 9) for _ in range(d)]
                key = f"chol {d} {b} {rep}" if d >= 2 else None
                add("chol", ["cholR " + " ".join(toks), "cholptrR " + " ".join(toks), "cholF " + " ".join(toks),
                             "cholptrF " + " ".join(toks), "acholF " + " ".join(toks)], key, 1e-10, 1e-13,
                    {"d": d, "b": b})
                # forward substitution with the exact Cholesky factor L (integers): rows of L' in packed upper form
                Lt = [[L[j][i] for j in range(d)] for i in range(d)]
                ltoks = cov_tokens(d, b, packed(Lt, b))
                vs = " ".join(H(x) for x in v)
                add("fwd", ["fwdR " + " ".join(ltoks) + " | " + vs, "fwdF " + " ".join(ltoks) + " | " + vs,
                            "denseF " + " ".join(toks) + " | " + vs, "sweepF " + " ".join(toks) + " | " + vs],
                    f"fwd {d} {b} {rep}" if d >= 2 else None, 1e-9, 1e-12, {"d": d, "b": b, "L": L, "v": v})

    # 3. malformed matrices: indefinite, zero / negative variance, exactly singular (exact in double: diag 1,2,4)
    for d in range(1, 7):
        for b in range(0, d):
            for kind in ("indef", "zero", "neg", "singular", "nan"):
                L, C = gen_spd(rng, d, b, diag=(1, 2, 4), off=(-2, 2))
                k = rng.randrange(d)
                if kind == "indef":
                    if d == 1:
                        C[0][0] = -C[0][0]
                    else:
                        j = k - 1 if k > 0 and b >= 1 else k
                        if b >= 1 and j != k:
                            C[k][j] = C[j][k] = 10 * (abs(C[k][k]) + abs(C[j][j])) + 1
                        else:
                            C[k][k] = -1 - C[k][k]
                elif kind == "zero":
                    C[k][k] = 0
                elif kind == "neg":
                    C[k][k] = -C[k][k]
                elif kind == "singular":
                    L[k][k] = 0
                    C = llt(L)
                elif kind == "nan":
                    C[k][k] = float("nan")
                toks = cov_tokens(d, b, packed(C, b))
                ops = ["cholF " + " ".join(toks), "cholptrF " + " ".join(toks)]
                if kind != "nan":
                    ops += ["cholR " + " ".join(toks), "cholptrR " + " ".join(toks)]
                add("malformed", ops, f"mal {kind} {d} {b}", 1e-10, 1e-13, {"kind": kind})

    # 4. activeCov: every mask for dim <= 6 and every band; random multi-dimensional observations for dim 7..8
    act_dims = range(1, ctx.size(6, 7) + 1)
    for d in act_dims:
        for b in range(0, d):
            L, C = gen_spd(rng, d, b)
            toks = " ".join(cov_tokens(d, b, packed(C, b)))
            lines = []
            for mask in itertools.product("01", repeat=d):
                lines.append(f"actF {toks} | " + " ".join("1" * d) + " | " + " ".join(mask))
            add("active", lines, f"act {d} {b}" if d >= 2 else None, 0.0, 0.0, {"d": d, "b": b, "C": C})
    for _ in range(ctx.size(40, 400)):
        nobs = rng.randint(1, 5)
        dims = [rng.choice([1, 1, 2, 3]) for _ in range(nobs)]
        d = sum(dims)
        b = rng.randint(0, d - 1)
        L, C = gen_spd(rng, d, b)
        mask = [rng.choice("01") for _ in range(nobs)]
        toks = " ".join(cov_tokens(d, b, packed(C, b)))
        add("active", [f"actR {toks} | " + " ".join(map(str, dims)) + " | " + " ".join(mask),
                       f"actF {toks} | " + " ".join(map(str, dims)) + " | " + " ".join(mask)],
            f"actm {dims} {b} {mask}" if "0" in mask and "1" in mask else None, 0.0, 0.0,
            {"d": d, "b": b, "C": C, "dims": dims})

    # 5. scaleCov at every position
    for d in range(1, 7):
        for b in range(0, d):
            L, C = gen_spd(rng, d, b)
            toks = " ".join(cov_tokens(d, b, packed(C, b)))
            sc = rng.choice([2.0, 0.5, 3.0, 1.0 / 0.324])
            lines = [f"scaleR {toks} | {p} {H(sc)}" for p in range(1, d + 1)]
            lines += [f"scaleF {toks} | {p} {H(sc)}" for p in range(1, d + 1)]
            add("scale", lines, f"scale {d} {b}" if d >= 2 else None, 1e-12, 0.0, {"d": d, "b": b, "C": C, "sc": sc})

    # 6. BlockDiagonal::cholDec on several blocks (incl. a rejected block in the middle)
    for rep in range(ctx.size(30, 300)):
        nb = rng.randint(1, 4)
        groups, bad_at = [], None
        for k in range(nb):
            d = rng.randint(1, 6)
            b = rng.randint(0, d - 1)
            L, C = gen_spd(rng, d, b, diag=(1, 2, 4), off=(-2, 2))
            if rep % 3 == 0 and bad_at is None and rng.random() < 0.5:
                i = rng.randrange(d)
                C[i][i] = -C[i][i]
                bad_at = k + 1
            groups.append(" ".join(cov_tokens(d, b, packed(C, b))))
        add("blockdiag", ["bdF default | " + " | ".join(groups)], f"bd {rep}", 1e-9, 1e-13, {"bad_at": bad_at})

    # ---- run
    lines_all = [c[1] for c in cases]
    impl, crashes = run_cases(exe, lines_all)
    model, mcr = run_cases(drv, lines_all)
    maxdev = 0.0
    for i, (stream, lines, key, rtol, atol, meta) in enumerate(cases):
        corr.case(key=key, sample={"stream": stream, "ops": [l[:160] for l in lines[:2]], "impl": [l[:160] for l in impl[i][:2]]}
                  if (stream in ("chol", "active") and meta.get("d") == 4 and meta.get("b") == 2) else None)
        corr.count("stream_" + stream)
        if i in crashes:
            corr.fail(f"C10 harness crashed in stream {stream} (sanitizer / abort)", {"stream": stream, "ops": lines},
                      "c10_cov:" + stream, crashes[i][1])
            continue
        if i in mcr:
            corr.disagree(stream, lines, impl[i], model[i], "model driver crashed")
            continue
        if not compare(impl[i], model[i], rtol, atol):
            bad = next((k for k, (a, b) in enumerate(zip(impl[i], model[i])) if not lines_equal(a, b, rtol=rtol, atol=atol)),
                       min(len(impl[i]), len(model[i])))
            corr.disagree(stream, lines[bad:bad + 1] or lines, impl[i][bad:bad + 1], model[i][bad:bad + 1],
                          f"line {bad} of {len(lines)}")
            # the property oracle below turns this into a failing input where it can
        for l in impl[i]:
            if l.startswith("throw"):
                corr.count("impl_" + l.split()[1])
        try:
            oracle(ctx, corr, stream, lines, impl[i], meta)
        except (IndexError, ValueError, KeyError, ZeroDivisionError) as ex:
            corr.fail(f"implementation output of stream {stream} does not have the expected shape ({type(ex).__name__}: {ex})",
                      {"stream": stream, "ops": lines[:3]}, "c10_cov:" + stream, "\n".join(l[:200] for l in impl[i][:3]))

    homrun_stream(ctx, corr, exe, drv)
    adj_stream(ctx, corr, exe)
    parse_stream(ctx, corr)
    net_stream(ctx, corr)
    ysign_stream(ctx, corr, drv)


# ------------------------------------------------------------------ property oracle on the implementation

def toks_f(line):
    return [hex2float(t) for t in line.split() if is_hex(t)]


def oracle(ctx, corr, stream, lines, out, meta):
    """the property itself, evaluated on what the real code returned"""
    if stream == "idx" or stream == "bandidx":
        # no aliasing, no out-of-buffer access, every cell of the buffer used (CovMat only)
        t = out[0].split()
        size = int(t[1])
        d, b = int(lines[0].split()[1]), int(lines[0].split()[2])
        cells = t[2:]
        seen = {}
        for r in range(1, d + 1):
            for s in range(r, d + 1):
                c = cells[(r - 1) * d + (s - 1)]
                inband = s <= r + b
                if inband != (c != "x") or (inband and cells[(s - 1) * d + (r - 1)] != c):
                    corr.fail("band test / symmetry of operator() wrong", {"stream": stream, "ops": lines}, "CovMat::operator()", out[0])
                    return
                if inband:
                    k = int(c)
                    if k < 0 or k >= size or k in seen:
                        corr.fail(f"packed offset of ({r},{s}) = {k} aliases {seen.get(k)} or is outside [0,{size})",
                                  {"stream": stream, "ops": lines}, "CovMat::operator[]", out[0])
                        return
                    seen[k] = (r, s)
        if stream == "idx" and len(seen) != size:
            corr.fail("packed buffer has unused cells", {"stream": stream, "ops": lines}, "CovMat::CovMat", out[0])
    elif stream == "chol":
        d, b = meta["d"], meta["b"]
        pairs = band_pairs(d, b)
        orig = dict(zip(pairs, toks_f(lines[0])))
        if not out or not out[0].startswith("ok"):
            corr.fail("SPD matrix (L L' of small integers) rejected by CovMat::cholDec", {"stream": stream, "ops": lines[:1]},
                      "CovMat::cholDec", out[0] if out else "")
            return
        f = dict(zip(pairs, toks_f(out[0])))
        g = lambda i, j: f.get((min(i, j), max(i, j)), 0.0)
        dev = 0.0
        for i in range(1, d + 1):
            for j in range(i, d + 1):
                s = sum(g(r, i) * g(r, r) * g(r, j) for r in range(1, i)) + g(i, i) * (1.0 if i == j else g(i, j))
                dev = max(dev, abs(s - orig.get((i, j), 0.0)))
        scale = max(abs(v) for v in orig.values())
        corr.maxstat("max_LDLt_minus_C_rel", dev / scale)
        if dev > 1e-9 * scale:
            corr.fail(f"L D L' != C (max dev {dev:g})", {"stream": stream, "ops": lines[:1]}, "CovMat::cholDec", out[0])
        # Adj::choldec: U'U = C
        if len(out) >= 5 and out[4].startswith("ok"):
            u = dict(zip(pairs, toks_f(out[4])))
            gu = lambda i, j: u.get((i, j), 0.0)
            dev = max(abs(sum(gu(r, i) * gu(r, j) for r in range(1, i + 1)) - orig.get((i, j), 0.0))
                      for i in range(1, d + 1) for j in range(i, d + 1))
            corr.maxstat("max_UtU_minus_C_rel", dev / scale)
            if dev > 1e-9 * scale:
                corr.fail(f"Adj::choldec: U'U != C (max dev {dev:g})", {"stream": stream, "ops": lines[4:5]}, "Adj::choldec", out[4])
    elif stream == "fwd":
        d, L, v = meta["d"], meta["L"], meta["v"]
        x = frac_solve(L, v)
        for k in (0, 1, 2, 3):
            if k >= len(out) or not out[k].startswith("ok"):
                corr.fail("forward substitution / homogenisation failed on an SPD block", {"stream": stream, "ops": lines[k:k + 1]},
                          ["Adj::forwardSubstitution", "Adj::forwardSubstitution", "Adj::choldec", "Homogenization::run"][k],
                          out[k] if k < len(out) else "")
                return
            if "column-differs" in out[k]:
                corr.fail("Homogenization: rhs and matrix column transformed differently", {"stream": stream, "ops": lines[k:k + 1]},
                          "Homogenization::run", out[k])
            got = toks_f(out[k])
            dev = max(abs(Fraction(g) - e) for g, e in zip(got, x)) if got else 0
            sc = max([abs(e) for e in x] + [1])
            corr.maxstat("max_fwd_dev_rel", float(dev / sc))
            if len(got) != d or dev > Fraction(1, 10 ** 9) * sc:
                corr.fail(f"L x = v not solved (variant {lines[k].split()[0]}, dev {float(dev):g})",
                          {"stream": stream, "ops": lines[k:k + 1]},
                          "Homogenization::run" if k == 3 else "Adj::forwardSubstitution", out[k])
    elif stream == "malformed":
        for l, o in zip(lines, out):
            if meta["kind"] != "nan" and not o.startswith("throw NonPositiveDefinite"):
                corr.fail(f"malformed ({meta['kind']}) matrix not rejected", {"stream": stream, "ops": [l]}, "CovMat::cholDec", o)
        if meta["kind"] == "nan":
            corr.count("nan_accepted", sum(1 for o in out if o.startswith("ok")))
    elif stream == "active":
        C = meta["C"]
        d, b = meta["d"], meta["b"]
        dims = meta.get("dims") or [1] * d
        for l, o in zip(lines, out):
            mask = l.split("|")[2].split()
            ind, n = [], 1
            for dm, a in zip(dims, mask):
                if a == "1":
                    ind += list(range(n, n + dm))
                n += dm
            t = o.split()
            N, nb = int(t[5]), int(t[6])
            vals = [hex2float(x) for x in t[7:]]
            want_b = min(b, N - 1) if N else 0
            ok = (N == len(ind) and nb == want_b and int(t[1]) == mask.count("1") and int(t[2]) == N
                  and len(vals) == len(band_pairs(N, nb)))
            if ok:
                got = dict(zip(band_pairs(N, nb), vals))
                for i in range(1, N + 1):
                    for j in range(i, N + 1):
                        if got.get((i, j), 0.0) != C[ind[i - 1] - 1][ind[j - 1] - 1]:
                            ok = False
            if not ok:
                corr.fail("activeCov is not the principal sub-matrix of the active rows", {"stream": stream, "ops": [l]},
                          "Cluster::activeCov", o)
                return
    elif stream == "scale":
        C, d, b, sc = meta["C"], meta["d"], meta["b"], meta["sc"]
        for l, o in zip(lines, out):
            p = int(l.split("|")[1].split()[0])
            if not o.startswith("ok"):
                corr.fail("scaleCov threw", {"stream": stream, "ops": [l]}, "Cluster::scaleCov", o)
                return
            got = dict(zip(band_pairs(d, b), toks_f(o)))
            for (i, j), v in got.items():
                want = C[i - 1][j - 1] * (sc if i == p else 1) * (sc if j == p else 1)
                if abs(v - want) > 1e-12 * abs(want):
                    corr.fail(f"scaleCov({p},s) is not D C D at ({i},{j})", {"stream": stream, "ops": [l]}, "Cluster::scaleCov", o)
                    return
    elif stream == "blockdiag":
        ret = int(out[0].split()[1])
        if ret != (meta["bad_at"] or 0):
            corr.fail(f"BlockDiagonal::cholDec returned {ret}, expected {meta['bad_at'] or 0}", {"stream": stream, "ops": lines},
                      "BlockDiagonal::cholDec", out[0])


# ------------------------------------------------------------------ Homogenization::run, all blocks at once
#
# op line:  homrunF m n nb | row_1: c v c v .. | .. | row_m | rhs | d b es.. | .. (nb blocks)     (Driver/Cov.lean opHomRun)
# answer :  ok <total> pr <m> sm <rows> <cols> <rcnt> <ncnt> ptr <..> ind <..> val <..> | throw NonPositiveDefinite | refused
# Everything the oracle needs is derived from the op line itself (corpus lines and replays carry no meta).

HOMRUN_SITE = "Homogenization::run"


def frac_sqrt(q):
    import math
    q = Fraction(q)
    if q < 0:
        return None
    a, b = math.isqrt(q.numerator), math.isqrt(q.denominator)
    return Fraction(a, b) if a * a == q.numerator and b * b == q.denominator else None


def exact_chol(C):
    """C = L L' exactly: ('ok', L) | ('notpd', row) | ('tiny', row) (0 < pivot < 1e-14: BlockDiagonal::cholDec's absolute
    tolerance decides, no expectation) | ('irrational', None) (positive definite, factor not rational)"""
    d = len(C)
    l = [[Fraction(0)] * d for _ in range(d)]
    D = [Fraction(0)] * d
    for j in range(d):
        dj = Fraction(C[j][j]) - sum(l[j][k] ** 2 * D[k] for k in range(j))
        if dj <= 0:
            return "notpd", j + 1
        if dj < Fraction(1, 10 ** 14):
            return "tiny", j + 1
        D[j] = dj
        l[j][j] = Fraction(1)
        for i in range(j + 1, d):
            l[i][j] = (Fraction(C[i][j]) - sum(l[i][k] * l[j][k] * D[k] for k in range(j))) / dj
    sq = [frac_sqrt(x) for x in D]
    if any(s is None for s in sq):
        return "irrational", None
    return "ok", [[l[i][j] * sq[j] for j in range(d)] for i in range(d)]


def homrun_line(n, rows, rhs, blocks):
    """rows: list of [(col, value)], blocks: list of (dim, band, dense C)"""
    parts = [f"homrunF {len(rows)} {n} {len(blocks)}"]
    parts += [" ".join(f"{c} {H(v)}" for c, v in r) for r in rows]
    parts.append(" ".join(H(v) for v in rhs))
    parts += [" ".join(cov_tokens(d, b, packed(C, b))) for d, b, C in blocks]
    return " | ".join(parts)


def homrun_parse(line):
    g = [p.split() for p in line.split("|")]
    m, n, nb = int(g[0][1]), int(g[0][2]), int(g[0][3])
    if g[0][0] != "homrunF" or len(g) != 2 + m + nb:
        raise ValueError("not a homrunF line")
    rows = [[(int(r[k]), hex2float(r[k + 1])) for k in range(0, len(r), 2)] for r in g[1:1 + m]]
    rhs = [hex2float(x) for x in g[1 + m]]
    blocks = []
    for bl in g[2 + m:]:
        d, w = int(bl[0]), int(bl[1])
        C = [[0.0] * d for _ in range(d)]
        for (i, j), e in zip(band_pairs(d, w), bl[2:]):
            C[i - 1][j - 1] = C[j - 1][i - 1] = hex2float(e)
        blocks.append((d, w, C))
    return m, n, rows, rhs, blocks


def homrun_parse_out(o):
    t = o.split()
    ipr, ism, iptr, iind, ival = (t.index(k) for k in ("pr", "sm", "ptr", "ind", "val"))
    return {"total": t[1], "pr": [hex2float(x) for x in t[ipr + 1:ism]],
            "rows": int(t[ism + 1]), "cols": int(t[ism + 2]), "rcnt": int(t[ism + 3]), "ncnt": int(t[ism + 4]),
            "ptr": [int(x) for x in t[iptr + 1:iind]], "ind": [int(x) for x in t[iind + 1:ival]],
            "val": [hex2float(x) for x in t[ival + 1:]]}


def homrun_norm(model_line):
    """`total_scaled_nonzeroes` is not observable on the C++ side (harness prints `-`)"""
    t = model_line.split()
    if len(t) >= 2 and t[0] == "ok":
        t[1] = "-"
    return " ".join(t)


def homrun_check(line, impl_o, model_o):
    """the oracle on the implementation's answer `impl_o` for the op `line` (exact rational arithmetic) and the capacity
    check on the model's `total`.  Returns (list of failure texts, dict of input-distribution counters)"""
    fails, st = [], {}
    m, n, rows, rhs, blocks = homrun_parse(line)
    if any(c < 1 or c > n for r in rows for c, _ in r) or sum(b[0] for b in blocks) != m or len(rhs) != m:
        st["refused"] = 1
        if impl_o != "refused":
            fails.append("undefined call (column index outside 1..n / m != sum of block dims / rhs size != m) not refused by the harness")
        return fails, st
    st["blocks_%d" % len(blocks)] = 1
    for d, w, _ in blocks:
        st["shape_%d_%d" % (d, w)] = 1
    Ls, bad, skip_exact = [], None, False
    for k, (d, w, C) in enumerate(blocks):
        kind, L = exact_chol(C)
        if kind == "notpd":
            bad = k + 1
            break
        if kind == "tiny":
            st["tiny_pivot_no_expectation"] = 1
            return fails, st
        if kind == "irrational":
            skip_exact = True
        Ls.append(L)
    if bad is not None:
        pos = "single" if len(blocks) == 1 else "first" if bad == 1 else "last" if bad == len(blocks) else "middle"
        st["notpd_" + pos] = 1
        if impl_o != "throw NonPositiveDefinite":
            fails.append(f"covariance block {bad} of {len(blocks)} is not positive definite but the answer is `{impl_o[:60]}`")
        return fails, st
    if not impl_o.startswith("ok "):
        fails.append(f"positive definite covariance blocks, answer `{impl_o[:60]}`")
        return fails, st
    st["ok"] = 1
    o = homrun_parse_out(impl_o)
    ptr, ind, val, ncnt = o["ptr"], o["ind"], o["val"], o["ncnt"]
    if not (o["rows"] == m and o["cols"] == n and len(o["pr"]) == m and len(ptr) == m + 1 and ptr[0] == 0 and ptr[-1] == ncnt
            and all(a <= b for a, b in zip(ptr, ptr[1:])) and len(ind) == ncnt and len(val) == ncnt):
        fails.append("result is not a completely built m x n sparse matrix (rows/cols/ptr/ncnt inconsistent)")
        return fails, st
    if any(c < 1 or c > n for c in ind):
        fails.append("(c) column index outside 1..n in the homogenised matrix")
        return fails, st
    out_rows = [list(zip(ind[ptr[r]:ptr[r + 1]], val[ptr[r]:ptr[r + 1]])) for r in range(m)]
    # (e) capacity: the model's total_scaled_nonzeroes (the size of the arrays new Sparse(total,..) allocates)
    want_total, r0 = 0, 0
    for d, w, _ in blocks:
        seg = rows[r0:r0 + d]
        want_total += sum(len(r) for r in seg) if w == 0 else d * len({c for r in seg for c, _ in r})
        r0 += d
    mt = model_o.split()
    if len(mt) >= 2 and mt[0] == "ok":
        total = int(mt[1])
        if total < ncnt:
            fails.append(f"(e) capacity exceeded: total_scaled_nonzeroes {total} < {ncnt} stored elements")
        if total != want_total:
            fails.append(f"(e) model's total_scaled_nonzeroes {total} differs from the counting rule {want_total}")
        if total > ncnt:
            st["cases_capacity_not_filled"] = 1
    dup = any(len({c for c, _ in r}) != len(r) for r in rows)
    if dup:
        st["dup_column_cases"] = 1
    maxdev = Fraction(0)
    r0 = 0
    prev_cols = None
    for k, (d, w, C) in enumerate(blocks):
        seg = rows[r0:r0 + d]
        colset = {c for r in seg for c, _ in r}
        if w >= 1:
            st["corr_blocks"] = st.get("corr_blocks", 0) + 1
            if prev_cols is not None and prev_cols & colset:
                st["adjacent_corr_shared_cols"] = 1
            if any(len({c for c, _ in r}) != len(r) for r in seg):
                st["dup_column_in_corr_block"] = 1
            if any(C[i][i + 1] == 0 and C[i][i + 2] != 0 for i in range(d - 2)) and w >= 2:
                st["zero_in_band_then_nonzero"] = 1
            if len(colset) < n:
                st["corr_block_missing_column"] = 1
            if not colset:
                st["corr_block_without_columns"] = 1
        prev_cols = colset if w >= 1 else None
        # dense block of A: a repeated column index means the SUM of its coefficients - every consumer of a sparse row in an
        # uncorrelated block sums (both elements are kept), and so does a correlated block since repo 6d0f7107
        # (T(i,perm[c]) += *b++; before: the last one won - finding C10-REPCOL)
        A = [[Fraction(0)] * (n + 1) for _ in range(d)]
        for i, r in enumerate(seg):
            for c, v in r:
                A[i][c] = A[i][c] + Fraction(v)
        # (c) structure
        if not dup:
            if w == 0:
                for i in range(d):
                    if [c for c, _ in out_rows[r0 + i]] != [c for c, _ in seg[i]]:
                        fails.append(f"(c) row {r0 + i + 1} (uncorrelated block {k + 1}): column indices differ from the input row")
            else:
                invp = []
                for r in seg:
                    for c, _ in r:
                        if c not in invp:
                            invp.append(c)
                for i in range(d):
                    cs = [c for c, _ in out_rows[r0 + i]]
                    if len(set(cs)) != len(cs):
                        fails.append(f"(c) row {r0 + i + 1} (correlated block {k + 1}): repeated column index {cs}")
                    elif [c for c in invp if c in cs] != cs:
                        fails.append(f"(c) row {r0 + i + 1} (correlated block {k + 1}): columns {cs} not in the order of first "
                                     f"appearance {invp}")
                    if any(v == 0 for _, v in out_rows[r0 + i]):
                        fails.append(f"(c) row {r0 + i + 1} (correlated block {k + 1}): an exactly zero element is stored")
        elif w >= 1:
            st["dup_cases_oracle_c_skipped"] = 1
        if not skip_exact:
            L = Ls[k]
            W = frac_inv(L)
            # (d) generator sanity: W'W C = I
            Wt_W = [[sum(W[t][i] * W[t][j] for t in range(d)) for j in range(d)] for i in range(d)]
            if any(sum(Wt_W[i][t] * Fraction(C[t][j]) for t in range(d)) != (1 if i == j else 0) for i in range(d) for j in range(d)):
                fails.append(f"(d) oracle's own factor of block {k + 1} is wrong (W'W C != I)")
                return fails, st
            # error scale of a forward substitution in floating point: |dy| <= c eps M^-1 |L| M^-1 |a| with the comparison
            # matrix M of L (an entry of L^-1 may vanish by cancellation although the sweep passes through non-zero values)
            Mi = frac_inv([[abs(L[i][j]) if i == j else -abs(L[i][j]) for j in range(d)] for i in range(d)])
            ML = [[sum(Mi[i][t] * abs(L[t][j]) for t in range(d)) for j in range(d)] for i in range(d)]
            Bnd = [[sum(ML[i][t] * Mi[t][j] for t in range(d)) for j in range(d)] for i in range(d)]
            for i in range(d):
                # (a) right-hand side
                ex = sum(W[i][t] * Fraction(rhs[r0 + t]) for t in range(d))
                sc = sum(Bnd[i][t] * abs(Fraction(rhs[r0 + t])) for t in range(d))
                got = o["pr"][r0 + i]
                dev = abs(Fraction(got) - ex) if got == got and abs(got) != float("inf") else None
                if dev is None or dev > Fraction(1, 10 ** 12) * sc:
                    fails.append(f"(a) pr({r0 + i + 1}) = {got!r}, exact (U^-T rhs) = {float(ex)!r}")
                elif sc:
                    maxdev = max(maxdev, dev / sc)
                # (b) matrix
                for c in range(1, n + 1):
                    ex = sum(W[i][t] * A[t][c] for t in range(d))
                    sc = sum(Bnd[i][t] * abs(A[t][c]) for t in range(d))
                    gs = [v for cc, v in out_rows[r0 + i] if cc == c]
                    if any(v != v or abs(v) == float("inf") for v in gs):
                        fails.append(f"(b) sm({r0 + i + 1},{c}) is not finite")
                        continue
                    got = sum(Fraction(v) for v in gs)
                    dev = abs(got - ex)
                    if dev > Fraction(1, 10 ** 12) * sc:
                        fails.append(f"(b) sm({r0 + i + 1},{c}) = {float(got)!r} (stored: {len(gs)}), exact (U^-T A) = {float(ex)!r}")
                    elif sc:
                        maxdev = max(maxdev, dev / sc)
                    if w >= 1 and c in colset:
                        if ex == 0:
                            st["exact_zero_cells"] = st.get("exact_zero_cells", 0) + 1
                            if not gs:
                                st["cases_zero_dropped"] = 1
                            if A[i][c] != 0:
                                st["cases_cancellation_zero"] = 1
                                if gs:
                                    st["cancellation_zero_kept_as_rounding_noise"] = 1
                        elif A[i][c] == 0:
                            st["cases_fill_in"] = 1
                        if sum(1 for t in range(d) if any(cc == c for cc, _ in seg[t])) == 1:
                            st["cases_single_row_column"] = 1
        else:
            st["irrational_factor_exact_oracle_skipped"] = 1
        r0 += d
    st["_maxdev"] = float(maxdev)
    return fails[:6], st


def gen_homrun(rng, force=None, adjacent=False, notpd=None, dup=None):
    """one op line.  force=(d,b): a block of this shape is present; adjacent: two correlated blocks in a row that share
    columns; notpd in (None,'first','middle','last'); dup in (None,'corr','diag'): a repeated column index in a row of a
    correlated / an uncorrelated block"""
    nb = rng.randint(3 if notpd == "middle" else 2 if (adjacent or notpd) else 1, 5)
    shapes = []
    for _ in range(nb):
        d = rng.randint(1, 6)
        shapes.append((d, 0 if d == 1 or rng.random() < 0.4 else rng.randint(1, d - 1)))
    if force:
        shapes[rng.randrange(nb)] = force
    n = rng.randint(1, 6)
    k_adj = None
    if adjacent:
        k_adj = rng.randrange(nb - 1)
        for k in (k_adj, k_adj + 1):
            if shapes[k][1] == 0 and shapes[k] != force:
                d = rng.randint(2, 6)
                shapes[k] = (d, rng.randint(1, d - 1))
        n = max(n, 2)
    diag = (1, 2, 3, 4) if rng.random() < 0.15 else (1, 2, 4)      # (1,2,4): every operation exact in double

    def val():
        if rng.random() < 0.04:
            return 0.0
        return rng.choice([-4, -3, -2, -1, 1, 2, 3, 4]) * rng.choice([1, 1, 1, 0.5, 0.25])

    rows, blocks = [], []
    for k, (d, b) in enumerate(shapes):
        L = gen_L(rng, d, b, diag=diag, off=(-2, 2))
        if d >= 3 and b >= 2 and rng.random() < 0.4:      # C(1,2) = 0, C(1,3) != 0
            L[1][0] = 0
            L[2][0] = L[2][0] or rng.choice([-2, -1, 1, 2])
        C = llt(L)
        blocks.append((d, b, C))
        cols_all = list(range(1, n + 1))
        if b == 0:
            for i in range(d):
                cs = rng.sample(cols_all, 0 if rng.random() < 0.1 else rng.randint(0, n))
                rows.append([(c, val()) for c in cs])
            continue
        cand = list(cols_all)
        if n >= 2 and rng.random() < 0.5:                   # a column in no row of the block
            cand.remove(rng.choice(cand))
        if rng.random() < 0.05:
            cand = []                                        # a correlated block without any column
        single = rng.choice(cand) if cand and rng.random() < 0.5 else None
        single_row = rng.randrange(d)
        seg = []
        for i in range(d):
            avail = [c for c in cand if c != single]
            cs = rng.sample(avail, 0 if rng.random() < 0.12 else rng.randint(0, len(avail)))
            if single is not None and i == single_row:
                cs.insert(rng.randint(0, len(cs)), single)
            seg.append([(c, val()) for c in cs])
        others = [c for c in cand if c != single]
        if others and rng.random() < 0.6:                   # a column L y with sparse y: exact zeros by cancellation
            c = rng.choice(others)
            y = [rng.choice([0, 0, 1, -1, 2, 0.5]) for _ in range(d)]
            y[rng.randrange(d)] = rng.choice([1, -1, 2])
            a = [sum(L[i][t] * y[t] for t in range(d)) for i in range(d)]
            for i in range(d):
                seg[i] = [e for e in seg[i] if e[0] != c]
                if a[i] != 0 or rng.random() < 0.15:
                    seg[i].insert(rng.randint(0, len(seg[i])), (c, float(a[i])))
        if adjacent and k == k_adj + 1 and not ({c for r in seg for c, _ in r} & {c for r in rows[-shapes[k_adj][0]:] for c, _ in r}):
            prev = [c for r in rows[-shapes[k_adj][0]:] for c, _ in r]
            if prev:
                seg[rng.randrange(d)].append((rng.choice(prev), float(rng.choice([1, 2, -3]))))
        rows += seg
    if dup or rng.random() < 0.05:                           # a repeated column index inside one row
        width_of = [b for d, b in shapes for _ in range(d)]
        cands = [i for i, r in enumerate(rows) if r and (not dup or (width_of[i] >= 1) == (dup == "corr"))]
        if cands:
            i = rng.choice(cands)
            rows[i].insert(rng.randint(0, len(rows[i])), (rng.choice(rows[i])[0], float(rng.choice([1, 2, -3]))))
        elif dup:
            return gen_homrun(rng, force, adjacent, notpd, dup)
    rhs = [rng.randint(-9, 9) * rng.choice([1, 1, 0.5]) for _ in rows]
    if notpd:
        k = {"first": 0, "last": nb - 1, "middle": rng.randint(1, max(1, nb - 2))}[notpd]
        d, b, C = blocks[k]
        i = rng.randrange(d)
        C[i][i] = 0 if rng.random() < 0.3 else -C[i][i]
    return homrun_line(n, rows, rhs, blocks)


def homrun_refused_variants(rng, line):
    """the same problem made undefined in the ways Hom.canRun names"""
    m, n, rows, rhs, blocks = homrun_parse(line)
    out = []
    full = [i for i, r in enumerate(rows) if r]
    if full:
        for bad in (0, n + 1):
            rr = [list(r) for r in rows]
            i = rng.choice(full)
            j = rng.randrange(len(rr[i]))
            rr[i][j] = (bad, rr[i][j][1])
            out.append(homrun_line(n, rr, rhs, blocks))
    out.append(homrun_line(n, rows, rhs[:-1], blocks))
    out.append(homrun_line(n, rows, rhs + [1.0], blocks))
    if m >= 2:
        out.append(homrun_line(n, rows[:-1], rhs[:-1], blocks))       # m != sum of block dims
    return out


def homrun_stream(ctx, corr, exe, drv):
    import random
    rng = random.Random(f"{ID}-homrun-{ctx.seed}")      # own generator: the inputs of the older streams stay what they were
    cases = []        # (key, [op lines])
    corpus = ctx.verif / "corpus" / "C10"
    if corpus.exists():
        for f in sorted(corpus.glob("homrun-*.txt")):
            ls = [l.strip() for l in f.read_text().split("\n") if l.startswith("homrunF ")]
            if ls:
                cases.append(("corpus:" + f.name, ls))
    for rep in range(ctx.size(3, 12)):                   # every block shape
        for d in range(1, 7):
            for b in range(0, d):
                cases.append((f"homrun shape {d} {b} {rep}", [gen_homrun(rng, force=(d, b))]))
    for rep in range(ctx.size(140, 1500)):
        cases.append((f"homrun rnd {rep}", [gen_homrun(rng)]))
    for rep in range(ctx.size(30, 300)):
        cases.append((f"homrun adj {rep}", [gen_homrun(rng, adjacent=True)]))
    for rep in range(ctx.size(5, 40)):
        for pos in ("first", "middle", "last"):
            cases.append((f"homrun notpd {pos} {rep}", [gen_homrun(rng, notpd=pos)]))
    for rep in range(ctx.size(6, 40)):
        cases.append((f"homrun dup {rep}", [gen_homrun(rng, dup=("corr", "diag")[rep % 2], adjacent=rep % 4 == 0)]))
    for rep in range(ctx.size(3, 20)):
        cases.append((f"homrun refused {rep}", homrun_refused_variants(rng, gen_homrun(rng))))
    impl, crashes = run_cases(exe, [c[1] for c in cases])
    model, mcr = run_cases(drv, [c[1] for c in cases])
    agg, maxdev, sampled = {}, 0.0, 0
    for i, (key, lines) in enumerate(cases):
        corr.count("stream_homrun")
        sample = None
        if key.startswith("homrun adj") and sampled < 1 and i not in crashes:
            sample, sampled = {"stream": "homrun", "ops": [lines[0][:400]], "impl": [impl[i][0][:400]] if impl[i] else []}, 1
        corr.case(key=key, sample=sample)
        if i in crashes:
            corr.fail("C10 harness crashed in Homogenization::run (sanitizer / abort: e.g. capacity of the homogenised matrix "
                      "exceeded)", {"stream": "homrun", "ops": lines}, HOMRUN_SITE, crashes[i][1])
            continue
        if i in mcr or len(impl[i]) != len(lines) or len(model[i]) != len(lines):
            corr.disagree("homrun", lines, impl[i], model[i], "model driver crashed / answer count differs")
            continue
        for l, a, b in zip(lines, impl[i], model[i]):
            if not lines_equal(a, homrun_norm(b), rtol=1e-9, atol=0.0):
                corr.disagree("homrun", [l], [a], [b], "Homogenization::run vs Model/Homogenization.lean Hom.run")
            try:
                fails, st = homrun_check(l, a, b)
            except (IndexError, ValueError, KeyError, ZeroDivisionError) as ex:
                fails, st = [f"answer does not have the expected shape ({type(ex).__name__}: {ex})"], {}
            for what in fails[:2]:
                corr.fail("Homogenization::run: " + what, {"stream": "homrun", "ops": [l]}, HOMRUN_SITE, a[:600])
            maxdev = max(maxdev, st.pop("_maxdev", 0.0))
            for k, v in st.items():
                agg[k] = agg.get(k, 0) + v
            if a.startswith("throw"):
                corr.count("impl_" + a.split()[1])
    for k, v in sorted(agg.items()):
        corr.count("homrun_" + k, v)
    corr.maxstat("homrun_max_dev_rel", maxdev)
    ok = max(1, agg.get("ok", 0))
    need = [("cases_cancellation_zero", 0.10), ("cases_zero_dropped", 0.25), ("cases_fill_in", 0.25),
            ("cases_single_row_column", 0.15), ("adjacent_corr_shared_cols", 0.10), ("zero_in_band_then_nonzero", 0.05),
            ("corr_block_missing_column", 0.15), ("cases_capacity_not_filled", 0.25)]
    for k, share in need:
        if agg.get(k, 0) < share * ok:
            corr.inconclusive.append(f"homrun: only {agg.get(k, 0)} of {ok} accepted cases with `{k}` (need {share:.0%})")
    missing = [f"{d}/{b}" for d in range(1, 7) for b in range(0, d) if not agg.get("shape_%d_%d" % (d, b))]
    if missing:
        corr.inconclusive.append("homrun: block shapes dim/band never generated: " + " ".join(missing))
    for k in ("notpd_first", "notpd_middle", "notpd_last", "refused", "dup_column_in_corr_block"):
        if not agg.get(k):
            corr.inconclusive.append(f"homrun: no case with `{k}`")


# ------------------------------------------------------------------ Adj level: 4 algorithms vs exact weighted LS

def adj_stream(ctx, corr, exe):
    rng = ctx.rng
    cases, metas = [], []
    for rep in range(ctx.size(25, 250)):
        n = rng.randint(1, 3)
        nb = rng.randint(1, 3)
        blocks = []
        for _ in range(nb):
            d = rng.randint(1, 4)
            b = rng.randint(0, d - 1)
            L, C = gen_spd(rng, d, b, diag=(1, 2, 4), off=(-2, 2))
            blocks.append((d, b, L, C))
        m = sum(bl[0] for bl in blocks)
        if m <= n:
            continue
        A = [[rng.randint(-3, 3) for _ in range(n)] for _ in range(m)]
        rhs = [rng.randint(-9, 9) for _ in range(m)]
        # exact reference: x = (A'PA)^-1 A'P b,  P = C^-1 block diagonal
        P = [[Fraction(0)] * m for _ in range(m)]
        Li = [[Fraction(0)] * m for _ in range(m)]
        r0 = 0
        for d, b, L, C in blocks:
            Ci, Linv = frac_inv(C), frac_inv(L)
            for i in range(d):
                for j in range(d):
                    P[r0 + i][r0 + j] = Ci[i][j]
                    Li[r0 + i][r0 + j] = Linv[i][j]
            r0 += d
        PA = [[sum(P[i][k] * A[k][j] for k in range(m)) for j in range(n)] for i in range(m)]
        Nm = [[sum(A[k][i] * PA[k][j] for k in range(m)) for j in range(n)] for i in range(n)]
        Pb = [sum(P[i][k] * rhs[k] for k in range(m)) for i in range(m)]
        nr = [sum(A[k][i] * Pb[k] for k in range(m)) for i in range(n)]
        x = frac_solve(Nm, nr)
        if x is None:
            continue
        res = [sum(A[i][j] * x[j] for j in range(n)) - rhs[i] for i in range(m)]
        phi = sum(res[i] * P[i][j] * res[j] for i in range(m) for j in range(m))
        # whitened reformulation: (L^-1 A, L^-1 b) with unit weights
        Aw = [[sum(Li[i][k] * A[k][j] for k in range(m)) for j in range(n)] for i in range(m)]
        bw = [sum(Li[i][k] * rhs[k] for k in range(m)) for i in range(m)]
        cov = " | ".join(" ".join(cov_tokens(d, b, packed(C, b))) for d, b, L, C in blocks)
        a_t = " ".join(H(v) for row in A for v in row)
        aw_t = " ".join(H(v) for row in Aw for v in row)
        ident = " ".join(cov_tokens(m, 0, [1] * m))
        lines = []
        for alg in ALGS:
            lines.append(f"adj {alg} {m} {n} | {a_t} | " + " ".join(H(v) for v in rhs) + " | " + cov)
            lines.append(f"adj {alg} {m} {n} | {aw_t} | " + " ".join(H(v) for v in bw) + " | " + ident)
        cases.append(lines)
        metas.append({"x": x, "res": res, "phi": phi, "m": m, "n": n, "bands": [bl[1] for bl in blocks]})
    # malformed blocks: every algorithm must refuse (a diagnostic), none may return numbers
    mal = []
    for rep in range(ctx.size(12, 60)):
        d = rng.randint(2, 4)
        b = rng.randint(1, d - 1)
        L, C = gen_spd(rng, d, b, diag=(1, 2, 4), off=(-2, 2))
        kind = rng.choice(["indef", "zero", "neg"])
        k = rng.randrange(d)
        if kind == "indef":
            C[k][k] = -1 - C[k][k]
        elif kind == "zero":
            for j in range(d):
                C[k][j] = C[j][k] = 0
        else:
            C[k][k] = -C[k][k]
        A = [[rng.randint(-3, 3)] for _ in range(d + 1)]
        A[0][0] = A[0][0] or 1
        rhs = [rng.randint(-9, 9) for _ in range(d + 1)]
        cov = " ".join(cov_tokens(d, b, packed(C, b))) + " | " + " ".join(cov_tokens(1, 0, [1]))
        a_t = " ".join(H(v) for row in A for v in row)
        mal.append(([f"adj {alg} {d + 1} 1 | {a_t} | " + " ".join(H(v) for v in rhs) + " | " + cov for alg in ALGS], kind))
    corpus = ctx.verif / "corpus" / "C10"
    if corpus.exists():       # recorded failing inputs first: every line must be refused
        for f in sorted(corpus.glob("adj-*.txt")):
            for l in f.read_text().split("\n"):
                if l.startswith("adj "):
                    mal.insert(0, ([l.replace("adj envelope", "adj " + alg, 1) for alg in ALGS], "corpus:" + f.name))
    out, crashes = run_cases(exe, cases + [m[0] for m in mal])
    for i, (lines, meta) in enumerate(zip(cases, metas)):
        corr.case(key=f"adj {i} {meta['bands']}" if max(meta["bands"]) >= 1 else None)
        corr.count("stream_adj")
        if i in crashes:
            corr.fail("Adj crashed (sanitizer) on a full-rank problem with SPD blocks", {"stream": "adj", "ops": lines}, "Adj", crashes[i][1])
            continue
        for l, o in zip(lines, out[i]):
            if not o.startswith("ok"):
                corr.fail("Adj refused a full-rank problem with SPD covariance blocks", {"stream": "adj", "ops": [l]}, "Adj::init_least_squares", o)
                continue
            parts = o[2:].split("|")
            x = [hex2float(t) for t in parts[0].split()]
            rtr = hex2float(parts[2].split()[0])
            scale = max([abs(float(v)) for v in meta["x"]] + [1.0])
            dev = max(abs(a - float(e)) for a, e in zip(x, meta["x"]))
            corr.maxstat("adj_max_x_dev_rel", dev / scale)
            dphi = abs(rtr - float(meta["phi"])) / max(1.0, float(meta["phi"]))
            corr.maxstat("adj_max_phi_dev_rel", dphi)
            if dev > 1e-7 * scale or dphi > 1e-7:
                corr.fail(f"{l.split()[1]}: adjusted unknowns / v'Pv differ from the exact weighted least-squares solution "
                          f"(x dev {dev:g}, phi dev {dphi:g})", {"stream": "adj", "ops": [l], "exact_x": [str(v) for v in meta["x"]]},
                          "Adj::init_least_squares", o)
    for k, (lines, kind) in enumerate(mal):
        i = len(cases) + k
        corr.case(key=f"adjmal {k} {kind}")
        corr.count("stream_adj_malformed")
        for l, o in zip(lines, out[i] if i not in crashes else ["<crash>"] * len(lines)):
            if not o.startswith("throw"):
                corr.fail(f"{l.split()[1]}: covariance block that is not positive definite ({kind}) is not refused "
                          f"(Homogenization::run ignores the return value of BlockDiagonal::cholDec)",
                          {"stream": "adj", "ops": [l]}, "Homogenization::run", o)


# ------------------------------------------------------------------ <cov-mat> documents: GKFparser vs Model/CovParse

PARSE_MSG = [("not enough elements", "NotEnough"), ("too many elements", "TooMany"),
             ("bad covariance matrix element", "BadElement"),
             ("missing band-width of covariance matrix:", "BadBand"), ("missing band-width of covariance matrix", "MissingBand"),
             ("bad dimension of covariance matrix:", "BadDim"), ("missing dimension of covariance matrix", "MissingDim"),
             ("undefined attribute of", "UndefinedAttr"), ("not positive definite", "NotPD"),
             ("T_GKF_cov_dim_differs", "DimDiffers"), ("without covariance matrix", "WithoutCov")]


def dim_check_in_source(ctx, fn):
    """does GKFparser::<fn> compare idim with the number of observations? (the model takes the same branch)"""
    src = (ctx.repo / "lib/gnu_gama/xml/gkfparser.cpp").read_text(errors="replace")
    m = re.search(r"int GKFparser::%s\(\)\s*\{(.*?)\n  \}" % fn, src, re.S)
    if not m:
        raise TieBroken("gkfparser.cpp", f"GKFparser::{fn} not found")
    return bool(re.search(r"idim\s*!=\s*static_cast<int>\(\s*\w+->observation_list\.size\(\)\s*\)", m.group(1)))


def gkf_doc(kind, n, cov_attrs, words):
    """a small well determined network whose LAST cluster is the tested one with n observations"""
    cov = ""
    if cov_attrs is not None:
        cov = "<cov-mat %s>\n%s\n</cov-mat>\n" % (cov_attrs, " ".join(words))
    head = ('<?xml version="1.0" ?>\n<gama-local xmlns="http://www.gnu.org/software/gama/gama-local">\n'
            '<network axes-xy="ne" angles="left-handed">\n<parameters sigma-apr="10" conf-pr="0.95" tol-abs="1000" sigma-act="apriori"/>\n'
            '<points-observations distance-stdev="5">\n')
    tail = "</points-observations>\n</network>\n</gama-local>\n"
    if kind == "hdiffs":
        body = ('<point id="A" z="100" fix="z"/>\n<point id="B" z="103" fix="z"/>\n<point id="P" adj="z"/>\n<point id="Q" adj="z"/>\n'
                '<height-differences>\n<dh from="A" to="P" val="1.001" stdev="2"/>\n<dh from="P" to="Q" val="0.999" stdev="2"/>\n'
                '<dh from="Q" to="B" val="1.002" stdev="2"/>\n</height-differences>\n<height-differences>\n')
        edges = [("A", "P", 1.0), ("P", "Q", 1.0), ("Q", "B", 1.0), ("A", "Q", 2.0), ("P", "B", 2.0), ("A", "B", 3.0)]
        for i in range(n):
            a, b, v = edges[i % len(edges)]
            body += '<dh from="%s" to="%s" val="%.4f"%s/>\n' % (a, b, v + 0.0001 * i, "" if cov_attrs is not None else ' stdev="3"')
        body += cov + "</height-differences>\n"
    elif kind == "obs":
        body = ('<point id="A" x="0" y="0" fix="xy"/>\n<point id="B" x="100" y="0" fix="xy"/>\n<point id="C" x="50" y="80" adj="xy"/>\n'
                '<obs from="A">\n<distance to="C" val="94.340" stdev="5"/>\n<distance from="B" to="C" val="94.341" stdev="5"/>\n</obs>\n<obs from="A">\n')
        for i in range(n):
            fr = ("A", "B")[i % 2]
            body += '<distance from="%s" to="C" val="%.4f"%s/>\n' % (fr, 94.3398 + 0.0002 * i, "" if cov_attrs is not None else ' stdev="4"')
        body += cov + "</obs>\n"
    elif kind == "coords":
        body = ('<point id="A" x="0" y="0" fix="xy"/>\n<point id="B" x="100" y="0" fix="xy"/>\n<point id="C" x="50" y="80" adj="xy"/>\n'
                '<point id="D" x="20" y="30" adj="xy"/>\n'
                '<obs from="A">\n<distance to="C" val="94.340" stdev="5"/>\n<distance from="B" to="C" val="94.341" stdev="5"/>\n'
                '<distance from="A" to="D" val="36.056" stdev="5"/>\n<distance from="B" to="D" val="85.440" stdev="5"/>\n</obs>\n<coordinates>\n')
        pts = [("C", 50.001, 80.002), ("D", 20.001, 29.999)]
        for i in range(n // 2):
            pid, x, y = pts[i % 2]
            body += '<point id="%s" x="%.4f" y="%.4f"/>\n' % (pid, x, y)
        body += cov + "</coordinates>\n"
    else:
        body = ('<point id="A" x="0" y="0" z="10" fix="xyz"/>\n<point id="C" x="50" y="80" z="20" adj="xyz"/>\n<point id="D" x="20" y="30" z="15" adj="xyz"/>\n'
                '<vectors>\n<vec from="A" to="C" dx="50.001" dy="80.001" dz="10.001"/>\n<vec from="A" to="D" dx="20.001" dy="30.001" dz="5.001"/>\n'
                '<cov-mat dim="6" band="0">25 25 25 25 25 25</cov-mat>\n</vectors>\n<vectors>\n')
        vs = [("A", "C", 50.0, 80.0, 10.0), ("C", "D", -30.0, -50.0, -5.0)]
        for i in range(n // 3):
            a, b, dx, dy, dz = vs[i % 2]
            body += '<vec from="%s" to="%s" dx="%.4f" dy="%.4f" dz="%.4f"/>\n' % (a, b, dx + 0.002, dy - 0.001, dz + 0.001)
        body += cov + "</vectors>\n"
    return head + body + tail


def parse_stream(ctx, corr):
    from props import c10_net
    rng = ctx.rng
    gdir = ctx.build_gama(sanitize=False, targets=("gama-local",))
    exe = gdir / "gama-local"
    dc = {"obs": True, "hdiffs": True, "coords": True, "vectors": True}     # the model is the guarded code (see translate)
    corr.count("parser_dim_check_obs", int(dim_check_in_source(ctx, "finish_obs")))
    corr.count("parser_dim_check_hdiffs", int(dim_check_in_source(ctx, "finish_hdiffs")))
    # regression inputs of finding F9 (fixed in 410fb36): must be refused by the parser with the dim diagnostic
    corpus = ctx.verif / "corpus" / "C10"
    f9 = sorted(corpus.glob("net-f9-*.gkf")) if corpus.exists() else []
    cases = []
    nper = ctx.size(36, 300)
    for kind in ("obs", "hdiffs", "coords", "vectors"):
        unit = {"obs": 1, "hdiffs": 1, "coords": 2, "vectors": 3}[kind]
        for c in range(nper):
            n = unit * rng.randint(1, {1: 4, 2: 2, 3: 2}[unit])
            mode = rng.choice(["good", "good", "dim-", "dim+", "few", "many", "badel", "band=dim", "band>dim", "nopd",
                               "nodim", "noband", "baddim", "undef", "nocov"])
            dim = n
            if mode == "dim-":
                dim = max(1, n - 1) if n > 1 else n + 1
            elif mode == "dim+":
                dim = n + 1
            band = rng.randint(0, dim - 1)
            if mode == "band=dim":
                band = dim
            elif mode == "band>dim":
                band = dim + 2
            bb = min(band, dim - 1)
            cnt = dim * (bb + 1) - bb * (bb + 1) // 2
            if mode == "few":
                cnt = max(0, cnt - rng.randint(1, 2))
            elif mode == "many":
                cnt += rng.randint(1, 2)
            words, k = [], 0
            for i in range(1, dim + 1):
                for j in range(i, min(dim, i + bb) + 1):
                    if mode == "nopd":
                        words.append("1" if i == j else "7")
                    else:
                        words.append("25" if i == j else ("1" if j == i + 1 else "0.5"))
            if mode == "nopd" and (bb == 0 or dim == 1):
                words[rng.randrange(len(words))] = rng.choice(["0", "-4"])
            words = (words + ["25"] * 3)[:cnt] if cnt > len(words) else words[:cnt]
            if mode == "badel" and words:
                words[rng.randrange(len(words))] = rng.choice(["abc", "1e", "--3", "1,5"])
            da, ba = str(dim), str(band)
            attrs = f'dim="{dim}" band="{band}"'
            undef = 0
            if mode == "nodim":
                attrs, da = f'band="{band}"', "m"
            elif mode == "noband":
                attrs, ba = f'dim="{dim}"', "m"
            elif mode == "baddim":
                attrs, da = f'dim="x{dim}" band="{band}"', "b"
            elif mode == "undef":
                attrs, undef = attrs + ' foo="1"', 1
            if mode == "nocov":
                if kind in ("coords", "vectors"):
                    # </coordinates> without <cov-mat>: finish_coords is never reached (endElement has no case for
                    # state_coords -> state_error with EMPTY text, line 0): C11's automaton, not compared here
                    corr.count("parse_skipped_nocov_coords")
                    continue
                attrs = None
            gkf = gkf_doc(kind, n, attrs, words)
            wt = " ".join(("bad" if not re.match(r"^-?\d+(\.\d+)?$", w) else str(Fraction(w))) for w in words)
            if kind in ("obs", "hdiffs"):
                sig = "4" if kind == "obs" else "3"
                third = " ".join(f"{sig} 0" for _ in range(n))
            else:
                third = str(n)
            if attrs is None:
                line = f"covparse {kind} {int(dc[kind])} 1 0 none 0 | | {third}"
            else:
                line = f"covparse {kind} {int(dc[kind])} 1 {undef} {da} {ba} | {wt} | {third}"
            cases.append({"kind": kind, "n": n, "dim": dim, "band": band, "mode": mode, "gkf": gkf, "line": line,
                          "has_cov": attrs is not None})
    import concurrent.futures
    import tempfile
    import shutil
    tmp = tempfile.mkdtemp(prefix="c10parse-")
    try:
        with concurrent.futures.ThreadPoolExecutor(max_workers=16) as ex:
            futs = [ex.submit(c10_net._run_one, exe, tmp, f"p{i}", c["gkf"], "gso") for i, c in enumerate(cases)]
            res = [f.result() for f in futs]
    finally:
        shutil.rmtree(tmp, ignore_errors=True)
    import tempfile as _tf
    with _tf.TemporaryDirectory(prefix="c10f9-") as t9:
        for f in f9:
            r = c10_net._run_one(exe, t9, f.stem, f.read_text(), "gso")
            corr.case(key="corpus:" + f.name)
            corr.count("stream_parse_corpus_f9")
            ok = bool(r["error"]) and "ParserError" in (r["error"]["category"] or "") and "T_GKF_cov_dim_differs" in r["error"]["text"] \
                and r["error"]["line"] is not None
            if not ok:
                kind = "hdiffs" if "hdiffs" in f.name else "obs"
                corr.fail(f"F9 regression: {f.name} (cov-mat dim differs from the number of observations) is not refused by the parser "
                          f"with a located dimension diagnostic", {"stream": "covparse", "gkf": f.read_text(), "kind": kind},
                          "GKFparser::finish_" + kind, c10_net._outcome(r))
    # regression inputs of finding C10-REPCOL (fixed in 6d0f7107): an observation from a point to itself inside a cluster
    # with a non-diagonal covariance matrix - a sparse row with a repeated column index in a CORRELATED block of
    # Homogenization::run - must be adjusted by envelope exactly as by gso / svd / cholesky
    with _tf.TemporaryDirectory(prefix="c10rep-") as trc:
        for f in (sorted(corpus.glob("net-repcol-*.gkf")) if corpus.exists() else []):
            rr = {alg: c10_net._run_one(exe, trc, f.stem + "-" + alg, f.read_text(), alg) for alg in c10_net.ALGS}
            corr.case(key="corpus:" + f.name)
            corr.count("stream_net_corpus_repcol")
            ref = rr["gso"]
            bad = []
            if ref["error"] or not ref["adj"] or ref["pvv"] is None:
                bad.append("gso: " + c10_net._outcome(ref))
            else:
                for alg in c10_net.ALGS:
                    r = rr[alg]
                    if r["error"] or r["pvv"] is None or set(r["adj"]) != set(ref["adj"]):
                        bad.append(alg + ": " + c10_net._outcome(r))
                        continue
                    dev = max((abs(r["adj"][pid][k] - ref["adj"][pid][k]) for pid in ref["adj"] for k in ref["adj"][pid]
                               if k in r["adj"][pid]), default=0.0)
                    corr.maxstat("repcol_max_coord_dev_m", dev)
                    if dev > 1e-8 or abs(r["pvv"] - ref["pvv"]) > 1e-6 * max(1.0, abs(ref["pvv"])):
                        bad.append(f"{alg}: adjusted coordinates differ from gso by {dev:.3e} m, [pvv] {r['pvv']!r} vs {ref['pvv']!r}")
            if bad:
                corr.fail(f"C10-REPCOL regression: {f.name} (self-observation inside a correlated cluster) is not adjusted alike by "
                          "the four algorithms", {"stream": "net-repcol", "gkf": f.read_text()}, "Homogenization::run", "; ".join(bad))
    model, mcr = run_cases(ctx.driver("drv_cov"), [[c["line"]] for c in cases])
    f9_reported = set()
    for i, c in enumerate(cases):
        r = res[i]
        if r["error"] and "ParserError" in (r["error"]["category"] or ""):
            txt = r["error"]["text"]
            impl = next(("err " + name for key, name in PARSE_MSG if key in txt), "err ?" + txt[:60])
            has_line = r["error"]["line"] is not None
        else:
            impl, has_line = "ok", None
        mo = model[i][0] if model[i] else "<none>"
        mo_s = "ok" if mo.startswith("ok") else mo
        corr.case(key=f"parse {c['kind']} {c['n']} {c['dim']} {c['band']} {c['mode']}" if c["has_cov"] else None)
        corr.count("stream_parse")
        corr.count("parse_" + (impl.split()[1] if impl.startswith("err") else "accepted"))
        if impl != mo_s:
            corr.disagree("covparse", [c["line"], c["gkf"]], [impl, c10_net._outcome(r)], [mo])
        if impl.startswith("err") and not has_line:
            corr.fail("parser diagnostic for a malformed <cov-mat> carries no line number", {"stream": "covparse", "gkf": c["gkf"]},
                      "GKFparser::finish_cov", c10_net._outcome(r))
        # the property: an accepted <cov-mat> has dim = number of observations of the cluster
        if impl == "ok" and c["has_cov"] and c["dim"] != c["n"]:
            site = {"obs": "GKFparser::finish_obs", "hdiffs": "GKFparser::finish_hdiffs", "coords": "GKFparser::finish_coords",
                    "vectors": "GKFparser::finish_vectors"}[c["kind"]]
            if (site, c["dim"] < c["n"]) not in f9_reported:
                f9_reported.add((site, c["dim"] < c["n"]))
                corr.fail(f"F9: <cov-mat dim={c['dim']}> accepted for a cluster of {c['n']} observations "
                          f"({'<obs>' if c['kind'] == 'obs' else '<height-differences>' if c['kind'] == 'hdiffs' else c['kind']}); "
                          f"gama-local then: {c10_net._outcome(r)[:160]}",
                          {"stream": "covparse", "gkf": c["gkf"], "kind": c["kind"], "dim": c["dim"], "n": c["n"]}, site,
                          c10_net._outcome(r))
            corr.count("f9_accepted_dim_mismatch")


# ------------------------------------------------------------------ change_y_signs_for_inconsistent_system_ in process

YSIGN_SITE = "LocalNetwork::change_y_signs_for_inconsistent_system_"


def libgama_objects(ctx):
    d = ctx.build_gama(sanitize=False)
    objs = sorted(str(p) for p in (d / "CMakeFiles" / "libgama.dir").rglob("*.o"))
    if not objs:
        raise BuildError("libgama objects", f"no object files under {d}")
    return d, objs


def ysign_parse(out):
    """harness output -> dict(consistent, P/R/B: dict(points=[(h, x, y)], clusters=[(dim, band, flags, values, buf)]))"""
    st = {"consistent": None, "P": {"points": [], "clusters": []}, "R": {"points": [], "clusters": []},
          "B": {"points": [], "clusters": []}, "E": []}
    for l in out:
        t = l.split()
        if not t:
            continue
        if t[0] == "E":
            if t[1:2] == ["consistent"]:
                st["consistent"] = t[2] == "1"
            else:
                st["E"].append(l)
        elif t[0] in "PRB" and t[1] == "point":
            st[t[0]]["points"].append((t[2], t[3], t[4]))
        elif t[0] in "PRB" and t[1] == "cluster":
            parts, cur = [], []
            for x in t[2:]:
                if x == "|":
                    parts.append(cur)
                    cur = []
                else:
                    cur.append(x)
            parts.append(cur)
            head, flags, vals, buf = parts
            st[t[0]]["clusters"].append((int(head[0]), int(head[1]), [f == "1" for f in flags], vals, buf))
    return st


def ysign_oracle(st):
    """independent of the Lean model: remove_inconsistency() of an inconsistent system negates y of the points with
    coordinates, the values of the Y / Ydiff observations, and turns every covariance matrix C into D C D (stored entry
    (i,j) negated iff EXACTLY ONE of i, j is mirrored); a consistent system is left alone; return_inconsistency() restores
    the input bit for bit"""
    bad = []
    neg = lambda h: float2hex(-hex2float(h))
    same = lambda a, b: hex2float(a) == hex2float(b)
    P, R, B = st["P"], st["R"], st["B"]
    if len(R["points"]) != len(P["points"]) or len(R["clusters"]) != len(P["clusters"]) or B != P:
        if B != P:
            bad.append("remove_inconsistency() followed by return_inconsistency() does not restore points / values / covariances")
        if len(R["points"]) != len(P["points"]) or len(R["clusters"]) != len(P["clusters"]):
            return bad + ["different number of points / clusters after remove_inconsistency()"]
    if st["consistent"]:
        if R != P:
            bad.append("consistent system changed by remove_inconsistency()")
        return bad
    for k, ((h, x, y), (h2, x2, y2)) in enumerate(zip(P["points"], R["points"])):
        if h2 != h or not same(x2, x) or not same(y2, neg(y) if h == "1" else y):
            bad.append(f"point {k}: (x, y) = ({hex2float(x)}, {hex2float(y)}) -> ({hex2float(x2)}, {hex2float(y2)}), expected y negated")
    for k, ((d, b, fl, vals, buf), (d2, b2, fl2, vals2, buf2)) in enumerate(zip(P["clusters"], R["clusters"])):
        if (d2, b2, fl2) != (d, b, fl) or len(vals2) != len(vals) or len(buf2) != len(buf):
            bad.append(f"cluster {k}: shape changed")
            continue
        for i, (f, v, v2) in enumerate(zip(fl, vals, vals2)):
            if not same(v2, neg(v) if f else v):
                bad.append(f"cluster {k}: value of observation {i + 1} ({'mirrored' if f else 'not mirrored'}) {hex2float(v)} -> {hex2float(v2)}")
        pos = 0
        mir = lambda i: i <= len(fl) and fl[i - 1]
        for i in range(1, d + 1):
            for j in range(i, min(d, i + b) + 1):
                want = neg(buf[pos]) if mir(i) != mir(j) else buf[pos]
                if not same(buf2[pos], want):
                    bad.append(f"cluster {k} (dim {d}, band {b}): C({i},{j}) = {hex2float(buf[pos])} -> {hex2float(buf2[pos])} with "
                               f"mirrored[{i}] = {int(mir(i))}, mirrored[{j}] = {int(mir(j))}: D C D has {hex2float(want)}")
                pos += 1
    return bad


def ysign_export_check(gama, tmp, tag, gkf):
    """adjust, --export, adjust the export: same adjusted coordinates and [pvv] (the export applies y_sign() to y / dy and the
    sign rule of updated_xml_covmat to the covariances, the parser + remove_inconsistency() undo both)"""
    from props import c10_net
    a = Path(tmp) / f"{tag}.gkf"
    a.write_text(gkf)
    ex = Path(tmp) / f"{tag}-export.gkf"
    rc, out, err = sh([str(gama), str(a), "--algorithm", "gso", "--export", str(ex), "--xml", str(Path(tmp) / f"{tag}.xml")], timeout=120)
    if rc != 0 or not ex.exists():
        return [f"gama-local --export failed (rc {rc}): {(err or out)[-200:]}"]
    r1 = c10_net._run_one(gama, str(tmp), tag + "-a", gkf, "gso")
    r2 = c10_net._run_one(gama, str(tmp), tag + "-b", ex.read_text(), "gso")
    if c10_net._rejected(r1) or not r1["adj"]:
        return []                                      # the network stream reports that
    if c10_net._rejected(r2) or not r2["adj"]:
        return ["the exported network is refused: " + c10_net._outcome(r2)[:300]]
    bad = []
    for pid, dct in r1["adj"].items():
        for cc, x in dct.items():
            y = r2["adj"].get(pid, {}).get(cc)
            # exported approximate coordinates / values are printed with fewer digits than the adjustment carries
            if y is None or abs(x - y) > 2e-7:
                bad.append(f"{pid}.{cc}: {x!r} adjusted, {y!r} after export (diff {abs(x - (y or 0)):.3e} m)")
    if abs(r1["pvv"] - r2["pvv"]) > 1e-6 + 1e-5 * max(abs(r1["pvv"]), abs(r2["pvv"])):
        bad.append(f"[pvv] {r1['pvv']!r} adjusted, {r2['pvv']!r} after export")
    return bad


def ysign_stream(ctx, corr, drv, count=None, tmpdir=None):
    from props import c10_net
    d, objs = libgama_objects(ctx)
    exe = ctx.build_cpp("c10_ysign", [ctx.verif / "harness" / "c10_ysign.cpp"], libs=objs + ["-lexpat"],
                        includes=[ctx.verif / "harness"])
    import tempfile
    import shutil
    tmp = Path(tempfile.mkdtemp(prefix="c10ys-", dir=str(ctx.build)))
    try:
        nets = []
        for k in range(count or ctx.size(10, 80)):
            c = c10_net.gen_ysign(ctx.rng, k)
            for v in c["variants"]:
                nets.append((c, v))
        cases = []
        for i, (c, v) in enumerate(nets):
            f = tmp / f"n{i}.gkf"
            f.write_text(v["gkf"])
            cases.append([f"ysign {f}"])
        impl, crashes = run_cases(exe, cases)
        sts, mcases = [], []
        for i, out in enumerate(impl):
            st = ysign_parse(out or []) if i not in crashes else None
            sts.append(st)
            ops = []
            if st and st["consistent"] is False:
                ops += [f"ypointF {h} {x} {y}" for h, x, y in st["P"]["points"]]
                ops += ["ysignF %d %d %s | %s | %s" % (dd, bb, " ".join(buf), " ".join("1" if f else "0" for f in fl), " ".join(vals))
                        for dd, bb, fl, vals, buf in st["P"]["clusters"]]
            mcases.append(ops)
        model, _ = run_cases(drv, mcases)
        for i, (c, v) in enumerate(nets):
            st = sts[i]
            payload = {"stream": "ysign", "gkf": v["gkf"], "variant": v["name"], "sub": c["sub"]}
            usable = st is not None and st["consistent"] is not None and not st["E"]
            inconsistent = usable and not st["consistent"]
            corr.case(key=("ysign", c["sub"], c["meta"]["n"], c["meta"]["band"], v["name"]) if inconsistent else None,
                      sample={"stream": "ysign", "variant": v["name"], "sub": c["sub"], "n": c["meta"]["n"],
                              "band": c["meta"]["band"]} if i < 2 else None)
            if i in crashes or not usable:
                corr.fail("harness c10_ysign failed on a valid network", payload, YSIGN_SITE,
                          (crashes.get(i, (0, ""))[1] or "\n".join((impl[i] or [])[:3]))[:600])
                continue
            corr.count("ysign_networks")
            corr.count("ysign_inconsistent" if inconsistent else "ysign_consistent")
            bad = ysign_oracle(st)
            if bad:
                corr.fail("y mirroring of an inconsistent system: " + bad[0], payload, YSIGN_SITE, "\n".join(bad[:8]))
            if not inconsistent:
                continue
            np_ = len(st["P"]["points"])
            want = ["ok %s %s" % (x, y) for _, x, y in st["R"]["points"]] + \
                   ["ok %d %d %s | %s" % (dd, bb, " ".join(buf), " ".join(vals)) for dd, bb, fl, vals, buf in st["R"]["clusters"]]
            got = model[i] or []
            corr.count("ysign_clusters", len(st["P"]["clusters"]))
            corr.count("ysign_cov_entries", sum(len(cl[4]) for cl in st["P"]["clusters"]))
            corr.count("ysign_mirrored_pairs", sum(1 for cl in st["P"]["clusters"] for a in range(len(cl[2]))
                                                  for b2 in range(a + 1, len(cl[2])) if cl[2][a] and cl[2][b2]))
            if len(got) != len(want) or any(a.split() != b.split() for a, b in zip(got, want)):
                k = next((k for k, (a, b) in enumerate(zip(got, want)) if a.split() != b.split()), min(len(got), len(want)))
                corr.disagree("ysign", (mcases[i][k:k + 1] or mcases[i][:1]) + [v["gkf"]], want[k:k + 1], got[k:k + 1],
                              f"line {k} ({'point' if k < np_ else 'cluster'}) of {len(want)}; variant {v['name']}")
        # way out (C10_y_sign_sites_agree): the --export of an inconsistent network, adjusted again, is the same adjustment
        gama = d / "gama-local"
        todo = [(i, c, v) for i, (c, v) in enumerate(nets) if sts[i] and sts[i]["consistent"] is False][:ctx.size(6, 30)]
        for i, c, v in todo:
            payload = {"stream": "ysign-export", "gkf": v["gkf"], "variant": v["name"], "sub": c["sub"]}
            bad = ysign_export_check(gama, tmp, f"x{i}", v["gkf"])
            corr.count("ysign_export_roundtrips")
            corr.case(key=("ysign-export", c["sub"], c["meta"]["n"], c["meta"]["band"], v["name"]))
            if bad:
                corr.fail("export of an inconsistent network with a correlated cluster is not the same adjustment: " + bad[0],
                          payload, "LocalNetwork::updated_xml_covmat", "\n".join(bad[:8]))
        if corr.stats.get("ysign_inconsistent", 0) < 4 or corr.stats.get("ysign_mirrored_pairs", 0) < 4:
            corr.inconclusive.append("ysign: fewer than 4 inconsistent networks / pairs of mirrored components")
    finally:
        shutil.rmtree(tmp, ignore_errors=True)


def ysign_replay(ctx, inp):
    """the recorded network through the real change_y_signs_for_inconsistent_system_ again: oracle (D C D) and model"""
    import tempfile
    d, objs = libgama_objects(ctx)
    exe = ctx.build_cpp("c10_ysign", [ctx.verif / "harness" / "c10_ysign.cpp"], libs=objs + ["-lexpat"],
                        includes=[ctx.verif / "harness"])
    with tempfile.TemporaryDirectory() as tmp:
        f = Path(tmp) / "replay.gkf"
        f.write_text(inp["gkf"])
        impl, crashes = run_cases(exe, [[f"ysign {f}"]])
        if crashes:
            print("harness crashed:", crashes[0][1][-500:])
            return 1
        st = ysign_parse(impl[0])
        bad = ysign_oracle(st)
        for b in bad[:10]:
            print("ORACLE:", b)
        rc = 1 if bad else 0
        if st["consistent"] is False:
            ops = [f"ypointF {h} {x} {y}" for h, x, y in st["P"]["points"]] + \
                  ["ysignF %d %d %s | %s | %s" % (dd, bb, " ".join(buf), " ".join("1" if fl_ else "0" for fl_ in fl), " ".join(vals))
                   for dd, bb, fl, vals, buf in st["P"]["clusters"]]
            want = ["ok %s %s" % (x, y) for _, x, y in st["R"]["points"]] + \
                   ["ok %d %d %s | %s" % (dd, bb, " ".join(buf), " ".join(vals)) for dd, bb, fl, vals, buf in st["R"]["clusters"]]
            mod, _ = run_cases(ctx.driver("drv_cov"), [ops])
            for o, a, b in zip(ops, want, mod[0] + [""] * len(want)):
                if a.split() != b.split():
                    print("DISAGREE: implementation vs model on", o[:200]); print("impl :", a[:300]); print("model:", b[:300])
                    rc = 1
        print("ysign replay:", "still fails" if rc else "ok")
        return rc


def net_stream(ctx, corr):
    from props import c10_net
    gdir = ctx.build_gama(sanitize=False, targets=("gama-local",))
    c10_net.run(ctx, corr, gdir, ctx.size(40, 400), include_f9=True, include_tiny=True, probe=True)


def search(ctx, broken, corr):
    """a broken tie without an oracle failure: the disagreeing operation itself is the concrete input on which the
    implementation deviates from the model the theorems are about (exact at Rat / bit-exact for data movement)"""
    out = []
    for d in corr.disagreements[:5]:
        if d["stream"] == "covparse":
            payload = {"stream": "covparse", "model_op": d["case"][0], "gkf": d["case"][1], "impl": d["impl"], "model": d["model"]}
            site = "GKFparser::finish_cov"
        elif d["stream"] == "ysign":
            payload = {"stream": "ysign", "model_op": d["case"][0], "gkf": d["case"][-1], "impl": d["impl"], "model": d["model"]}
            site = YSIGN_SITE
        else:
            payload = {"stream": d["stream"], "ops": d["case"], "impl": d["impl"], "model": d["model"]}
            site = {"idx": "CovMat::operator[]", "bandidx": "BandMat::operator()", "chol": "CovMat::cholDec",
                    "malformed": "CovMat::cholDec", "fwd": "Adj::forwardSubstitution", "active": "Cluster::activeCov",
                    "scale": "Cluster::scaleCov", "blockdiag": "BlockDiagonal::cholDec",
                    "homrun": HOMRUN_SITE}.get(d["stream"], d["stream"])
        out.append(Failure(f"implementation deviates from the verified model (stream {d['stream']}): impl {str(d['impl'])[:120]} "
                           f"vs model {str(d['model'])[:120]}", payload, site, d.get("why", "")))
    return out


def classify(ctx, failure):
    """known findings are matched by call site + mechanism signature of the failing case, never by property id"""
    inp = failure.replay if isinstance(failure.replay, dict) else {}
    # C10-TINY: only the tiny-variance family, only the envelope algorithm deviates (or refuses with the
    # Homogenization message) on the `tiny` variant while the rescaled reference and the other algorithms agree
    if failure.site == "Homogenization::run" and inp.get("oracle") == "c10_net" and inp.get("family") == "tiny":
        lines = [l for l in (failure.detail or "").splitlines() if l.strip()]
        if lines and all(l.startswith("tiny/envelope:") for l in lines):
            return "C10-TINY"
    return None


def translate(ctx):
    """the model of finish_obs / finish_hdiffs contains the dimension guard of 410fb36; it must be in the source"""
    missing = [fn for fn in ("finish_obs", "finish_hdiffs") if not dim_check_in_source(ctx, fn)]
    if missing:
        raise TieBroken("GKFparser dim guard", "no `idim != observation_list.size()` guard in " + ", ".join(missing) +
                        " (lib/gnu_gama/xml/gkfparser.cpp); Model/CovParse.finishObs/finishHdiffs model the guarded code")
    # the sign rule of the covariances under the internal y mirroring, way in and way out: Gen/YSign.lean
    sys.path.insert(0, str(VERIF / "tools" / "gen"))
    import c10_ysign
    try:
        text = c10_ysign.gen(ctx.repo)
    except c10_ysign.YSignError as e:
        raise TieBroken("c10_ysign translator", str(e))
    except (OSError, IndexError, ValueError, KeyError) as e:
        raise TieBroken("c10_ysign translator", repr(e))
    f = ctx.lean / "Gama" / "Gen" / "YSign.lean"
    if not f.exists() or f.read_text() != text:
        f.write_text(text)
    # round 7: throw / phase order / forward substitution of Homogenization::run and the dimension guards of the
    # cluster finishers as a regenerated table (Gen/HomogenizationSites.lean), read by Props/C10HomSites.lean
    sys.path.insert(0, str(VERIF / "tools"))
    from gen import c10_homsites
    try:
        if c10_homsites.run(ctx.repo, ctx.lean):
            ctx.log("Gen/HomogenizationSites.lean regenerated (content changed)")
    except c10_homsites.Unparsable as e:
        raise TieBroken("c10_homsites translator", str(e))
    except (OSError, IndexError, ValueError, KeyError) as e:
        raise TieBroken("c10_homsites translator", repr(e))


def replay(ctx, payload):
    """re-run a recorded failing input on the current tree; 1 = still fails"""
    f = payload.get("failure") or {}
    inp = f.get("input") or {}
    print(json.dumps({k: v for k, v in f.items() if k != "input"}, indent=1)[:2000])
    if inp.get("oracle") == "c10_net":
        from props import c10_net
        fails, text = c10_net.replay_case(ctx.build_gama(sanitize=False, targets=("gama-local",)), inp)
        print(text[:4000])
        return 1 if fails else 0
    if inp.get("stream") == "ysign":
        return ysign_replay(ctx, inp)
    if inp.get("stream") == "ysign-export":
        import tempfile
        with tempfile.TemporaryDirectory() as tmp:
            bad = ysign_export_check(ctx.build_gama(sanitize=False) / "gama-local", tmp, "replay", inp["gkf"])
        for b in bad[:10]:
            print("ORACLE:", b)
        return 1 if bad else 0
    if "gkf" in inp:
        from props import c10_net
        import tempfile
        gdir = ctx.build_gama(sanitize=False, targets=("gama-local",))
        with tempfile.TemporaryDirectory() as tmp:
            rc = 0
            for alg in ALGS:
                r = c10_net._run_one(gdir / "gama-local", tmp, "replay_" + alg, inp["gkf"], alg)
                o = c10_net._outcome(r)
                print(alg, ":", o)
                if not (r["error"] and "ParserError" in (r["error"]["category"] or "")):
                    rc = 1       # not refused by the parser
        return rc
    if "ops" in inp:
        exe = ctx.build_cpp("c10_cov", [ctx.verif / "harness" / "c10_cov.cpp"] + [ctx.repo / s for s in SRC])
        out, crashes = run_cases(exe, [inp["ops"]])
        mod, _ = run_cases(ctx.driver("drv_cov"), [inp["ops"]])
        for l, a, b in zip(inp["ops"], out[0], mod[0] + [""] * len(out[0])):
            print("op   :", l[:300]); print("impl :", a[:300]); print("model:", b[:300])
        if inp.get("stream") == "homrun":
            rc = 1 if crashes else 0
            for l, a, b in zip(inp["ops"], out[0], mod[0] + [""] * len(out[0])):
                if not lines_equal(a, homrun_norm(b), rtol=1e-9, atol=0.0):
                    print("DISAGREE: implementation vs model")
                    rc = 1
                try:
                    fails, _ = homrun_check(l, a, b)
                except (IndexError, ValueError, KeyError, ZeroDivisionError) as ex:
                    fails = [f"answer does not have the expected shape ({type(ex).__name__}: {ex})"]
                for w in fails:
                    print("ORACLE:", w)
                    rc = 1
            return rc
        if inp.get("stream") == "adj":
            return 0 if all(o.startswith("throw") for o in out[0]) else 1
        return 1 if (crashes or out[0] != mod[0]) else 0
    return 0


LEVEL_TEXT = ("Lean 4 theorems (all dimensions, band widths, masks, all field elements) about executable models of CovMat "
              "packed storage, Cluster::activeCov/scaleCov, the band LDL'/Cholesky kernels (dense and block-diagonal) and the "
              "<cov-mat> accounting of GKFparser, and the whole Homogenization::run on a multi-block AdjInputData (replicate, "
              "cholDec, UpperBlockDiagonal, rhs sweep, counting, perm/invp/T gather, per-column substitution, scatter without "
              "exact zeros); whitening (homogenisation) proved over Mathlib matrices; models tied to the C++ "
              "by differential correspondence (exact rationals / doubles) and a property oracle on the implementation. "
              "The internal y mirroring of inconsistent systems (LocalNetwork::change_y_signs_for_inconsistent_system_) is modelled as "
              "a whole; the boolean sign rule of the covariances is regenerated from network.cpp for the way in and the way out "
              "(updated_xml_covmat) and proved to be the exclusive or, i.e. C -> D C D (symmetric, positive definite iff C is, the "
              "weighted problem of the mirrored description; the export writes back the input matrix). "
              "Round 9: at the LocalNetwork entry point the answer of netSolve (any algorithm, one input-side hypothesis) minimises m0^2 v' Sigma^-1 v with Sigma the FULL block covariance of the active observations (C10_network_solution_uses_full_covariance, witnessed on a band-1 cluster with an excluded observation); the output of the executable Homogenization::run model is the whitened system (W A, W b), W'W = m0^2 Sigma^-1, that envSolve factorises and prepareProjectEquations leaves (C10_sparse_path_is_homogenization_run); the two acceptance tests (relative N eps max-diag of CovMat::cholDec at parse time and in prepare - scale invariant, proved - versus absolute 1e-14 of BlockDiagonal::cholDec) are compared on their common exact pivots: agree iff, and both gaps with witnesses (C10-TINY and the reverse gap); repeated column indices (an observation from a point to itself): dense path, uncorrelated blocks and - since repo 6d0f7107, with the operator of `T(i,perm[c]) += a` regenerated into Gen/HomogenizationSites and read by C10_homogenization_gather_site - correlated blocks of Homogenization::run all SUM them (C10_repeated_columns_agree; regression network corpus/C10/net-repcol-*.gkf run under the four algorithms on every check); for gso/svd/cholesky the network theorem holds with NO hypothesis on the sparse rows, about the summed design matrix (C10_network_solution_uses_full_covariance_aliased).")
LEVEL_NOTE = ("Trusted: Lean kernel, statements in the files of PROPS_FILES (Props/C10.lean, C10YSign, C10HomSites, C10Accept, C10Net, "
              "C10Aliased), harness/c10_cov.cpp, harness/c10_ysign.cpp, "
              "tools/gen/c10_ysign.py (parses the two sign conditions; everything around them is matched against the modelled shape), "
              "tools/gen/c10_homsites.py (Homogenization::run: throw test and kind, order of the 11 phases, arithmetic of the rhs forward "
              "substitution by skeleton matching on tools/gen/cfun.py, operator of the gather store and that T is zeroed before it; "
              "dimension guards of finish_obs / finish_hdiffs -> Gen/HomogenizationSites, read by the five theorems of "
              "Props/C10HomSites.lean), generators and tolerances. Hand models behind those sites: the counting and assembling passes "
              "beyond their order, the perm/invp numbering, the scatter, BlockDiagonal::cholDec, CovParse (finish_cov accounting). "
              "Round 12: no theorem carries a 'no repeated column index in a row' hypothesis any more (SMat.nodupRows left Hom.run_spec, "
              "C10_homogenization_run, Env.HoldsProblem; RowsOK is the range condition; Problem.dense, Cov.Hom.run and every C++ consumer sum); "
              "C10_network_solution_uses_full_covariance_aliased covers every algorithm, envelope included. Residues: "
              "'a non positive definite block is rejected by every algorithm' is one-way at network level (C01_net_rejects) and "
              "examples at parse time; findings: C10-REPCOL fixed (6d0f7107), C10-covmat-dim-check fixed (410fb36), "
              "C10-homogenization-nonpd fixed (7e9fd7d), C10-TINY known (proved as C10_tiny_gap; two corpus cases classified on "
              "every run). IEEE rounding is "
              "not modelled (theorems are over ordered fields; Float runs are compared with tolerance 1e-9).")
TECHNIQUE = ("Lean 4 proof (index bijection, loop invariants, matrix algebra, uniqueness of the triangular factorisation for the "
             "comparison of the two acceptance tests) + translators (y-sign rule, sites of Homogenization::run and the dimension "
             "guards) + model/implementation correspondence + network-level oracle on gama-local (tools/props/c10_net.py)")
TRUSTED = ["harness/c10_cov.cpp (test Observation type for Cluster<Observation>)",
           "harness/c10_ysign.cpp (real LocalNetwork built by GKFparser; remove_inconsistency / return_inconsistency)",
           "gama-local executable behaviour observed through exit code / message text / --xml output",
           "translator tools/gen/c10_ysign.py (parser of the boolean sign expression; the loop nest around it is hand Model/YSign, "
           "shape-checked)",
           "translator tools/gen/c10_homsites.py (regex markers for the phases and the throw block, cfun skeleton for the forward "
           "substitution, regex for the gather statement and the dimension guards; anything else stops the run)"]
MODELLED = ["IEEE rounding in the Cholesky kernels (proved over ordered fields with sqrt; executed at Rat and Float)",
            "toDouble / toIndex / white-space splitting of <cov-mat> character data (input abstraction, owned by C11)",
            "Cluster::act_dim caching (activeCov model recomputes it; update() is called by every caller chain)",
            "BlockDiagonal::cholDec / UpperBlockDiagonal / Homogenization::run: modelled with raw offsets on one buffer and "
            "compared with the C++ and with the dense path; see notes/reports/C10.md (Round 3) for the refinement lemmas proved; "
            "its throw, phase order, forward substitution and gather store are regenerated (Gen/HomogenizationSites, round 7 / 9b) and "
            "it is proved equal in values and rejections to the solver-side Ls.Env.homogenize (C16_hom_run_eq_env_homogenize, "
            "no no-repeat hypothesis since round 12); "
            "Homogenization's ready/reset caching is not modelled (one call of run)"]
ASSUMPTIONS = ["covariance blocks have 0 <= band < dim (established by GKFparser::process_cov and Cluster::activeCov, proved)",
               "Homogenization::run: design matrix completely built, rows = sum of block dims = rhs size, column indices in "
               "1..cols (repeated column indices inside a sparse row are allowed since round 12: their coefficients add up, "
               "T(i,perm[c]) += a since repo 6d0f7107)"]
