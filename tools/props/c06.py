"""C06 — consistent observations reproduce the network they were derived from."""
import math
import shutil
import tempfile

from lib.core import *
from lib import gen_net as G
from gen import c06_nets as N
from gen import c06_acord as A
from gen import c05_linearization as tr_lin
from gen import c06_testlin as tr_tl

ID = "C06"
PROPS_FILES = ["Gama/Props/C06.lean", "Gama/Props/C06Assembled.lean", "Gama/Props/C06Refine.lean", "Gama/Props/C06Network.lean", "Gama/Props/C06AiMono.lean"]
LEAN_TARGETS = ["Gama.Props.C06", "Gama.Props.C06Assembled", "Gama.Props.C06Refine", "Gama.Props.C06Network", "Gama.Props.C06AiMono"]
DRIVERS = ["drv_cogo"]
RULE = ("(a3) the whole of Acord2::execute (the real do-while, all strategy objects of the constructor) on in-memory networks "
        "of 2..4 given points and 2..6 construction stages, each tying a new point or a missing height to points that are "
        "or will be known by a construction of one strategy (azimuth + distance, levelling lines - also such whose first "
        "known height comes from a later strategy -, zenith angle + distance either way, vectors, two / three distances, "
        "directions from oriented stations, resection; rarely direction + distance = AcordPolar), exact data, all axes / "
        "angle senses: sizes of missing_xy_ / missing_z_ at the start of every turn, number of turns and every point are "
        "compared with Acord.execute of Gama/Model/Acord2.lean over the five modelled strategies; networks in which a "
        "strategy without a model acted (AcordPolar / AcordTraverse / AcordWeakChecks changed a point, a candidate list or "
        "a missing set; solve_insertion published a point) are outside the model, counted, and left to the oracle; "
        "(a'') AcordIntersection::execute as a whole on small in-memory networks (2..4 known points, 1..3 points without xy, "
        "each tied by one of: two outer bearings, bearing + distance, three / two distances, resection from directions or "
        "angles at the new point, direction + angle, outer angle + distance, azimuth from a known point, azimuth observed AT "
        "the new point (rule of fix 78a600d), slope distance with zenith angle / with both heights; later points tied to "
        "earlier ones; random circle orientations; all 8 axes x 2 angle senses; exact 80 % / perturbed), execute() once or "
        "twice: every point's flags and coordinates, missing_xy_, the orientation Orientation::add_all left on every "
        "stand-point and completed() are compared; (a') single strategy steps: small in-memory networks (2..7 points; numeric and non-numeric ids in both orders; points "
        "that are 2D, 3D, height-only or undefined; all 8 axes-xy x 2 angle senses; unequal non-zero from_dh/to_dh; exact (80 %) "
        "or perturbed observations) on which ONE execute() of AcordAzimuth / AcordHdiff / AcordVector / AcordZderived "
        "(+ get_medians_z) is run once or twice; distinct by op line, non-trivial = at least one coordinate defined afterwards; "
        "+ AcordHdiff with heights published by another strategy between two executions (in 2 of 3 of these no height of the "
        "line is known at the first execution), completed() after every execution; (a) primitive calls: random base points / true point X in a 1 km square, exact observations derived from X "
        "(70 %) or random inconsistent data (30 %), small-angle limits 0.15 / 0.1; distinct by op line, non-trivial = "
        "at least one solution returned; (b) single adjustment step on generated networks and on PURE trilateration networks with approximate coordinates off "
        "by 0.1..0.5 m, where every misclosure of the stopping test is <= 0 (refine_approx_coordinates, every "
        "observation's stopping-test misclosure, the flag of TestLinearization); (c) end-to-end: constructive 1D/2D/3D networks "
        "(polar, forward / distance intersection, resection, traverse, azimuth, vectors, levelling, mixes; special "
        "circle orientations near 0/100/200/300/400 gon; with and without from_dh/to_dh), variants supplied / "
        "perturbed by up to 1 mm / 1 cm / 0.1 m / 1 m (the property's 'perturbed' clause) and by up to 5 m (a STRESS draw, one "
        "case in five: 5 m can be large relative to the sights of the generated networks, see LEVEL_NOTE) / omitted / "
        "omitted+further observations, pure trilateration with approximate coordinates off by "
        "0.1..0.5 m (true coordinates to 0.001 mm), all four algorithms; distinct by gkf text, "
        "non-trivial = at least one adjusted point")
LEVEL_TEXT = ("partial: Lean 4 theorems over R about executable models of the approximate-coordinate building blocks "
              "(all of g2d_cogo: Distance_distance returns exactly the two mirror solutions; Direction_direction, "
              "Direction_distance, Circle (inscribed angle), Direction_angle, Distance_angle, Angle_angle, the polar point "
              "and the similarity key return the true point under the code's own guards), of Acord2::median (constant and "
              "strict-majority lists) and Orientation::orientation (consistent directions give the true orientation for "
              "every orientation in [0,2pi), including the +-pi wrap seam, as repaired by 01e764d), of one "
              "refine_approx_coordinates step (exact units, exactly the free coordinates) and of the fixed point (zero "
              "absolute term for all 13 observation types of the linearisation GENERATED from local_linearization.cpp, "
              "hence zero right-hand side for the WHOLE pass of project_equations (C05's model), hence every solution meeting C01's "
              "specification IsLSSolution has x = 0, v = 0, [pvv] = 0 when the regularisation resolves the defect, the stopping "
              "test passes and refine_approx_coordinates changes nothing; round 6: the stopping test of that statement is the loop "
              "of TestLinearization() over the observations of the same pass with every TestLinearizationVisitor::visit "
              "REGENERATED from test_linearization_visitor.cpp/.h on the records of the generated linearisation, reading the "
              "corrections through the index fields the pass left - no hypothesis about the misclosures is left: they are 0 for "
              "all 13 classes, a direction read any whole number of circles off its bearing included, and the wrap loops end), "
              "and of single steps of the Acord2 strategies "
              "AcordAzimuth (prepare + execute, both id orders), AcordHdiff, AcordVector (chaining loops, both directions, "
              "copy-back), AcordZderived (station from targets and targets from station; horizontal, slope and coordinate "
              "distances; instrument/target heights) with Acord2::get_medians_z: exact observations and a point list whose "
              "defined coordinates are true give a point list whose defined coordinates are true, for every xNorthAngle "
              "(all axes orientations / angle senses) and every interleaving of these steps; no step clears a flag or "
              "enlarges a missing set, AcordAzimuth / AcordZderived never change a defined coordinate. Two places where "
              "exact data are NOT reproduced are proved as defects and replayed (azimuth 0 with reverse azimuth 200 gon; "
              "second-face zenith angles in AcordZderived; both repaired since). Round 3b: AcordIntersection::execute with "
              "ApproximateCoordinates and ApproxPoint (everything but solve_insertion) is modelled and executed next to the real "
              "class; proved: every pair of observations ApproxPoint::calculation intersects gives no solution or contains the "
              "true point (no guard hypothesis left), Select_solution_g2d decides for the true point, the median of the "
              "candidates is the true point, the azimuth rule of fix 78a600d and the slope reductions of the temporary "
              "stand-point are exact, and the loops (solve_intersection, computational_loop, both ApproximateCoordinates runs "
              "of an execute call, repeated calls) keep the point list sound; round 4: ApproxPoint::reset (add_all, selection, "
              "makeBearing / makeAngle, the grouping passes and medians of ArrangeObservations, norm_rad_val) is proved to hand "
              "exact observations on for exact clusters (C06_reset_ok; required: two directions observed at one point go to "
              "targets that are apart and not in one direction), so C06_acord_intersection_sound has no hypothesis about the "
              "code left, with one network evaluated end to end over R. "
              "Acord2::execute as a state machine: soundness after any number of rounds for any strategy list from per-step "
              "soundness (discharged for the four modelled strategies and the medians), flags never cleared / missing sets "
              "never grow for arbitrary data, values kept for exact data (with the AcordVector and get_medians_z exceptions "
              "as proved witnesses), termination within |missing| rounds. Round 4, the MODELLED Acord2 as a whole (azimuth, hdiff, "
              "zderived, vector, intersection in the constructor's order + get_medians / get_medians_z): sound on exact "
              "observations (C06_acord2_modelled_sound, no hypothesis about a strategy); 'more observations never lose a point' "
              "per round (C06_acord2_modelled_monotone: proved for AcordHdiff, AcordVector, AcordZderived, AcordAzimuth and the "
              "bookkeeping - full for networks without stand-points; _partial with AcordIntersection's step monotonicity as the "
              "one remaining hypothesis), and for execute itself: either nothing is lost or the run on the larger set stopped "
              "strictly earlier (the stop-rule limitation; a proved witness shows a machine with sound, monotone, extensive steps "
              "where 'no progress in one round' loses a point). Erasing a completed strategy = letting it idle is proved. NOT proved: convergence of the iterated linearisation from "
              "perturbed / omitted approximate coordinates, the strategies AcordPolar::execute, AcordTraverse, AcordWeakChecks, "
              "ApproximateCoordinates::solve_insertion (finding C06-F21: it publishes wrong points from exact data), "
              "monotonicity of AcordIntersection under added observations and the completeness of the whole; these are covered by "
              "the streams / the end-to-end search on gama-local only. The scheduling model (Gama/Model/Acord2.lean) is executed "
              "by drv_cogo (op acord2) next to the real Acord2::execute. "
              "Round 7: (i) the fixed point through the EXECUTED models of project_equations() and of the solver facade "
              "(C06_exact_network_solution_zero: exact observations => solve() = 0, residuals() = 0, [pvv] = 0 for envelope / "
              "cholesky / gso under C01's one rank-gap hypothesis; weights = m0^2 Sigma^-1 of the clusters, positive definiteness "
              "derived from the accepted prepareProjectEquations()); (ii) refine_obsdh_reductions(IS, adjusted) in both modes and the "
              "three-test loop of refine_adjustment() (281bcf7, a2adf726) with the reduction formulas, tolerances, store / ask decisions "
              "and the list of tests REGENERATED from the source: the non-adjusted call stores the reductions of the current "
              "coordinates whatever was stored; exact instrument-to-target values + stored reductions are exact mark-to-mark values; at "
              "the true coordinates no test asks and the loop returns with 0 iterations; whenever the loop is left by break every "
              "stored reduction is within 1 um / 0.1 cc of the reduction at the adjusted coordinates (the proof needs the third test "
              "of a2adf726 to be the last of the regenerated list); (iii) what the modelled Acord2 leaves with nothing missing is the "
              "true configuration (Acord feeds the fixed point), and a geometric 2x2 regular instance (two distances to fixed points). "
              "The adjustment and refine_approx_coordinates enter the loop model as parameters; since round 10 the adjustment is "
              "instantiated with project_equations o netSolve (C06_refine_adjustment_fixed_point_pipeline: the loop over the executed "
              "pipeline returns with 0 iterations; complete for networks without from_dh/to_dh - PE.Ob carries value() only, with dh "
              "the hypotheses hview / hsub on the presentation map mk are not discharged; refine_approx_coordinates still a parameter); "
              "the Acord bridge is stated on the linearisation's network record (Lin.Net), not on PE.Net, and is not composed with it; "
              "svd is excluded from "
              "C06_exact_network_solution_zero; no bridge theorem Gen.TestLin.<class> = GN.pol<Class> (both readings are executed); "
              "nothing is proved about the stopping test away from the fixed point. 93 theorems in the five Props files (C06, C06Assembled, C06Refine, C06Network, C06AiMono; round 13).")
LEVEL_NOTE = ("Theorems are about exact real arithmetic; libm and rounding are not modelled. The end-to-end statement "
              "(adjusted = true, zero residuals, nothing removed, for every algorithm) is explored, not proved; "
              "tolerances used by the oracle: 1e-6 m when exact approximate coordinates are supplied, 1e-5 m otherwise "
              "(the program stops iterating at 0.0005 mm positional misclosure), 1e-4 m (xy) / 3e-4 m (z) when from_dh/to_dh "
              "are present (the program refines the from_dh/to_dh reductions to 0.001 mm / 0.1 cc, at the approximate and, since "
              "a2adf726, at the adjusted coordinates: residuals of such observations get +1e-6 m / +1e-5 gon; finding C06-stale-dh-reduction is "
              "FIXED by a2adf726, its allowance is removed, regression corpus/C06/stale-dh-reduction.gkf, invariant "
              "C06_refine_adjustment_reductions_within_tolerance); the only KNOWN finding is C06-F21 (solve_insertion); tol-abs is raised with the "
              "perturbation so that the documented gross-error gate is not what is being tested. A perturbation that is large relative to "
              "the sight lengths (5 m on 24 m sights, a zenith angle with to_dh 5.5 m) can exhaust the 5 linearisation iterations "
              "gama-local allows and end 0.1 m off: recorded in corpus/C06/pending/traverse-perturbed5-bound-reached.*. The end-to-end generator does draw such 5 m "
              "perturbations (RULE: stress draw); the oracle applies the same tolerances to them, so a non-converging one IS "
              "reported by the check (none occurs in the default seeds 1-5 or the thorough tier) and is then to be read as outside the "
              "property's 'perturbed' clause (small perturbations) when the perturbation exceeds about a tenth of the shortest sight "
              "and the run stopped at the iteration bound.")
TECHNIQUE = ("Lean 4 proof (closed-form geometry over R, list induction) + differential correspondence at Float "
             "+ end-to-end property search on gama-local with shrinking")
TRUSTED = ["harness/c06_cogo.cpp re-declares access (#define private public) for acord2.h / acordpolar.h / acordazimuth.h / "
           "acordhdiff.h / acordvector.h / acordzderived.h / acordintersection.h only; the acord2 op puts observer objects "
           "(a probe at the head, a forwarding wrapper around every strategy) into Acord2::algorithms_",
           "tools/gen/c06_acord.py (true coordinates -> exact observations of the single-step networks)",
           "tools/gen/c06_nets.py (true coordinates -> exact observations) and the regex reader of the result XML",
           "expat (the `net` stream parses generated .gkf files through GKFparser)",
           "tools/gen/c06_testlin.py (test_linearization_visitor.cpp/.h -> Gama/Gen/TestLinVisitor.lean; tokenizer and "
           "expression parser are C05's translator's); round 7: the same translator writes Gama/Gen/RefineObsdh.lean from "
           "refine_obsdh_reductions (arithmetic translated, skeleton matched textually) and LocalNetwork::refine_adjustment "
           "(network.cpp / network.h, matched textually, tests emitted as data)"]
MODELLED = ["libm sin/cos/atan2/acos/sqrt (Float primitives of the Lean runtime vs glibc)",
            "std::sort (insertion sort in the model)", "std::map / std::multimap iteration order inside Acord2",
            "AcordPolar::execute, AcordTraverse, AcordWeakChecks, ApproximateCoordinates::solve_insertion (not modelled; "
            "searched end to end; the intersection and acord2 streams count the cases they decide)",
            "orientations AcordPolar::points_from_SPCluster writes to stand-points (AcordIntersection's add_all computes the "
            "same value from the same directions when it gets there; counted by the acord2 stream)",
            "Acord2::get_medians on candidate_xy_ (modelled and proved; never exercised by the acord2 stream: only strategies "
            "without a model produce xy candidates)",
            "Observation::norm_rad_val (fmod) as one conditional +-2pi, exact for the values the code hands to it",
            "Orientation::add_all per run of one cluster (the flat observation list is grouped by cluster)",
            "PointID::operator< (Gama/Gen/PointIdCmp.lean, regenerated from pointid.cpp by C07's tools/gen/c07_pointid.py - on the C07 check, "
            "not by this plugin's translate; PointID::init is the hand model Model/PointIdBase.lean; used by the acord driver; "
            "Tri / StrictTotal of the Acord theorems are not instantiated for PointId.lt)",
            "PointData::xNorthAngle (C05's hand-written model Lin.xNorthAngle, equal to the regenerated Gen.XNorth table by "
            "C05_xnorth_models_agree; used by the acord driver)",
            "least-squares solve between two refine steps (C01; r10, working tree: E.adjust of RA.Env instantiated with projectEquations o netSolve for networks without from_dh/to_dh, "
            "C06PL2.peEnv; E.refineApprox not instantiated)"]
ASSUMPTIONS = ["bearing and direction values lie in [0, 2pi) (one pass of the unbounded wrap loops suffices)",
               "AcordVector::prepare: every Vectors cluster fills all three buffer slots before the first complete triple "
               "(the buffer is indeterminate in the C++ until then)",
               "AcordHdiff / AcordVector chaining loops: fuel 2*(points+2) passes (every successful pass defines a point)",
               "Acord2::median is only called on non-empty vectors",
               "C06_acord2_modelled_monotone_partial / _execute_partial: AcordIntersection is monotone on the simulation relation (aiMono); "
               "its point-level core (ApproxPoint::calculation monotone in the arranged list, C06_acord_intersection_point_monotone) is "
               "proved, the monotonicity of ArrangeObservations and the lock-step of the walks are not",
               "Model/TestLinearization.lean: the loop, the maximum and the threshold of TestLinearization() are hand-written (the "
               "translator checks the shape of the C++ loop text); the special case for a Coordinates cluster has no counterpart "
               "(the visits of X, Y, Z give 0 as well)",
               "Model/RefineAdjustment.lean: the loop over IS->OD, the dynamic_cast dispatch and the loop of refine_adjustment are "
               "hand-written over the regenerated branches / list of tests; the adjustment (project_equations + solver) and "
               "refine_approx_coordinates are parameters of the loop model (RA.Env); `if (changed) IS->update_residuals()` is "
               "represented by the adjustment being a function of the current state (caching: C04)",
               "C06_exact_network_solution_zero (no NoAlias hypothesis since round 12); the joint "
               "non-vacuity instance over R is the levelling network Ex.netWexact with a correlated cluster, for envelope, cholesky and "
               "gso (round 13; existence of the answer by C02_net_answered_iff_resolves, no solver run evaluated); no joint "
               "instance with a distance / direction row",
               "C06I.ExactCl: two directions (azimuths) observed at one point go to targets >= 1e-6 apart and not in one direction",
               "intersection stream: point ids of an observation are distinct; the static small-angle limit starts at 0.15"]

SRC = """e3 ellipsoid ellipsoids gon2deg latlong outstream comb simplified statan utf8 version adj/adj adj/adj_input_data
adj/icgs xml/baseparser xml/encoding_cp1251 xml/encoding xml/encoding_unknown_handler xml/gkfparser xml/str2xml
local/bearing local/language local/acord/approx_heights local/acord/approx_vectors local/acord/acord2
local/acord/acordalgorithm local/acord/acordazimuth local/acord/acordhdiff local/acord/acordintersection
local/acord/acordpolar local/acord/acordstatistics local/acord/acordtraverse local/acord/acordvector
local/acord/acordweakchecks local/acord/acordzderived local/acord/reduce_to_ellipsoid local/format local/gamadata
local/lcoords local/local_linearization local/median/g2d_cogo local/median/g2d_coordinates local/median/g2d_helper
local/median/g2d_point local/network local/orientation local/results/text/underline
local/test_linearization_visitor local/local_revision local/observation local/pointid local/skipcomm
local/xmlerror""".split()

H = float2hex
TWO_PI = 2 * math.pi


def translate(ctx):
    # Props/C06.lean states the fixed point on C05's generated linearisation: make sure it is the current tree's
    tr_lin.translate(ctx.repo, ctx.lean)
    # the stopping test: TestLinearizationVisitor::visit(<Class>*) regenerated on the records of that linearisation
    # (Gama/Gen/TestLinVisitor.lean; executed by drv_cogo in the net stream, proved about in Lemmas/C06PolLin.lean)
    tr_tl.translate(ctx.repo, ctx.lean)


_TOOLS = {}          # harness and driver of the current run (the end-to-end signature consults the acord2 op)


def build_harness(ctx):
    srcs = [ctx.verif / "harness" / "c06_cogo.cpp"] + [ctx.repo / "lib" / "gnu_gama" / (s + ".cpp") for s in SRC]
    exe = ctx.build_cpp("c06_cogo", srcs, includes=[ctx.verif / "harness"], libs=["-lexpat"])
    _TOOLS["exe"], _TOOLS["drv"] = exe, ctx.driver("drv_cogo")
    return exe


CS_CODE = {"en": 0, "nw": 1, "se": 2, "ws": 3, "ne": 4, "sw": 5, "es": 6, "wn": 7}      # LocalCoordinateSystem::CS


def gkf_to_acord2(gkf):
    """a GENERATED .gkf (tools/lib/gen_net.py::to_gkf) as an `acord2` op line; None if it holds anything the op has no
    record for (coordinate clusters, covariance matrices are ignored: Acord2 does not read them)"""
    G2R = math.pi / 200.0
    at = lambda t: dict(re.findall(r'([\w-]+)="([^"]*)"', t))
    m = re.search(r"<network([^>]*)>", gkf)
    if not m or "<coordinates" in gkf:
        return None
    na = at(m.group(1))
    cs = CS_CODE.get(na.get("axes-xy", "ne"))
    if cs is None:
        return None
    rh = 1 if na.get("angles", "left-handed") == "right-handed" else 0
    recs = []
    for m in re.finditer(r"<point ([^>]*)/>", gkf):
        a = at(m.group(1))
        free = a.get("adj", "")
        recs.append(f"P {a['id']} {int('x' in a)} {H(float(a.get('x', 0)))} {H(float(a.get('y', 0)))} {int('z' in a)} "
                    f"{H(float(a.get('z', 0)))} {int('xy' in free.lower())} {int('z' in free.lower())}")
    for m in re.finditer(r"<obs ([^>]*)>(.*?)</obs>", gkf, re.S):
        f = at(m.group(1)).get("from")
        if f is None:
            return None
        o = []
        for k, attrs in re.findall(r"<([\w-]+) ([^>]*)/>", m.group(2)):
            a = at(attrs)
            v = float(a["val"])
            dh = f"{H(float(a.get('from_dh', 0)))} {H(float(a.get('to_dh', 0)))}"
            if k == "direction":
                o.append(f"dir {f} {a['to']} {H(v * G2R)}")
            elif k == "distance":
                o.append(f"d {a.get('from', f)} {a['to']} {H(v)}")
            elif k == "s-distance":
                o.append(f"sd {a.get('from', f)} {a['to']} {H(v)} {dh}")
            elif k == "z-angle":
                o.append(f"za {a.get('from', f)} {a['to']} {H(v * G2R)} {dh}")
            elif k == "azimuth":
                o.append(f"az {a.get('from', f)} {a['to']} {H(v * G2R)}")
            elif k == "angle":
                o.append(f"ang {a.get('from', f)} {a['bs']} {a['fs']} {H(v * G2R)}")
            else:
                return None
        recs.append(f"S {f} " + " ".join(o))
    for m in re.finditer(r"<height-differences[^>]*>(.*?)</height-differences>", gkf, re.S):
        o = [f"hd {a['from']} {a['to']} {H(float(a['val']))}" for a in map(at, re.findall(r"<dh ([^>]*)/>", m.group(1)))]
        recs.append("H " + " ".join(o))
    for m in re.finditer(r"<vectors[^>]*>(.*?)</vectors>", gkf, re.S):
        o = []
        for a in map(at, re.findall(r"<vec ([^>]*)/>", m.group(1))):
            o += [f"dx {a['from']} {a['to']} {H(float(a['dx']))}", f"dy {a['from']} {a['to']} {H(float(a['dy']))}",
                  f"dz {a['from']} {a['to']} {H(float(a['dz']))}"]
        recs.append("V " + " ".join(o))
    return f"acord2 {cs} {rh} " + " ".join(recs)


def insertion_mechanism(gkf, truth):
    """the narrow mechanism of finding C06-F21 on a whole network: run on the same observations, the five modelled
    strategies (everything of AcordIntersection but solve_insertion) publish TRUE coordinates only, while the real
    Acord2::execute publishes a wrong xy that came out of AcordIntersection::execute and that the model does not publish"""
    if not _TOOLS or not truth:
        return False
    try:
        line = gkf_to_acord2(gkf)
        if line is None:
            return False
        (ri, cr), (rm, _) = run_cases(_TOOLS["exe"], [[line]]), run_cases(_TOOLS["drv"], [[line]])
        if cr or not rm[0] or rm[0][0].startswith(("bad-op", "fuel")):
            return False
        body = [l for l in ri[0] if not l.startswith(("acted ", "oriset ", "by "))]
        by = {l.split()[1]: l.split()[2] for l in ri[0] if l.startswith("by ")}
        pts = truth["points"]
        meta = {"truth": {k: (q.get("x", 0.0), q.get("y", 0.0), q.get("z", 0.0)) for k, q in pts.items()}}
        if any(k not in meta["truth"] for k in a2_points(body)):
            return False
        tol = 1e-6 * (1 + max(abs(c) for t in meta["truth"].values() for c in t))
        wrong = a2_wrong(meta, body, tol)
        return bool(not a2_wrong(meta, rm[0], tol) and a2_insertion_acted(body, rm[0], by) and
                    any(w == "xy" and by.get(k) == "AcordIntersection" for k, w in wrong))
    except (KeyError, ValueError, IndexError):
        return False


# ------------------------------------------------------------------ (a) primitives
def brg(a, b):
    return math.atan2(b[1] - a[1], b[0] - a[0]) % TWO_PI


def dist(a, b):
    return math.hypot(a[0] - b[0], a[1] - b[1])


def rnd_pt(rng, s=1000.0):
    return (rng.uniform(0, s), rng.uniform(0, s))


def gen_primitive(rng):
    """returns (op line, true point or None, kind)"""
    X, B1, B2, B3, B4, S = (rnd_pt(rng) for _ in range(6))
    if rng.random() < 0.08:
        B2 = (B1[0] + rng.choice([0.0, 1e-7, 1e-3]), B1[1])          # identical / nearly identical base points
    if rng.random() < 0.08:
        t = rng.uniform(-0.5, 1.5)                                    # X on the base line
        X = (B1[0] + t * (B2[0] - B1[0]), B1[1] + t * (B2[1] - B1[1]))
    sal = rng.choice([0.15, 0.15, 0.1, 0.05])
    consistent = rng.random() < 0.7
    noise = (lambda: 0.0) if consistent else (lambda: rng.choice([0.0, rng.uniform(-0.3, 0.3), rng.uniform(-300, 300)]))
    ang = lambda a, b: (brg(X, b) - brg(X, a)) % TWO_PI
    Xt = X if consistent else None            # the oracle applies to exact data only
    k = rng.choice(["dd", "dirdir", "dirdist", "circle", "dirang", "distang", "angang", "polar", "simtr", "bd"])
    if k == "bd":
        a, b = rnd_pt(rng), rnd_pt(rng)
        if rng.random() < 0.2:
            b = (a[0] + rng.choice([0, 1e-7, 9.9e-7, 1.1e-6]), a[1])
        return "bd " + " ".join(map(H, [a[1], a[0], b[1], b[0]])), None, k
    if k == "dd":
        return "dd " + " ".join(map(H, [*B1, *B2, abs(dist(B1, X) + noise()), abs(dist(B2, X) + noise()), sal])), Xt, k
    if k == "dirdir":
        return "dirdir " + " ".join(map(H, [*B1, (brg(B1, X) + noise()) % TWO_PI, *B2, (brg(B2, X) + noise()) % TWO_PI, sal])), Xt, k
    if k == "dirdist":
        return "dirdist " + " ".join(map(H, [*B1, (brg(B1, X) + noise()) % TWO_PI, *B2, dist(B2, X) + noise(), sal])), Xt, k
    if k == "circle":
        return "circle " + " ".join(map(H, [*B1, *B2, (ang(B1, B2) + noise()) % TWO_PI, sal])), Xt, k
    if k == "dirang":
        return "dirang " + " ".join(map(H, [*S, (brg(S, X) + noise()) % TWO_PI, *B1, *B2, (ang(B1, B2) + noise()) % TWO_PI, sal])), Xt, k
    if k == "distang":
        return "distang " + " ".join(map(H, [*S, max(1e-3, dist(S, X) + noise()), *B1, *B2, (ang(B1, B2) + noise()) % TWO_PI, sal])), Xt, k
    if k == "angang":
        if rng.random() < 0.3:
            B3 = B2                                                    # common ray
        return "angang " + " ".join(map(H, [*B1, *B2, (ang(B1, B2) + noise()) % TWO_PI, *B3, *B4,
                                              (ang(B3, B4) + noise()) % TWO_PI, sal])), Xt, k
    if k == "polar":
        o = rng.uniform(0, TWO_PI)
        return "polar " + " ".join(map(H, [*S, o, (brg(S, X) - o) % TWO_PI, dist(S, X)])), X, k
    # simtr: target = similarity of local
    a1, a2, tx, ty = rng.uniform(-2, 2), rng.uniform(-2, 2), rng.uniform(-500, 500), rng.uniform(-500, 500)
    T = lambda p: (tx + a1 * p[0] - a2 * p[1], ty + a1 * p[1] + a2 * p[0])
    return "simtr " + " ".join(map(H, [*B1, *B2, *T(B1), *T(B2), *X])), (T(X) if dist(B1, B2) > 1.0 else None), k


def gen_median(rng):
    n = rng.randint(1, 9)
    c = rng.uniform(-10, 10)
    r = rng.random()
    if r < 0.3:
        v = [c] * n
    elif r < 0.7:                                   # strict majority equal to c
        m = n // 2 + 1
        v = [c] * m + [rng.uniform(-100, 100) for _ in range(n - m)]
        rng.shuffle(v)
    else:
        v = [rng.uniform(-100, 100) for _ in range(n)]
    maj = c if sum(1 for x in v if x == c) * 2 > n else None
    return rng.choice(["median", "median2"]) + f" {n} " + " ".join(map(H, v)), maj


def gen_orient(rng):
    S = rnd_pt(rng)
    k = rng.randint(1, 7)
    r = rng.random()
    o = rng.uniform(0, TWO_PI) if r < 0.6 else rng.choice([0.0, math.pi / 2, math.pi * 1.5, 1e-9, TWO_PI - 1e-9])
    seam = False
    if r > 0.9:
        o, seam = math.pi + rng.choice([0.0, 1e-12, -1e-12, 1e-9]), True
    toks = []
    for _ in range(k):
        T = rnd_pt(rng)
        val = (brg(S, T) - o) % TWO_PI
        if rng.random() < 0.1:
            val = (val + rng.uniform(-0.5, 0.5)) % TWO_PI        # an outlier
        toks += [*T, val]
    return "orient " + " ".join(map(H, S)) + f" {k} " + " ".join(map(H, toks)), o, seam


def check_primitive(line, X, kind, out):
    """oracle on the implementation's own answer: for exact data the true point is among the solutions"""
    if X is None or not out:
        return None
    t = out[0].split()
    if kind in ("polar", "simtr") and t[0] == "ok":
        p = (hex2float(t[1]), hex2float(t[2]))
        return None if dist(p, X) < 1e-6 * (1 + abs(X[0]) + abs(X[1])) else f"{kind}: {p} != true {X}"
    if t[0] == "sol":
        n, small = int(t[1]), int(t[2])
        pts = [(hex2float(t[3 + 2 * i]), hex2float(t[4 + 2 * i])) for i in range(n)]
        if n > 0 and not any(dist(p, X) < 1e-5 for p in pts):
            return f"{kind}: true point {X} not among solutions {pts}"
    return None


# ------------------------------------------------------------------ (b) one adjustment step
def net_ops(lines):
    """model operation lines + expected outputs from the harness dump of one `net` run"""
    ops, exp = [], []
    unk, new, pols = [], [], []
    for l in lines:
        t = l.split()
        if t[0] == "unk":
            ty = t[2]
            if ty == "R":
                unk.append([ty, t[3], t[4], t[5], H(0), H(0)])
            else:
                unk.append([ty, t[3], t[4], t[5], t[6], t[7]])
        elif t[0] == "new":
            new.append(" ".join([t[2]] + t[3:]))
        elif t[0] == "obs":
            kind, pol = t[2], t[-1]
            pols.append(pol)
            body = t[3:-2]
            op = {"distance": "poldist", "direction": "poldir", "angle": "polangle", "sdistance": "polsdist",
                  "zangle": "polzangle"}.get(kind)
            if op:
                # the hand-written reading of the visitor (a change of the C++ shows up as a disagreement with a concrete
                # op line) and the visitor regenerated from the source (what the fixed-point theorems are about)
                ops.append(op + " " + " ".join(body))
                exp.append("ok " + pol)
                ops.append("g" + op + " " + " ".join(body))
                exp.append("ok " + pol)
        elif t[0] == "testlin":
            ops.append(f"testlin {len(pols)} " + " ".join(pols))
            exp.append("flag " + t[1])
    if unk:
        ops.append("refine " + " ".join(" ".join(u) for u in unk))
        exp.append("new " + " | ".join(new))
    return ops, exp



# ------------------------------------------------------------------ (b') refine_obsdh_reductions, both modes
def obsdh_ops(lines):
    """model op lines + expected outputs from one `obsdh` run of the harness; (iters, max, status of the last call)"""
    ops, exp, iters, last = [], [], None, None
    for l in lines:
        t = l.split()
        if t[0] == "dh":
            ops.append("obsdh " + " ".join(t[1:]))
        elif t[0] == "res":
            exp.append("ok " + " ".join(t[1:]))
            last = t[1]
        elif t[0] == "iters":
            iters = (int(t[1]), int(t[2]))
    return ops, exp, iters, last


def obsdh_stream(ctx, corr, exe, drv, n, wd):
    """the real refine_obsdh_reductions(IS, adjusted) on generated 3D networks with instrument / target heights against
    Model/RefineAdjustment.lean over the regenerated Gen/RefineObsdh.lean, at four places of a run; oracle on the
    implementation: a refine_adjustment() that stopped before its bound leaves every stored reduction within the
    tolerance of the reduction at the adjusted coordinates (theorem C06_refine_adjustment_reductions_within_tolerance)"""
    import random
    rng = random.Random(f"C06-obsdh-{ctx.seed}")      # its own generator: the draws of the other streams are unchanged
    cases, files, maxit = [], [], []
    corpus = ctx.verif / "corpus" / "C06"
    for f in sorted(corpus.glob("*dh*.gkf")) if corpus.exists() else []:
        cases.append([f"obsdh {f} 5"]); files.append(f); maxit.append(5)
    for k in range(n):
        fam = rng.choice(N.FAMILIES_3D)
        B = N.constructive(rng, 3, fam, heights=True)
        if rng.random() < 0.5:
            N.add_redundant(B, rng.randint(1, 4))
        v = N.variant_perturbed(B.net(), rng, rng.choice([1e-3, 1e-2, 1e-1, 1.0]))
        f = wd / f"dh{k}.gkf"
        f.write_text(G.to_gkf(v))
        m = rng.choice([0, 1, 2, 5, 5, 5])
        cases.append([f"obsdh {f} {m}"]); files.append(f); maxit.append(m)
    impl, crashes = run_cases(exe, cases)
    mcases, mexp, keep = [], [], []
    for k, out in enumerate(impl):
        if k in crashes:
            corr.fail("harness crashed in refine_obsdh_reductions / refine_adjustment (sanitizer)",
                      {"stream": "obsdh", "gkf": files[k].read_text(), "maxiter": maxit[k]}, "refine_obsdh_reductions",
                      crashes[k][1])
            continue
        lines = [l for l in out if l and l.split()[0] in ("dh", "res", "iters")]
        ops, exp, iters, last = obsdh_ops(lines)
        if len(ops) != len(exp) or not ops:
            corr.count("obsdh_not_adjustable")
            continue
        mcases.append(ops); mexp.append(exp); keep.append(k)
        nobs = (len(ops[0].split()) - 3) // 23
        corr.count("obsdh_calls", len(ops))
        corr.count("obsdh_observations", nobs)
        for o, e in zip(ops, exp):
            corr.count("obsdh_mode_adjusted" if o.split()[1] == "1" else "obsdh_mode_store")
            corr.count("obsdh_status_" + e.split()[1])
        if iters is not None:
            if iters[0] < iters[1]:
                corr.count("obsdh_loop_left_by_break")
                if last == "1":
                    corr.fail("refine_adjustment() stopped before its bound but a stored from_dh/to_dh reduction differs from the "
                              "reduction at the adjusted coordinates by more than the tolerance (1 um / 0.1 cc)",
                              {"stream": "obsdh", "gkf": files[k].read_text(), "maxiter": maxit[k]},
                              site="LocalNetwork::refine_adjustment", detail="\n".join(lines[-3:])[:1500])
            else:
                corr.count("obsdh_loop_ended_by_bound")
    mout, _ = run_cases(drv, mcases)
    for j, ops in enumerate(mcases):
        nontriv = any(len(o.split()) > 3 for o in ops)
        corr.case(key="\n".join(ops) if nontriv else None)
        if len(mout[j]) != len(mexp[j]) or not all(lines_equal(a, b, rtol=1e-9, atol=1e-10) for a, b in zip(mexp[j], mout[j])):
            bad = [(o, a, b) for o, a, b in zip(ops, mexp[j], mout[j]) if not lines_equal(a, b, rtol=1e-9, atol=1e-10)]
            corr.disagree("obsdh", [o[:400] for o, _, _ in bad[:2]] + [f"gkf {files[keep[j]].name}"],
                          [a for _, a, _ in bad[:2]], [b for _, _, b in bad[:2]])
    if corr.stats.get("obsdh_status_1", 0) < 3 or corr.stats.get("obsdh_loop_left_by_break", 0) < 3:
        corr.inconclusive.append("obsdh stream: fewer than 3 calls that ask for an iteration / loops left by break")


# ------------------------------------------------------------------ (c) end to end
def make_case(rng, thorough):
    dim = rng.choice([2, 2, 3])
    r = rng.random()
    if r < 0.08:
        return N.levelling(rng), None, "level", False
    if r < 0.20:
        B = N.trilateration(rng)
        if B is not None:
            return B.net(), B, "trilat", False
    fam = rng.choice(N.FAMILIES_2D if dim == 2 else N.FAMILIES_3D)
    heights = dim == 3 and rng.random() < 0.5
    B = N.constructive(rng, dim, fam, heights=heights)
    if rng.random() < 0.5:
        N.add_redundant(B, rng.randint(1, 4))
    return B.net(), B, fam, heights


def tolerances(variant, heights):
    # pure trilateration with approximate coordinates off by 0.1 .. 0.5 m ("trilat-perturbed"): the true coordinates are
    # to be reproduced to 0.001 mm (every positional misclosure of the stopping test is <= 0 there: the iteration must go
    # on on |misclosure|; one step short leaves 0.005 .. 1 mm)
    t = 1e-6 if variant in ("supplied", "trilat-perturbed") else 1e-5
    return dict(tol_xyz=t, tol_ang=(1e-6 if variant != "supplied" else 2e-7), tol_lin=t, tol_z=(3e-4 if heights else t))


def check(net, rc, xml, txt, log, variant, heights):
    tol = tolerances(variant, heights)
    # with from_dh/to_dh the reduction of a slope distance / zenith angle is the one of the approximate coordinates of the
    # last pass; refine_adjustment goes on until it agrees with the reduction at the adjusted coordinates to
    # linear_tol = 0.001 mm / angular_tol = 0.1 cc = 1e-5 gon (test_linearization_visitor.cpp, fix a2adf726): a residual
    # may carry that much and no more
    bad = N.check_result(net, rc, xml, txt, log, tol_xyz=tol["tol_xyz"], tol_ang=tol["tol_ang"] + (1e-5 if heights else 0),
                         tol_lin=tol["tol_lin"] + (1e-6 if heights else 0))
    if bad and variant != "supplied":
        # weakly determined coordinates (reported std.dev > 20 mm for sigma_obs 5 mm / 10 cc): the program stops at
        # 0.0005 mm positional misclosure = 1e-4 sigma_obs, so allow 5e-3 of the coordinate's own std.dev
        sd = coord_stdev(txt)
        out = []
        for b in bad:
            m = re.match(r"(\S+)\.([xyz]) off by (\S+)", b)
            if m and sd.get((m.group(1), m.group(2)), 0.0) > 20.0 and \
                    abs(float(m.group(3))) <= 5e-3 * sd[(m.group(1), m.group(2))] * 1e-3:
                continue
            out.append(b)
        if not any(re.match(r"\S+\.[xyz] off by", b) for b in out):
            out = [b for b in out if not b.startswith("residual")] if len(out) < len(bad) else out
        bad = out
    if heights and variant != "supplied":           # dh reductions are refined only to 0.1 cc / 0.001 mm by the program
        out = []
        for b in bad:
            m = re.match(r"(\S+)\.([xyz]) off by (\S+)", b)
            if m and abs(float(m.group(3))) <= (tol["tol_z"] if m.group(2) == "z" else 1e-4):
                continue
            out.append(b)
        bad = out
    return bad


def coord_stdev(txt):
    """{(point, coordinate): std.dev [mm]} from the 'Adjusted coordinates' table of the text output"""
    res, on, pt = {}, False, None
    for l in txt.splitlines():
        if l.startswith("Adjusted coordinates"):
            on = True
            continue
        if on and (l.startswith("Adjusted orientation") or l.startswith("Mean errors") or l.startswith("Adjusted observations")):
            break
        if on:
            t = l.split()
            if len(t) == 1 and not set(t[0]) <= set("=*"):
                pt = t[0]
            elif len(t) >= 6 and t[0].isdigit() and t[1] in ("x", "y", "z", "X", "Y", "Z") and pt:
                try:
                    res[(pt, t[1].lower())] = float(t[5])
                except ValueError:
                    pass
    return res


def signature(gkf, bad, txt, variant, truth=None):
    """mechanism signature of a failing run (used for grouping, shrinking and classify)"""
    rows = N.outlying_terms(txt)
    groups = {}
    for r in rows:
        groups.setdefault(r[0], []).append(r)
    # F15: at every station concerned ALL removed rows are directions, at least 3 of them,
    # each with an absolute term of +-200 gon (2e6 cc)
    if rows and all(all(r[2] == "dir." and 1.9e6 < abs(r[3]) < 2.1e6 for r in g) and len(g) >= 3
                    for g in groups.values()):
        return "F15"
    if variant.startswith("omitted") and rows and "<azimuth" in gkf and \
            any(r[2] == "azim." and abs(abs(r[3]) - 1.0e6) < 1.0 and f20_mechanism(gkf, r[0]) for r in rows):
        # an azimuth observed FROM a point without approximate coordinates: the point is placed exactly 100 gon
        # off (finding F20 of round 3: not by AcordAzimuth — by the intersection / polar machinery that runs first)
        return "C06-azimuth-from-unknown"
    m = re.search(r"Number of linearization iterations:\s*(\d+)", txt)
    if m and int(m.group(1)) >= 5 and "from_dh" in gkf:
        return "C06-stale-x"
    if variant.startswith("omitted") and rows and "from_dh" in gkf and \
            all(r[2] in ("zen.", "slope") and abs(r[3]) < 2.0e4 for r in rows):
        # approximate heights from AcordZderived without instrument/target heights accumulate along a chain
        # until a zenith angle / slope distance exceeds tol-abs and is removed (part of finding F18)
        return "C06-zderived-dh"
    if variant.startswith("omitted") and insertion_mechanism(gkf, truth):
        # C06-F21 end to end: solve_insertion gets its turn before the documented strategies reach the point
        return "C06-insertion"
    if variant.startswith("omitted") and ("<height-differences>" in gkf or "<vectors>" in gkf) and rows:
        # approximate values were produced (no refusal) and are so wrong that observations are thrown out
        return "C06-acord-copyback"
    if variant.startswith("omitted") and not rows and \
            ((any("no adjustment" in b for b in bad) and
              ("No network points defined" in txt or "approximate coordinates" in " ".join(bad)))
             or "missing coordiantes" in txt):
        # no approximate coordinates were produced for some point (refusal, or the point is dropped as "missing")
        return "C06-acord-incomplete"
    if bad and all(re.match(r"\S+\.z off by|residual (zenith-angle|slope-distance)", b) for b in bad):
        return "C06-z-underiterated"
    return "other:" + (bad[0].split()[0] if bad else "?")


def f20_mechanism(gkf, station):
    """the narrow mechanism of finding C06-F20: `station` has no approximate xy in the input, an azimuth is observed FROM
    it, and it is tied by at least two distances (so that the intersection machinery gets to it before AcordAzimuth)"""
    m = re.search(r'<point id="%s"([^>]*)/>' % re.escape(station), gkf)
    if not m or re.search(r'\bx="', m.group(1)):
        return False
    ndist, has_az, cur = 0, False, None
    for t in re.finditer(r'<obs from="([^"]*)">|<(distance|s-distance|azimuth) ([^>]*)/>', gkf):
        if t.group(1) is not None:
            cur = t.group(1)
            continue
        to = re.search(r'to="([^"]*)"', t.group(3))
        fr = re.search(r'from="([^"]*)"', t.group(3))
        f_, t_ = (fr.group(1) if fr else cur), (to.group(1) if to else None)
        if t.group(2) == "azimuth":
            has_az = has_az or f_ == station
        elif station in (f_, t_):
            ndist += 1
    return has_az and ndist >= 2


def flatten(net):
    return [(ci, ii) for ci, c in enumerate(net["obs"]) for ii in range(len(c["items"]))]


def subnet(net, keep):
    import copy
    n = copy.deepcopy(net)
    ks = set(keep)
    for ci, c in enumerate(n["obs"]):
        c["items"] = [it for ii, it in enumerate(c["items"]) if (ci, ii) in ks]
        if c["kind"] == "vectors":
            c["cov"] = None
    n["obs"] = [c for c in n["obs"] if c["items"]]
    used = set()
    for c in n["obs"]:
        if c["kind"] == "obs":
            used.add(c["from"])
        for it in c["items"]:
            for k in ("from", "to", "bs", "fs", "id"):
                if k in it:
                    used.add(it[k])
    n["points"] = {p: v for p, v in n["points"].items() if p in used}
    return n


# Construction steps (the "step" record the generator attaches to every point, see tools/gen/c06_nets.py) that
# Acord2 demonstrably does NOT perform on the unchanged tree.  A refusal / undetermined point whose first
# unresolved point was built by one of these is the known finding C06-F19; every entry is backed by one
# committed reproducer in corpus/C06/ that is run on every check.  Any other refusal is a VIOLATION.
UNIMPLEMENTED_STEPS = {
    # step kind (prefix of the "step" string) : reproducer in corpus/C06/
}


def failing_step(ctx, wd, gkf_text, truth):
    """which construction step did Acord2 not perform: run the real GKFparser + Acord2::execute (harness op
    `acordnet`) and take the first point, in construction order, that is left without approximate xy / z"""
    exe = build_harness(ctx)
    f = wd / "acordnet.gkf"
    f.write_text(gkf_text)
    out, _ = run_cases(exe, [[f"acordnet {f}"]])
    unres = {}
    for l in out[0] or []:
        t = l.split()
        if t and t[0] == "apt":
            w = ("xy" if t[2] == "1" and t[3] == "0" else "") + ("z" if t[4] == "1" and t[5] == "0" else "")
            if w:
                unres[" ".join(t[1:-4])] = w
    for pid, p in truth["points"].items():
        if pid in unres:
            return pid, p.get("step", p.get("how", "?")), unres[pid]
    return None, "none-unresolved", ""


def step_kind_known(step):
    return any(step.startswith(k) for k in UNIMPLEMENTED_STEPS)


def e2e(ctx, corr, gd, ncases, wd):
    rng = ctx.rng
    seen = {}
    worst = 0.0
    for i in range(ncases):
        net, B, fam, heights = make_case(rng, ctx.thorough)
        mag = rng.choice([1e-3, 1e-2, 1e-1, 1.0, 5.0])
        variants = [("supplied", N.variant_supplied(net)), (f"perturbed{mag}", N.variant_perturbed(net, rng, mag)),
                    ("omitted", N.variant_omitted(net))]
        if fam == "trilat":
            variants.append(("trilat-perturbed", N.variant_trilat_perturbed(net, rng)))
        if B is not None:
            N.add_redundant(B, rng.randint(1, 3))
            variants.append(("omitted+more", N.variant_omitted(B.net())))
        # the same network described in one of the 8 axes orientations x 2 angle senses (60 % of the networks)
        gk = {}
        if rng.random() < 0.6:
            gk = {"axes": rng.choice(N.AXES), "angles": rng.choice(N.ANGLES)}
            corr.count("e2e_axes_" + gk["axes"] + "_" + gk["angles"][0])
        for vn, v in variants:
            truth = B.net() if vn == "omitted+more" else net
            if gk:
                v, truth = N.mirror(v, gk["axes"], gk["angles"]), N.mirror(truth, gk["axes"], gk["angles"])
            text = G.to_gkf(v, **gk)
            algs = N.ALGS if (i % 3 == 0 or ctx.thorough) else [rng.choice(N.ALGS)]
            for alg in algs:
                rc, xml, txt, log = N.run_gama(gd, text, alg, wd, "t")
                bad = check(truth, rc, xml, txt, log, vn, heights)
                nadj = len(re.findall(r"<point>", xml.split("<adjusted>")[1].split("</adjusted>")[0])) if "<adjusted>" in xml else 0
                corr.case(key=text if nadj else None,
                          sample={"family": fam, "variant": vn, "alg": alg, "points": len(v["points"]),
                                  "obs": N.count_obs(v)} if corr.evaluations % 97 == 0 else None)
                corr.count(f"e2e_{fam}_{vn.rstrip('0123456789.e-')}")
                if not bad:
                    continue
                sig = signature(text, bad, txt, vn, truth)
                step = ""
                if sig == "C06-acord-incomplete":
                    pid, step, what = failing_step(ctx, wd, text, truth)
                    step = f"{step} [{what}]"
                    sig = sig + "|" + step
                corr.count("e2e_fail_" + sig)
                if sig in seen:
                    continue
                # shrink: drop observations while the same mechanism still fails
                def still(keep, v=v, truth=truth, alg=alg, vn=vn, sig=sig, heights=heights, gk=gk):
                    sv = subnet(v, keep)
                    if not any(p["status"] != "fix" for p in sv["points"].values()):
                        return False
                    st = subnet(truth, keep)
                    t2 = G.to_gkf(sv, **gk)
                    rc2, xml2, txt2, log2 = N.run_gama(gd, t2, alg, wd, "s")
                    b2 = check(st, rc2, xml2, txt2, log2, vn, heights)
                    if not (bool(b2) and signature(t2, b2, txt2, vn, st) == sig):
                        return False
                    if vn != "supplied":      # keep the network determined: with the true coordinates supplied it must pass
                        rc3, xml3, txt3, log3 = N.run_gama(gd, G.to_gkf(N.variant_supplied(st), **gk), alg, wd, "s3")
                        b3 = check(st, rc3, xml3, txt3, log3, "supplied", heights)
                        if b3 and signature("", b3, txt3, "supplied") != "F15":
                            return False
                    return True
                # (an "incomplete strategy" failure is only meaningful on the constructive network: not shrunk)
                keep = flatten(v) if sig.startswith("C06-acord-incomplete") else ddmin(flatten(v), still, max_tests=ctx.size(60, 300))
                sv, stt = subnet(v, keep), subnet(truth, keep)
                t2 = G.to_gkf(sv, **gk)
                rc2, xml2, txt2, log2 = N.run_gama(gd, t2, alg, wd, "s")
                b2 = check(stt, rc2, xml2, txt2, log2, vn, heights) or bad
                seen[sig] = True
                corr.fail(f"end-to-end ({fam}, {vn}, {alg}): " + "; ".join(b2[:4]),
                          {"stream": "e2e", "gkf": t2, "alg": alg, "variant": vn, "heights": heights, "family": fam,
                           "true": {p: {c: q[c] for c in ("x", "y", "z") if c in q} for p, q in stt["points"].items()},
                           "truth_net": stt, "signature": sig.split("|")[0], "step": step, "axes": gk,
                           "unshrunk_obs": N.count_obs(v), "shrunk_obs": N.count_obs(sv),
                           "unshrunk_gkf": text, "unshrunk_truth": truth,
                           "how": {p: q.get("step", q.get("how")) for p, q in truth["points"].items()}},
                          site={"F15": "Orientation::orientation", "C06-stale-x": "LocalNetwork::refine_approx_coordinates",
                                "C06-acord-copyback": "AcordHdiff::execute / AcordVector::execute",
                                "C06-z-underiterated": "TestLinearizationVisitor::visit(Z_Angle*) / refine_obsdh_reductions",
                                "C06-zderived-dh": "AcordZderived::execute",
                                "C06-acord-incomplete": "Acord2::execute (" + step + ")",
                                "C06-azimuth-from-unknown": "AcordIntersection::execute / ApproximateCoordinates (azimuth observed from the unknown point)",
                                "C06-insertion": "AcordIntersection::execute / ApproximateCoordinates::solve_insertion",
                                }.get(sig.split("|")[0], "gama-local"),
                          detail=txt2[:1500])


def inter_further(impl, model):
    """intersection stream: every point the model publishes is published identically by the implementation, and the
    implementation publishes at least one more (solve_insertion); orientations the model sets are set identically"""
    if len(impl) != len(model):
        return False
    more = False
    for a, b in zip(impl, model):
        ta, tb = a.split(), b.split()
        if not ta or not tb or ta[0] != tb[0]:
            return False
        if ta[0] == "pt":
            if ta[1] != tb[1] or ta[5:7] != tb[5:7]:
                return False
            if tb[2] == "1":
                if not lines_equal(a, b, rtol=1e-9, atol=1e-7):
                    return False
            elif ta[2] == "1":
                more = True
            elif ta != tb:
                return False
        elif ta[0] == "ori":
            if tb[2] == "1" and not lines_equal(a, b, rtol=1e-9, atol=1e-9):
                return False
            if tb[2] == "0" and ta[2] == "1":
                more = True
        elif ta[0] == "completed":
            pass
        elif a != b:
            return False
    return more


def inter_superset(impl, model):
    """every point / orientation the model publishes is published by the implementation (values not compared)"""
    if len(impl) != len(model):
        return False
    for a, b in zip(impl, model):
        ta, tb = a.split(), b.split()
        if not ta or not tb or ta[0] != tb[0]:
            return False
        if ta[0] == "pt" and (ta[1] != tb[1] or (tb[2] == "1" and ta[2] != "1") or ta[5:7] != tb[5:7]):
            return False
    return True


def inter_insertion_stops(impl, model):
    """intersection stream: solve_insertion (no model) publishes a point the model does not, `missing_xy_` becomes empty
    and AcordIntersection::execute returns (`completed 1`) before a turn in which the model - still missing that point -
    computes, as a by-product, points that are NOT in `missing_xy_` (ids without an entry in the point list).  Everything
    both sides publish must agree."""
    if len(impl) != len(model):
        return False
    extra = False
    for a, b in zip(impl, model):
        ta, tb = a.split(), b.split()
        if not ta or not tb or ta[0] != tb[0]:
            return False
        if ta[0] == "pt":
            if ta[1] != tb[1] or ta[5:7] != tb[5:7]:
                return False
            if ta[2] == "1" and tb[2] == "1":
                if not lines_equal(" ".join(ta[:5]), " ".join(tb[:5]), rtol=1e-9, atol=1e-7):
                    return False
            elif ta[2] == "1":
                extra = True                          # implementation only: solve_insertion
            elif tb[2] == "1":
                if ta[7] != "0" or tb[7] != "0":      # model only: allowed for a point that was never missing
                    return False
        elif ta[0] == "ori":
            if ta[2] == "1" and tb[2] == "1" and not lines_equal(a, b, rtol=1e-9, atol=1e-9):
                return False
        elif ta[0] == "completed":
            if ta[1] != "1":
                return False
    return extra


def strip_temp(line):
    """the op without the observations that only the temporary stand-point of AcordIntersection::execute uses
    (azimuths, slope distances, zenith angles), one execute() call"""
    t = line.split()
    out = t[:2] + ["1"] + t[3:5]
    i = 5
    while i < len(t):
        k = t[i]
        n = {"P": 9, "S": 2, "H": 1, "V": 1, "ang": 5, "sd": 6, "za": 6}.get(k, 4)
        if k not in ("az", "sd", "za"):
            out += t[i:i + n]
        i += n
    return " ".join(out)


def inserted_first(exe, drv, line, impl, model):
    """a disagreement of an intersection case is explained by the unmodelled solve_insertion iff on the case stripped
    of the inputs of the temporary stand-point the implementation still publishes, for every point on which the two
    answers differ, the value it published on the full case, while the model publishes nothing for it"""
    if len(impl) != len(model):
        return False
    st = [strip_temp(line)]
    (ri, _), (rm, _) = run_cases(exe, [st]), run_cases(drv, [st])
    pi = {l.split()[1]: l.split() for l in ri[0] if l.startswith("pt ")}
    pm = {l.split()[1]: l.split() for l in rm[0] if l.startswith("pt ")}
    seen = False
    for a, b in zip(impl, model):
        ta, tb = a.split(), b.split()
        if ta[:1] != tb[:1]:
            return False
        if ta[0] != "pt" or lines_equal(a, b, rtol=1e-9, atol=1e-7):
            continue
        pid = ta[1]
        if ta[2] != "1" or pid not in pi or pid not in pm:
            return False
        if pm[pid][2] == "1" or pi[pid][2:5] != ta[2:5]:
            return False
        seen = True
    return seen


def inserted_before_model(drv, line, impl, model):
    """a disagreement of an intersection case is explained by the unmodelled solve_insertion if every point on which the
    two answers differ is published by the implementation while the model's FIRST `approxy_.calculation()` (limit 0.15)
    does not solve it: computational_loop then calls solve_insertion before the model - which goes on to the turns with
    the temporary stand-point and the relaxed limit - publishes its own value (seen on inconsistent data with an inner
    angle between the two limits).  Variant (thorough run 3): solve_insertion publishes the SAME values as the model's
    later turns (agreement to tolerance, different bits), `missing_xy_` is then empty and execute() returns before the turn
    in which the model sets a further orientation and computes a by-product point that was never in `missing_xy_`"""
    if len(impl) != len(model):
        return False
    t = line.split()
    (rf, _) = run_cases(drv, [[" ".join([t[0], "intersection-first"] + t[2:])]])
    pf = {l.split()[1]: l.split() for l in rf[0] if l.startswith("pt ")}
    seen = False
    for a, b in zip(impl, model):
        ta, tb = a.split(), b.split()
        if ta[:1] != tb[:1]:
            return False
        if ta[0] != "pt":
            continue
        pid = ta[1]
        if lines_equal(a, b, rtol=1e-9, atol=1e-7):
            if a != b and ta[2] == "1" and pid in pf and pf[pid][2] != "1" and pf[pid][7] == "1":
                # the SAME value to tolerance but not bit for bit, for a point that was missing and that the model's first
                # calculation does not solve: solve_insertion (another computation path) published it before the model's
                # relaxed turns did (thorough run 3, corpus/C06/acord-intersection-insertion-same-value.txt)
                seen = True
            continue
        if ta[2] != "1" and tb[2] == "1" and ta[7] == "0" and tb[7] == "0" and ta[5:7] == tb[5:7]:
            continue      # model only, never missing: a by-product of a turn the implementation did not get to any more
        if ta[2] != "1" or pid not in pf or pf[pid][2] == "1":
            return False
        seen = True
    return seen


def inter_ori_only(impl, model):
    """every point agrees (to tolerance, but not bit for bit: another computation path - solve_insertion - produced at
    least one of them), and the only difference is an orientation Orientation::add_all set in a later walk of the model
    that the implementation did not need any more"""
    if len(impl) != len(model):
        return False
    bits, ori = False, False
    for a, b in zip(impl, model):
        ta, tb = a.split(), b.split()
        if ta[:1] != tb[:1]:
            return False
        if ta[0] == "pt":
            if not lines_equal(a, b, rtol=1e-9, atol=1e-7):
                return False
            bits = bits or a != b
        elif ta[0] == "ori":
            if ta[2] == "1" and tb[2] == "1":
                if not lines_equal(a, b, rtol=1e-9, atol=1e-9):
                    return False
            elif ta[2] != tb[2]:
                ori = True
        elif a != b:
            return False
    return bits and ori


def f21_registered(ctx):
    try:
        return any('"C06-F21"' in l for l in (ctx.verif / "known_findings.jsonl").read_text().splitlines())
    except OSError:
        return False


def acord_stream(ctx, corr, exe, drv, n):
    rng = ctx.rng
    cases, meta = [], []
    corpus = ctx.verif / "corpus" / "C06"
    for f in sorted(corpus.glob("acord-*.txt")) if corpus.exists() else []:
        truth = None                      # `#truth {"id": [x, y, z], …}`: exact data, the oracle applies (regressions)
        for l in f.read_text().splitlines():
            if l.startswith("#truth "):
                truth = {k: tuple(v) for k, v in json.loads(l[7:]).items()}
            elif l.strip() and not l.startswith("#"):
                cases.append([l.strip()])
                meta.append(dict(alg=l.split()[1], consistent=truth is not None, truth=truth, branches=set(), corpus=f.name))
    for _ in range(n):
        line, m = A.gen(rng)
        cases.append([line]); meta.append(m)
    impl, crashes = run_cases(exe, cases)
    model, _ = run_cases(drv, cases)
    failed = 0
    for i, c in enumerate(cases):
        m = meta[i]
        computed = sum(1 for l in impl[i] if l.startswith("pt ") and (l.split()[2] == "1" or l.split()[5] == "1"))
        corr.case(key=c[0] if computed else None,
                  sample={"op": c[0][:160], "impl": impl[i][:2]} if i % 900 == 0 else None)
        corr.count("acord_" + m["alg"])
        for b in m["branches"]:
            corr.count(f"acord_{m['alg']}_{b}")
        if i in crashes:
            corr.fail("acord harness crashed (sanitizer)", {"stream": "acord", "ops": c}, "Acord2 strategy", crashes[i][1])
            continue
        ok = len(impl[i]) == len(model[i]) and all(lines_equal(a, b, rtol=1e-9, atol=1e-7) for a, b in zip(impl[i], model[i]))
        # the oracle looks at the implementation's own answer, whether or not the model agrees
        why = A.check(m, impl[i]) if m.get("truth") else None
        finding = m.get("finding")
        if m["alg"] == "intersection":
            if not ok and inter_further(impl[i], model[i]):
                # ApproximateCoordinates::solve_insertion is not modelled: the implementation may get further than the
                # model; what the model publishes must then be published identically, the rest is left to the oracle
                corr.count("acord_intersection_insertion_further")
                ok = True
            if not ok and not why and inserted_first(exe, drv, c[0], impl[i], model[i]):
                corr.count("acord_intersection_insertion_first")
                ok = True
            if not ok and not why and inter_insertion_stops(impl[i], model[i]):
                corr.count("acord_intersection_insertion_stops")
                ok = True
            if not ok and not why and inserted_before_model(drv, c[0], impl[i], model[i]):
                corr.count("acord_intersection_insertion_before")
                ok = True
            if not ok and not why and inter_ori_only(impl[i], model[i]):
                corr.count("acord_intersection_insertion_ori")
                ok = True
            if why and m.get("truth") and A.check(m, model[i]) is None and \
                    (inter_superset(impl[i], model[i]) or inter_insertion_stops(impl[i], model[i]) or
                     inserted_before_model(drv, c[0], impl[i], model[i])):
                # exact data, the model (everything but solve_insertion) publishes true points only and the
                # implementation a wrong one: finding C06-F21 (solve_insertion works in a local frame with orientations
                # and distances of the global one).  Reported as a failure once the finding is registered; until then
                # it is counted (corpus/C06/pending/acord-intersection-insertion.txt keeps the reproducer).
                corr.count("acord_intersection_insertion_wrong")
                ok = True
                finding = "C06-F21"
                if not f21_registered(ctx):
                    why = None
        if not ok:
            corr.disagree("acord", c, impl[i], model[i])
        if why and failed < 5:
            failed += 1
            corr.fail("a strategy step publishes a coordinate that is not the true one: " + why,
                      {"stream": "acord", "ops": c, "truth": m["truth"], "finding": finding},
                      "Acord" + m["alg"].capitalize() + "::execute" + (" / ApproximateCoordinates::solve_insertion" if finding == "C06-F21" else ""))
    corr.count("acord_cases", len(cases))
    need = ["acord_azimuth_known-first", "acord_azimuth_known-second", "acord_hdiff_from-known", "acord_hdiff_to-known",
            "acord_hdiff_late-first-height",
            "acord_vector_from-known", "acord_vector_to-known", "acord_zderived_station-known", "acord_zderived_target-known"]
    need += ["acord_intersection_" + k for k in ("dirdir", "dirdist", "dist3", "resect", "angles", "outer", "az", "azrev",
                                                 "sdza", "sdz", "dirang")]
    thin = [k for k in need if corr.stats.get(k, 0) < 20]
    if thin and n >= 1000:
        corr.inconclusive.append("acord stream: too few cases for branch(es) " + ", ".join(thin))
    ni = corr.stats.get("acord_intersection", 0)
    nins = sum(corr.stats.get("acord_intersection_insertion_" + k, 0) for k in ("further", "wrong", "first", "stops", "before", "ori"))
    if ni >= 100 and nins > 0.1 * ni:
        corr.inconclusive.append(f"acord stream: solve_insertion (not modelled) decided {nins} of {ni} intersection cases")


def a2_points(lines):
    return {l.split()[1]: l.split() for l in lines if l.startswith("pt ")}


def a2_further(impl, model):
    """acord2 stream: everything the model publishes is published identically by the implementation, which publishes at
    least one coordinate group more (ApproximateCoordinates::solve_insertion has no model)"""
    pi, pm = a2_points(impl), a2_points(model)
    if list(pi) != list(pm):
        return False
    more = False
    for k, tb in pm.items():
        ta = pi[k]
        for flag, vals in ((2, (3, 4)), (5, (6,))):
            if tb[flag] == "1":
                if ta[flag] != "1" or not all(tok_equal(ta[j], tb[j], rtol=1e-9, atol=1e-7) for j in vals):
                    return False
            elif ta[flag] == "1":
                more = True
    return more


def a2_wrong(meta, lines, tol=1e-6):
    """[(id, 'xy' | 'z')] published coordinate groups that are not the true ones (exact data)"""
    out = []
    for k, t in a2_points(lines).items():
        tr = meta["truth"][k]
        if t[2] == "1" and (abs(hex2float(t[3]) - tr[0]) > tol or abs(hex2float(t[4]) - tr[1]) > tol):
            out.append((k, "xy"))
        if t[5] == "1" and abs(hex2float(t[6]) - tr[2]) > tol:
            out.append((k, "z"))
    return out


def a2_lost(impl, model):
    """coordinate groups the model publishes and the implementation leaves in its `missing` set"""
    pi, pm = a2_points(impl), a2_points(model)
    return [f"{k}.{w}" for k, tb in pm.items() if k in pi
            for w, j, miss in (("xy", 2, 7), ("z", 5, 8)) if tb[j] == "1" and pi[k][j] != "1" and pi[k][miss] == "1"]


def a2_insertion_faster(impl, model):
    """every point agrees; the implementation needed no more turns and at the start of every turn it had no more points
    missing than the model (strictly fewer at least once): solve_insertion reached a point a turn earlier than the documented strategies, with the same
    value (to tolerance)"""
    pi, pm = a2_points(impl), a2_points(model)
    if list(pi) != list(pm):
        return False
    for k, ta in pi.items():
        tb = pm[k]
        for flag, vals, miss in ((2, (3, 4), 7), (5, (6,), 8)):
            if ta[flag] == "1":
                if tb[flag] != "1" or not all(tok_equal(ta[j], tb[j], rtol=1e-9, atol=1e-7) for j in vals):
                    return False
            elif tb[flag] == "1" and ta[miss] != "0":
                # model only: tolerated for a coordinate group that was never in a `missing` set (the strategies compute
                # such groups as long as the loop runs; the implementation's loop ended a turn earlier)
                return False
    ri = [l.split() for l in impl if l.startswith("r ")]
    rm = [l.split() for l in model if l.startswith("r ")]
    if not (0 < len(ri) <= len(rm)) or ri == rm:
        return False
    return all(int(a[2]) <= int(b[2]) and int(a[3]) <= int(b[3]) for a, b in zip(ri, rm))


def a2_insertion_acted(impl, model, by):
    """solve_insertion demonstrably acted: AcordIntersection::execute gave a point an xy that the model (everything of
    AcordIntersection but solve_insertion) does not publish, or publishes with another value"""
    pi, pm = a2_points(impl), a2_points(model)
    if list(pi) != list(pm):
        return False
    for k, ta in pi.items():
        tb = pm[k]
        if ta[2] == "1" and by.get(k) == "AcordIntersection" and \
                (tb[2] != "1" or not all(tok_equal(ta[j], tb[j], rtol=1e-9, atol=1e-7) for j in (3, 4))):
            return True
    return False


def acord2_stream(ctx, corr, exe, drv, n):
    """the REAL Acord2::execute against `Acord.execute` of Gama/Model/Acord2.lean over the five modelled strategies:
    sizes of the missing sets at the start of every turn of the do-while, number of turns, every point.  Cases in which
    a strategy without a model did something (`acted`: AcordPolar, AcordTraverse, AcordWeakChecks) or in which the
    implementation got further than the model (solve_insertion) are outside the model: counted, oracle only."""
    rng = ctx.rng
    cases, meta = [], []
    corpus = ctx.verif / "corpus" / "C06"
    for f in sorted(corpus.glob("acord2-*.txt")) if corpus.exists() else []:
        truth = None
        for l in f.read_text().splitlines():
            if l.startswith("#truth "):
                truth = {k: tuple(v) for k, v in json.loads(l[7:]).items()}
            elif l.strip() and not l.startswith("#"):
                cases.append([l.strip()])
                meta.append(dict(alg="acord2", consistent=truth is not None, truth=truth, branches=set(), corpus=f.name))
    for _ in range(n):
        line, m = A.gen_acord2(rng)
        cases.append([line]); meta.append(m)
    impl, crashes = run_cases(exe, cases)
    model, _ = run_cases(drv, cases)
    failed = failed_known = 0
    for i, c in enumerate(cases):
        m = meta[i]
        if i in crashes:
            corr.case(key=None)
            corr.fail("acord2 harness crashed (sanitizer)", {"stream": "acord2", "ops": c}, "Acord2::execute", crashes[i][1])
            continue
        acted = [l.split()[1] for l in impl[i] if l.startswith("acted ")]
        body = [l for l in impl[i] if not l.startswith(("acted ", "oriset ", "by "))]
        by = {l.split()[1]: l.split()[2] for l in impl[i] if l.startswith("by ")}
        rounds = next((int(l.split()[1]) for l in body if l.startswith("rounds ")), -1)
        computed = sum(1 for l in body if l.startswith("pt ") and (l.split()[2] == "1" or l.split()[5] == "1"))
        corr.case(key=c[0] if computed and not acted else None,
                  sample={"op": c[0][:160], "impl": body[:3]} if i % 400 == 0 else None)
        corr.count("acord2_cases")
        # the oracle applies where the model tells whose answer it is (an unclassifiable solve_insertion answer behind an
        # unmodelled strategy is left to the end-to-end stream)
        why = A.check(m, body) if m.get("truth") and not acted else None
        finding = None
        if acted:
            for a in acted:
                corr.count("acord2_outside_model_" + a)
            corr.count("acord2_outside_model")
        else:
            corr.count(f"acord2_rounds_{min(rounds, 4)}{'+' if rounds >= 4 else ''}")
            for b in m["branches"]:
                corr.count("acord2_stage_" + b)
            if any(l.startswith("oriset ") and l != "oriset 0" for l in impl[i]):
                corr.count("acord2_polar_oriented_a_standpoint")
            ok = len(body) == len(model[i]) and all(lines_equal(a, b, rtol=1e-9, atol=1e-7) for a, b in zip(body, model[i]))
            if not ok and a2_insertion_faster(body, model[i]) and "AcordIntersection" in by.values():
                corr.count("acord2_outside_model_solve_insertion")
                corr.count("acord2_outside_model")
                ok = True
            if not ok and a2_insertion_acted(body, model[i], by):
                # from the point solve_insertion publishes on, the two runs need not agree any more
                corr.count("acord2_outside_model_solve_insertion")
                corr.count("acord2_outside_model")
                ok = True
                wrong = a2_wrong(m, body) if m.get("truth") else []
                if why and A.check(m, model[i]) is None and \
                        any(w == "xy" and by.get(k) == "AcordIntersection" for k, w in wrong):
                    # exact data, the model publishes true points only, AcordIntersection a wrong one: finding C06-F21
                    finding = "C06-F21"
                    corr.count("acord2_insertion_wrong")
                    if not f21_registered(ctx):
                        why = None
            elif ok:
                corr.count("acord2_compared")
            if not ok:
                corr.disagree("acord2", c, body, model[i])
                # completeness relative to the documented strategies (exact data): a coordinate group that the five
                # modelled strategies determine from these observations and Acord2::execute leaves undetermined
                lost = a2_lost(body, model[i]) if m.get("truth") else []
                if lost and failed < 5:
                    failed += 1
                    corr.fail("Acord2::execute leaves undetermined what its own strategies determine from consistent "
                              "observations: " + ", ".join(lost[:6]),
                              {"stream": "acord2", "ops": c, "truth": m["truth"], "finding": None}, "Acord2::execute")
        if why and (failed_known if finding else failed) < 5:
            # separate budgets: reproductions of the known finding must not hide a failure of another kind
            if finding:
                failed_known += 1
            else:
                failed += 1
            corr.fail("Acord2::execute publishes a coordinate that is not the true one: " + why,
                      {"stream": "acord2", "ops": c, "truth": m["truth"], "finding": finding},
                      "Acord2::execute" + (" / ApproximateCoordinates::solve_insertion" if finding == "C06-F21" else ""))
    tot = corr.stats.get("acord2_cases", 0)
    out = corr.stats.get("acord2_outside_model", 0)
    if tot >= 300:
        if out > 0.3 * tot:
            corr.inconclusive.append(f"acord2 stream: {out} of {tot} cases needed a strategy without a model")
        thin = [k for k in ("acord2_rounds_3", "acord2_stage_hd-late", "acord2_stage_az", "acord2_stage_vec", "acord2_stage_resect",
                            "acord2_stage_dirdir", "acord2_stage_dist3", "acord2_stage_zd-target", "acord2_stage_zd-station")
                if corr.stats.get(k, 0) < 10]
        if thin:
            corr.inconclusive.append("acord2 stream: too few compared cases for " + ", ".join(thin))


def correspond(ctx, corr):
    exe = build_harness(ctx)
    drv = ctx.driver("drv_cogo")
    rng = ctx.rng
    # ---- (a) primitives, medians, orientation
    cases, meta = [], []
    corpus = ctx.verif / "corpus" / "C06"
    for f in sorted(corpus.glob("prim-*.txt")) if corpus.exists() else []:
        for l in f.read_text().splitlines():
            if l.strip() and not l.startswith("#"):
                cases.append([l.strip()]); meta.append(("corpus", None, None))
    for _ in range(ctx.size(1500, 40000)):
        line, X, kind = gen_primitive(rng)
        cases.append([line]); meta.append((kind, X, None))
    for _ in range(ctx.size(300, 5000)):
        line, maj = gen_median(rng)
        cases.append([line]); meta.append(("median", None, maj))
    for _ in range(ctx.size(300, 5000)):
        line, o, seam = gen_orient(rng)
        cases.append([line]); meta.append(("orient", None, (o, seam)))
    impl, crashes = run_cases(exe, cases)
    model, _ = run_cases(drv, cases)
    maxdev = 0.0
    for i, c in enumerate(cases):
        kind, X, extra = meta[i]
        nontriv = bool(impl[i]) and not impl[i][0].startswith(("sol 0", "circ 0", "none", "bad", "throw"))
        corr.case(key=c[0] if nontriv else None, sample={"op": c[0][:120], "impl": impl[i][:1]} if i % 700 == 0 else None)
        corr.count("prim_" + kind)
        if impl[i] and impl[i][0].startswith("sol"):
            corr.count("prim_solutions_" + impl[i][0].split()[1])
            if impl[i][0].split()[2] == "1":
                corr.count("prim_small_angle")
        if i in crashes:
            corr.fail("cogo harness crashed (sanitizer)", {"stream": "prim", "ops": c}, "g2d_cogo", crashes[i][1])
            continue
        ok = len(impl[i]) == len(model[i]) and all(lines_equal(a, b, rtol=1e-9, atol=1e-7) for a, b in zip(impl[i], model[i]))
        if not ok:
            corr.disagree("prim", c, impl[i], model[i])
            continue
        why = check_primitive(c[0], X, kind, impl[i])
        if why:
            corr.fail("primitive does not return the true point: " + why, {"stream": "prim", "ops": c}, "g2d_cogo::" + kind)
        if kind == "median" and extra is not None and impl[i] and hex2float(impl[i][0].split()[1]) != extra:
            corr.fail("median of a list with a strict majority is not the majority value", {"stream": "prim", "ops": c},
                      "Acord2::median")
        if kind == "orient" and impl[i] and impl[i][0].startswith("ori"):
            o, seam = extra
            z = hex2float(impl[i][0].split()[1])
            d = abs((z - o + math.pi) % TWO_PI - math.pi)
            outl = any(False for _ in [])
            if not seam and d > 1e-6 and int(impl[i][0].split()[2]) >= 1 and "outl" not in c[0]:
                corr.count("orient_not_true")          # outliers make this legitimate; informational only
            if seam and d > 1.0:
                corr.count("orient_seam_off_by_pi")
    corr.count("prim_cases", len(cases))
    # ---- (a') one step of one Acord2 strategy on a small in-memory network
    acord_stream(ctx, corr, exe, drv, ctx.size(2400, 60000))
    # ---- (a3) the whole of Acord2::execute against the scheduling model over the five modelled strategies
    acord2_stream(ctx, corr, exe, drv, ctx.size(500, 12000))
    # ---- (b) one adjustment step through LocalNetwork
    wd = Path(tempfile.mkdtemp(prefix="c06-"))
    try:
        ncases, files = [], []
        for k in range(ctx.size(10, 120)):
            net, B, fam, heights = make_case(rng, ctx.thorough)
            v = N.variant_perturbed(net, rng, rng.choice([1e-3, 1e-2, 1e-1, 1.0]))
            f = wd / f"n{k}.gkf"
            f.write_text(G.to_gkf(v))
            ncases.append([f"net {f}"]); files.append(f)
        # pure trilateration, approximate coordinates off by 0.1 .. 0.5 m: every misclosure of the stopping test is <= 0
        for k in range(ctx.size(12, 150)):
            B = N.trilateration(rng)
            if B is None:
                continue
            f = wd / f"t{k}.gkf"
            f.write_text(G.to_gkf(N.variant_trilat_perturbed(B.net(), rng)))
            ncases.append([f"net {f}"]); files.append(f)
        nimpl, ncr = run_cases(exe, ncases)
        mcases, mexp = [], []
        for k, out in enumerate(nimpl):
            if k in ncr:
                corr.fail("harness crashed in LocalNetwork step (sanitizer)", {"stream": "net", "gkf": files[k].read_text()},
                          "LocalNetwork", ncr[k][1])
                continue
            ops, exp = net_ops([l for l in out if l and not l.startswith(("throw", "<"))])
            mcases.append(ops); mexp.append(exp)
            for o, e in zip(ops, exp):
                if o.startswith("testlin "):
                    pols = [hex2float(x) for x in o.split()[2:]]
                    pos = max([x for x in pols if x > 0] + [0.0])
                    neg = max([-x for x in pols if x < 0] + [0.0])
                    corr.count("net_testlin_flag_" + e.split()[1])
                    if pols and pos == 0.0 and neg > 0:
                        corr.count("net_testlin_all_misclosures_nonpositive")
                    if neg >= 0.0005 > pos:
                        corr.count("net_testlin_decided_by_negative_misclosure")
        mout, _ = run_cases(drv, mcases)
        for k, ops in enumerate(mcases):
            corr.case(key="\n".join(ops) if ops else None)
            corr.count("net_model_ops", len(ops))
            if len(mout[k]) != len(mexp[k]) or not all(lines_equal(a, b, rtol=1e-9, atol=1e-9)
                                                       for a, b in zip(mexp[k], mout[k])):
                bad = [(o, a, b) for o, a, b in zip(ops, mexp[k], mout[k]) if not lines_equal(a, b, rtol=1e-9, atol=1e-9)]
                corr.disagree("net", [o for o, _, _ in bad[:3]], [a for _, a, _ in bad[:3]], [b for _, _, b in bad[:3]])
        # ---- (b') refine_obsdh_reductions in both modes + the invariant of refine_adjustment
        obsdh_stream(ctx, corr, exe, drv, ctx.size(40, 400), wd)
        # ---- (c) end to end
        gd = ctx.build_gama(sanitize=ctx.thorough, targets=("gama-local",))
        for f in sorted(corpus.glob("*.gkf")) if corpus.exists() else []:
            meta_f = f.with_suffix(".json")
            if not meta_f.exists():
                continue
            m = json.loads(meta_f.read_text())
            rc, xml, txt, log = N.run_gama(gd, f.read_text(), m.get("alg", "envelope"), wd, "c")
            bad = check(m["truth_net"], rc, xml, txt, log, m.get("variant", "supplied"), m.get("heights", False))
            corr.case(key=f.name)
            if bad:
                corr.fail(f"corpus {f.name}: " + "; ".join(bad[:4]),
                          {"stream": "e2e", "gkf": f.read_text(), "alg": m.get("alg", "envelope"), "variant": m.get("variant"),
                           "heights": m.get("heights", False), "truth_net": m["truth_net"], "step": m.get("step", ""),
                           "signature": signature(f.read_text(), bad, txt, m.get("variant", "supplied"), m["truth_net"])},
                          site=m.get("site", "gama-local"), detail=txt[:1500])
        e2e(ctx, corr, gd, ctx.size(45, 400), wd)
    finally:
        shutil.rmtree(wd, ignore_errors=True)
    if corr.stats.get("net_testlin_decided_by_negative_misclosure", 0) < 5:
        corr.inconclusive.append("net stream: fewer than 5 stopping tests decided by a negative misclosure alone")
    if corr.stats.get("prim_solutions_2", 0) < 20 or corr.stats.get("prim_small_angle", 0) < 5:
        corr.inconclusive.append("too few two-solution / small-angle primitive cases")


def search(ctx, broken, corr):
    """something in the proof / tie broke: look harder on the implementation (more networks, more primitives)"""
    c2 = Corr()
    wd = Path(tempfile.mkdtemp(prefix="c06s-"))
    try:
        gd = ctx.build_gama(sanitize=False, targets=("gama-local",))
        exe = build_harness(ctx)
        e2e(ctx, c2, gd, 400, wd)
        cases, meta = [], []
        for _ in range(30000):
            line, X, kind = gen_primitive(ctx.rng)
            cases.append([line]); meta.append((kind, X))
        impl, _ = run_cases(exe, cases)
        for i, c in enumerate(cases):
            why = check_primitive(c[0], meta[i][1], meta[i][0], impl[i])
            if why:
                c2.fail("primitive does not return the true point: " + why, {"stream": "prim", "ops": c}, "g2d_cogo::" + meta[i][0])
                break
    finally:
        shutil.rmtree(wd, ignore_errors=True)
    return c2.failures


def classify(ctx, failure):
    r = failure.replay if isinstance(failure.replay, dict) else {}
    sig = r.get("signature", "")
    # F15 (01e764d) and F18 (45be66f, 2bd0b4a) are repaired: a recurrence is reported, not classified
    if sig == "C06-acord-incomplete":
        # a refusal is the known finding F19 ONLY when the construction step Acord2 did not perform is one of the
        # listed, reproducer-backed unimplemented step kinds; anything else is a violation (a strategy regressed)
        return "C06-F19" if step_kind_known(r.get("step", "")) else None
    if r.get("stream") in ("acord", "acord2"):
        return r.get("finding")
    return {"C06-stale-x": "C06-refine-stale-unknowns", "C06-acord-copyback": "C06-acord-copyback",
            "C06-azimuth-from-unknown": "C06-F20", "C06-insertion": "C06-F21"}.get(sig)


def explained_by_known(ctx, broken_item, matched_ids):
    return False


def replay(ctx, payload):
    f = payload.get("failure") or {}
    inp = f.get("input") or {}
    if inp.get("stream") == "e2e":
        wd = Path(tempfile.mkdtemp(prefix="c06r-"))
        try:
            gd = ctx.build_gama(sanitize=False, targets=("gama-local",))
            rc, xml, txt, log = N.run_gama(gd, inp["gkf"], inp.get("alg", "envelope"), wd, "r")
            bad = check(inp["truth_net"], rc, xml, txt, log, inp.get("variant", "supplied"), inp.get("heights", False))
            print(inp["gkf"])
            print("algorithm:", inp.get("alg"), " variant:", inp.get("variant"), " signature:", inp.get("signature"))
            print("violations now:", bad[:8] if bad else "none")
            return 1 if bad else 0
        finally:
            shutil.rmtree(wd, ignore_errors=True)
    if inp.get("stream") == "obsdh":
        wd = Path(tempfile.mkdtemp(prefix="c06r-"))
        try:
            exe = build_harness(ctx)
            f = wd / "r.gkf"
            f.write_text(inp["gkf"])
            impl, _ = run_cases(exe, [[f"obsdh {f} {inp.get('maxiter', 5)}"]])
            ops, exp, iters, last = obsdh_ops([l for l in impl[0] if l and l.split()[0] in ("dh", "res", "iters")])
            model, _ = run_cases(ctx.driver("drv_cogo"), [ops])
            print(inp["gkf"])
            print("iterations, bound:", iters, " status of refine_obsdh_reductions(IS, true) afterwards:", last)
            agree = len(model[0]) == len(exp) and all(lines_equal(a, b, rtol=1e-9, atol=1e-10) for a, b in zip(exp, model[0]))
            print("model agrees:", agree)
            return 1 if (not agree or (iters and iters[0] < iters[1] and last == "1")) else 0
        finally:
            shutil.rmtree(wd, ignore_errors=True)
    if inp.get("stream") in ("prim", "acord", "acord2"):
        exe = build_harness(ctx)
        impl, _ = run_cases(exe, [inp["ops"]])
        model, _ = run_cases(ctx.driver("drv_cogo"), [inp["ops"]])
        print("ops:", inp["ops"], "\nimpl:", impl[0], "\nmodel:", model[0])
        return 0 if impl[0] == model[0] else 1
    print(json.dumps(f or payload.get("no_longer_checks"), indent=1)[:4000])
    return 0
