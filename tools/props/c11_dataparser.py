"""C11, second reader: GNU_gama::DataParser (gama-g3 / adjustment-input XML).  Used by tools/props/c11.py.

  translate(ctx)          regenerate lean/Gama/Gen/DataParserAutomaton.lean from ctx.repo
  run_stream(ctx, corr)   correspondence of the Lean model (drv_dataparser) with the real DataParser
                          (harness/c11_dataparser.cpp) after EVERY SAX event + oracle on the implementation
"""
import glob as _glob
import importlib.util
from lib.core import *

LEAN_TARGETS = ["Gama.Props.C11DataParser", "Gama.Props.C11PureData", "Gama.Props.C11DataParserAccept"]
DRIVERS = ["drv_dataparser"]
PROPS_FILES = ["Gama/Props/C11DataParser.lean", "Gama/Props/C11PureData.lean", "Gama/Props/C11DataParserAccept.lean"]

RULE_DP = ("DataParser documents: for every parser state reached on the implementation (prefixes found by breadth-first "
           "exploration of the real parser along the generated table) a probe with every tag of the row, an unknown name, "
           "other tags (quick: a sample, thorough: all), text, blanks, end tag; archived gama-g3 inputs whole and in two "
           "chunks; one mutation of those (rename / delete / duplicate an element, attribute, broken number, truncation); "
           "distinct by SAX event text; non-trivial = at least 4 events; every document is ALSO run through DP.crun (the model on the "
           "real character data: text_buffer, number-format conditions computed): state / error kind after every event, acceptance "
           "bit and line of the refusal must equal the implementation's (stream dp_values); 188 deterministic documents with two consecutive "
           "field elements (every observation kind of gama-g3 after every other, the one-number constants, the ellipsoid pairs, every pooled "
           "group of the adjustment input): well-formed after well-formed must be accepted, empty / malformed / missing / doubled numbers "
           "after a well-formed element must be refused naming the line of the element's end tag (expectation from the documented format, "
           "not from the model: a stale text_buffer or a skipped format test gives a concrete failing document)")

_spec = importlib.util.spec_from_file_location("c11_dataparser_gen", str(VERIF / "tools" / "gen" / "c11_dataparser.py"))
_tr = importlib.util.module_from_spec(_spec)
_spec.loader.exec_module(_tr)
_tr.TieBroken = TieBroken



def _is_wall_timeout(crash):
    """run_cases reports a wall-clock expiry of the whole batch as (-9, "timeout") on its first case: the machine is loaded;
    termination itself is judged by the harness' CPU timer (exit status 88)"""
    return crash is not None and crash[0] == -9 and crash[1] == "timeout"


def _wall_inconclusive(corr, what):
    corr.count("wall_clock_expired_without_cpu_exhaustion")
    if len(corr.inconclusive) < 20:
        corr.inconclusive.append("wall-clock limit expired without CPU exhaustion (loaded machine): " + what)


def translate(ctx):
    _tr.run(ctx.repo, ctx.verif)


def hexs(b):
    return b.hex() if b else "-"


# ------------------------------------------------------------------ running documents

def run_docs(ctx, corr, exe, docs, stream, quiet=False):
    """docs: list of (label, bytes, split, expect) ; expect in (None, 'accept').  Returns per doc the list of R states
    of the implementation and whether an error was recorded (for the exploration)."""
    cases = [[f"doc {hexs(d)} {k}"] for _, d, k, _ in docs]
    impl, crashes = run_cases(exe, cases, timeout=3600)
    mcases = []
    for out in impl:
        ev = []
        for l in out:
            if l.startswith("E "):
                if l.split()[-1] == "x":
                    break            # an exception left this handler: the event has no result line
                ev.append(l[2:])
        mcases.append(ev + ["end"])
    # exploration documents (quick tier): only the implementation is run and judged; every prefix found is
    # compared with the model as part of the probes that extend it
    skip_model = quiet and not ctx.thorough
    model, mcr = ([[] for _ in mcases], {}) if skip_model else run_cases(ctx.driver("drv_dataparser"), mcases, timeout=3600)
    info = []
    for i, (label, d, k, expect) in enumerate(docs):
        out = impl[i]
        R = [l for l in out if l.startswith("R ")]
        O = [l for l in out if l.startswith("O ")]
        X = [l for l in out if l.startswith("X ")]
        M = [l for l in out if l.startswith("M ")]
        info.append(([int(l.split()[1]) for l in R], bool(M), O[0] if O else None))
        nev = len(R)
        key = sha("\n".join(mcases[i])) if nev >= 4 else None
        corr.case(key=key, sample={"stream": stream, "doc": label, "events": nev, "outcome": O[:1]} if i < 2 else None)
        corr.count(f"{stream}_docs")
        payload = {"stream": stream, "label": label, "doc": d.decode("utf-8", "replace"), "split": k}
        if expect is not None:
            payload["expect"] = list(expect) if isinstance(expect, tuple) else expect
        if i in crashes:
            if _is_wall_timeout(crashes[i]):
                _wall_inconclusive(corr, f"DataParser stream batch starting at {label}")
            elif crashes[i][0] == 88:
                corr.fail(f"DataParser does not terminate (10 s CPU-time limit) on {label}", payload, "DataParser", "harness CPU timer")
            else:
                corr.fail(f"DataParser harness crashed/sanitizer report on {label}", payload, "DataParser", crashes[i][1][-3000:])
            continue
        if i in mcr and _is_wall_timeout(mcr[i]):
            _wall_inconclusive(corr, f"DataParser model driver batch starting at {label}")
            continue
        if i in mcr:
            corr.disagree(stream, [label], out[-3:], model[i][-3:], "model driver crashed: " + mcr[i][1][-300:])
            continue
        if not O:
            corr.disagree(stream, [label], out[-3:], model[i][-3:], "no outcome line from the harness")
            continue
        ot = O[0].split()
        expat_err = ot[1] == "parser" and int(ot[3]) > 0
        corr.count("dp_outcome_" + ot[1] + ("_expat" if expat_err else ""))
        for l in R:
            kk = l.split()[2]
            if kk != "-":
                corr.count("dp_err_" + kk)
        mR = [l for l in model[i] if l.startswith("R ")]
        mO = [l for l in model[i] if l.startswith("O ")]
        # after a recorded error the implementation cannot show which data checks fail; if it has LEFT s_error again
        # (the error escaped) handlers with data checks run unobserved: the tie is compared up to that event
        cut, had = len(R), False
        for j, l in enumerate(R):
            t = l.split()
            if had and t[1] != "0":
                cut = j + 1
                corr.count("dp_error_state_left")
                break
            if t[2] != "-":
                had = True
        if X:
            corr.count("dp_exception_through_expat")
            corr.fail(f"exception {X[0][2:]} leaves an expat callback of DataParser: diagnostic has no line ({label})", payload,
                      "DataParser", "\n".join(out[-4:]))
            if mR[:len(R)] != R:
                corr.disagree(stream, payload, R[-5:], mR[:len(R)][-5:], "states before the exception differ")
            continue
        if skip_model:
            pass
        elif mR[:cut] != R[:cut] or (cut == len(R) and len(mR) != len(R)):
            j = next((j for j in range(min(cut, len(mR))) if R[j] != mR[j]), min(cut, len(mR)))
            corr.disagree(stream, payload, {"event": mcases[i][j] if j < len(mcases[i]) else None, "index": j, "R": R[max(0, j - 2):j + 1]},
                          mR[max(0, j - 2):j + 1], "state/error after an event differs")
        elif cut == len(R) and not expat_err and mO != O[:1]:
            corr.disagree(stream, payload, O, mO, "outcome differs")
        # ---- DP.crun: the run on the REAL text (number-format conditions computed from the text of the events, text_buffer modelled):
        # state / error kind after every event, acceptance bit and the line of the refusal
        if not skip_model:
            mV = ["R" + l[1:] for l in model[i] if l.startswith("V ")]
            mW = ["O" + l[1:] for l in model[i] if l.startswith("W ")]
            corr.count("dp_value_docs")
            corr.count("dp_value_events", min(cut, len(mV)))
            if mV[:cut] != R[:cut] or (cut == len(R) and len(mV) != len(R)):
                j = next((j for j in range(min(cut, len(mV))) if R[j] != mV[j]), min(cut, len(mV)))
                corr.disagree("dp_values", payload, {"event": mcases[i][j] if j < len(mcases[i]) else None, "index": j, "R": R[max(0, j - 2):j + 1]},
                              mV[max(0, j - 2):j + 1], "DP.crun (conditions computed from the real text): state/error after an event differs")
            elif cut == len(R) and not expat_err:
                corr.count("dp_value_outcome_" + ("accepted" if O[0] == "O ok" else "refused"))
                if mW != O[:1]:
                    corr.disagree("dp_values", payload, O, mW, "DP.crun: acceptance bit / line of the refusal differs")
        # ---- oracle on the implementation's own answers
        if ot[1] == "parser" and int(ot[2]) < 1:
            corr.fail(f"DataParser refuses without a line number ({O[0]}) : {label}", payload, "DataParser::end_tag", "\n".join(out[-4:]))
        if O[0] == "O ok" and M:
            corr.fail(f"DataParser: error() was recorded but the document was accepted (error lost) : {label}", payload,
                      "DataParser::init", "\n".join(M + R[-6:]))
        if expect == "accept" and label.startswith("stale-buffer"):
            corr.count("dp_stale_buffer_expect_accept")
            if O[0] != "O ok":
                corr.fail(f"a well-formed element that follows a well-formed element is refused ({O[0]}; text_buffer not cleared?) : {label}",
                          payload, "DataParser::text_buffer", "\n".join(M + out[-4:]))
        elif expect == "accept" and O[0] != "O ok":
            corr.fail(f"DataParser refuses an archived gama-g3 input ({O[0]}) : {label}", payload, "DataParser", "\n".join(out[-4:]))
        if isinstance(expect, tuple) and expect[0] == "refuse_at":
            corr.count("dp_stale_buffer_expect_refusal")
            t = O[0].split()
            if not (t[1] == "parser" and int(t[2]) == expect[1]):
                corr.fail(f"an element with empty / malformed mandatory numbers must be refused naming line {expect[1]} (its end tag) but the answer is "
                          f"{O[0]} (text of the preceding element still in text_buffer, or the format test skipped?) : {label}",
                          payload, "DataParser::pure_data", "\n".join(M + out[-4:]))
        if isinstance(expect, tuple) and expect[0] == "refuse_between":
            corr.count("dp_numeric_leaf_docs")
            t = O[0].split()
            if not (t[1] == "parser" and expect[1] <= int(t[2]) <= expect[2]):
                corr.fail(f"a numeric element holds no number but the answer is {O[0]} instead of a refusal naming a line in "
                          f"{expect[1]}..{expect[2]} : {label}", payload, "DataParser::pure_data", "\n".join(out[-4:]))
    return info


# ------------------------------------------------------------------ reaching every state on the implementation

TEXTS = [b"1", b"0", b"wgs84", b"1-2-3"]
MAXPRE = 4


def explore(ctx, corr, exe, A):
    """breadth-first over the REAL parser: prefixes (document text, stack of open elements) per reached state.
    Counters hidden in the data decide which end tags are accepted later, so several prefixes are kept per state:
    one per combination of the last two text values chosen (at most MAXPRE)."""
    tb = A["tables"]
    names = {}
    for n, t in A["tagtab"]:
        names.setdefault(A["tags"].index(t), n)
    rows = {}
    for (s, t), n in tb.next.items():
        rows.setdefault(s, []).append((t, n))
    start = A["states"].index("s_start")
    reached = {start: {(): (b"", ())}}
    frontier = [(start, b"", (), ())]
    rounds = 0
    while frontier and rounds < 80:
        rounds += 1
        cands = []
        for s, pre, stack, hist in frontier:
            for t, n in sorted(rows.get(s, [])):
                if t not in names:
                    continue
                nm = names[t].encode()
                if n in tb.data:
                    for i, tx in enumerate(TEXTS):
                        cands.append((pre + b"<" + nm + b">" + tx, stack + (nm,), (hist + (i,))[-2:]))
                else:
                    cands.append((pre + b"<" + nm + b">", stack + (nm,), hist))
            if stack:
                cands.append((pre + b"</" + stack[-1] + b">\n", stack[:-1], hist))
        docs = [(f"explore round {rounds} #{i}", c[0], -1, None) for i, c in enumerate(cands)]
        info = run_docs(ctx, corr, exe, docs, "dp_explore", quiet=True)
        frontier = []
        for (doc, stack, hist), (states, had_err, o) in zip(cands, info):
            if had_err or not states:
                continue
            r = states[-1]
            have = reached.setdefault(r, {})
            if hist not in have and len(have) < MAXPRE:
                have[hist] = (doc, stack)
                frontier.append((r, doc, stack, hist))
    return {s: list(v.values()) for s, v in reached.items()}, names


def explore_cached(ctx, corr, exe, A):
    """the exploration depends only on the tree (not on the seed): its result is kept next to the harness executable
    (whose name carries the hash of the tree's sources) and RE-VALIDATED on use: every stored prefix is run again and
    must still reach its state without an error; otherwise the exploration is repeated"""
    cache = Path(str(exe) + ".explore.json")
    tb = A["tables"]
    names = {}
    for n, t in A["tagtab"]:
        names.setdefault(A["tags"].index(t), n)
    if cache.exists() and not ctx.thorough:
        try:
            raw = json.loads(cache.read_text())
            reached = {int(s): [(bytes.fromhex(d), tuple(x.encode() for x in st)) for d, st in v] for s, v in raw.items()}
            flat = [(s, d, st) for s, v in sorted(reached.items()) for d, st in v if d]
            info = run_docs(ctx, corr, exe, [(f"explore (stored) {A['states'][s]}", d, -1, None) for s, d, st in flat], "dp_explore", quiet=True)
            if all(states and states[-1] == s and not had for (s, d, st), (states, had, o) in zip(flat, info)):
                corr.count("dp_explore_from_cache")
                return reached, names
        except (ValueError, KeyError, OSError):
            pass
    reached, names = explore(ctx, corr, exe, A)
    try:
        cache.write_text(json.dumps({str(s): [(d.hex(), [x.decode() for x in st]) for d, st in v] for s, v in reached.items()}))
    except OSError:
        pass
    return reached, names


def probe_docs(ctx, A, reached, names):
    tb = A["tables"]
    docs = []
    alltags = sorted(names)
    for s in sorted(reached):
        pre, stack = reached[s][0]
        sname = A["states"][s]
        rowtags = sorted(t for (s2, t) in tb.next if s2 == s and t in names)
        if ctx.thorough:
            tags = alltags
        else:
            others = [t for t in alltags if t not in rowtags]
            tags = rowtags + ctx.rng.sample(others, min(3, len(others)))
        for t in tags:
            docs.append((f"probe {sname} <{names[t]}>", pre + b"<" + names[t].encode() + b">", -1, None))
        docs.append((f"probe {sname} <bogus>", pre + b"<bogus>", -1, None))
        docs.append((f"probe {sname} <tag a=1>", pre + b"<" + names[(rowtags or alltags)[0]].encode() + b' a="1">', -1, None))
        docs.append((f"probe {sname} text", pre + b"x", -1, None))
        docs.append((f"probe {sname} blank", pre + b" \n", -1, None))
        tail = b""
        for nm in reversed(stack):
            tail += b"</" + nm + b">"
            docs.append((f"probe {sname} close x{tail.count(b'</')}", pre + tail, -1, None))
        for alt in reached[s][1:]:
            tail = b""
            for nm in reversed(alt[1]):
                tail += b"</" + nm + b">"
            docs.append((f"probe {sname} (other data) close all", alt[0] + tail, -1, None))
    return docs


# ------------------------------------------------------------------ mutations of archived inputs

LEAF = re.compile(rb"<([A-Za-z][\w-]*)>([^<>]*)</\1>")
OPEN = re.compile(rb"<([A-Za-z][\w-]*)(\s[^<>]*)?(/?)>")


def mutate(rng, b, tagnames):
    kind = rng.choice(["rename", "rename-known", "delete", "duplicate", "attr", "number", "truncate", "text", "empty"])
    leaves = list(LEAF.finditer(b))
    opens = list(OPEN.finditer(b))
    if kind in ("rename", "rename-known") and opens:
        m = rng.choice(opens)
        old = m.group(1)
        new = b"bogus" if kind == "rename" else rng.choice(tagnames).encode()
        out = b[:m.start(1)] + new + b[m.end(1):]
        if not m.group(3):       # rename the matching end tag too (first one after; good enough for leaves)
            p = out.find(b"</" + old + b">", m.start())
            if p >= 0:
                out = out[:p + 2] + new + out[p + 2 + len(old):]
        return out, f"rename <{old.decode()}> to <{new.decode()}>"
    if kind == "delete" and leaves:
        m = rng.choice(leaves)
        return b[:m.start()] + b[m.end():], f"delete <{m.group(1).decode()}>"
    if kind == "duplicate" and leaves:
        m = rng.choice(leaves)
        return b[:m.end()] + m.group(0) + b[m.end():], f"duplicate <{m.group(1).decode()}>"
    if kind == "attr" and opens:
        m = rng.choice(opens)
        return b[:m.end(1)] + b' a="1"' + b[m.end(1):], f"attribute on <{m.group(1).decode()}>"
    if kind == "number" and leaves:
        m = rng.choice(leaves)
        v = rng.choice([b"x", b"1e", b"1 2", b"", b"-", b"1.2.3", b"1e999", b"2147483647", b"-1", b"0"])
        return b[:m.start(2)] + v + b[m.end(2):], f"<{m.group(1).decode()}> := {v!r}"
    if kind == "text" and opens:
        m = rng.choice(opens)
        return b[:m.end()] + b"junk" + b[m.end():], f"text after <{m.group(1).decode()}>"
    if kind == "empty" and leaves:
        m = rng.choice(leaves)
        return b[:m.start()] + b"<" + m.group(1) + b"/>" + b[m.end():], f"empty <{m.group(1).decode()}/>"
    c = rng.randrange(len(b) + 1)
    return b[:c], f"truncate at {c}"


def split_point(rng, b):
    """a chunk boundary that does not cut a token of character data in two (DataParser::add_text joins the pieces of
    character data with a blank, so a number cut by the boundary is read as two numbers: known finding, see the report)"""
    for _ in range(200):
        k = rng.randrange(len(b) + 1)
        in_tag = b.rfind(b"<", 0, k) > b.rfind(b">", 0, k)
        if in_tag or k == 0 or k == len(b) or b[k - 1:k] in (b">", b" ", b"\n", b"\t", b"\r") or b[k:k + 1] in (b"<", b" ", b"\n", b"\t", b"\r"):
            return k
    return len(b)



# ------------------------------------------------------------------ numeric elements: DataParser::pure_data

# elements of the gama-g3 input whose text is documented as ONE number (manual, "gama-g3 input data"; the XSD gives no types)
G3_NUMERIC = ["val", "dx", "dy", "dz", "x", "y", "z", "b", "l", "h", "height", "geoid", "stdev", "variance", "from-dh", "to-dh", "left-dh",
              "right-dh", "apriori-standard-deviation", "confidence-level", "tol-abs", "flt", "a", "inv-f", "dim", "band",
              "cxx", "cxy", "cxz", "cyy", "cyz", "czz", "db", "dl", "dh"]
# a number cut off at the END of the text: missing, blank, before its first digit, inside its exponent
TRUNCATED = ["", " ", "-", "+", ".", "-.", "1e", "1e+", "1E-"]
NOT_A_NUMBER = TRUNCATED + ["abc", "1x", "1 2", "+.e1"]
NUM_RX = re.compile(rb"\s*[+-]?(\d+\.?\d*|\.\d+)([eE][+-]?\d+)?\s*\Z")
LEAF_RX = re.compile(rb"<([A-Za-z][\w-]*)>([^<]*)</\1>")
TAG_RX = re.compile(rb"<(/?)([A-Za-z][\w-]*)[^>]*?(/?)>")


def numeric_leaf_docs(ctx, corr, rng, files):
    """archived gama-g3 inputs with the text of ONE numeric leaf element replaced by something that is not a number
    -> (label, bytes, -1, ("refuse_between", lo, hi)): the document must be refused and the diagnostic must name a line between
    the line of that element and the line of the end tag of its parent (where the handler that reads the numbers runs)"""
    out = []
    _tests, callers = _tr.parse_pure_data(ctx.repo)
    optional_leaves = {n[len("optional_"):].replace("_", "-") for n, k, _c in callers if k == "data" and n.startswith("optional_")}
    ung = _tr.unguarded_extractions(ctx.repo)
    # the recorded laxness is that of <point> only; a handler elsewhere that extracts without pure_data is judged strictly
    unguarded_parents = {"point"} if any(n.startswith("g3_point_") for n in ung) else set()
    if any(not n.startswith("g3_point_") for n in ung):
        corr.inconclusive.append("DataParser: handlers extracting numbers without pure_data outside <point>: " +
                                 ", ".join(n for n in ung if not n.startswith("g3_point_"))[:200])
    for f in files:
        b = Path(f).read_bytes()
        nm = os.path.basename(f)
        seen = set()
        cands = []
        for m in LEAF_RX.finditer(b):
            name = m.group(1).decode()
            if name not in G3_NUMERIC or not NUM_RX.match(m.group(2)):
                continue
            # parent: the innermost element open at m.start(); its end tag: first point after the leaf where the depth drops
            stack = []
            for t in TAG_RX.finditer(b, 0, m.start()):
                if t.group(1):
                    if stack:
                        stack.pop()
                elif not t.group(3):
                    stack.append(t.group(2).decode())
            parent = stack[-1] if stack else "?"
            depth, end = 0, None
            for t in TAG_RX.finditer(b, m.end()):
                if t.group(1):
                    if depth == 0:
                        end = t.start()
                        break
                    depth -= 1
                elif not t.group(3):
                    depth += 1
            if end is None:
                continue
            nxt = TAG_RX.search(b, m.end())
            last = bool(nxt and nxt.group(1))
            key = (name, parent, last)
            if key in seen:
                continue
            seen.add(key)
            cands.append((m, name, parent, last, end))
        for m, name, parent, last, end in cands:
            lo = b.count(b"\n", 0, m.start()) + 1
            hi = b.count(b"\n", 0, end) + 1
            lits = list(NOT_A_NUMBER)
            # scope of the oracle (each exclusion is a recorded laxness of the reader, see notes/reports/C11.md Round 4):
            #  * the children of one element are pooled into ONE text buffer, so a MISSING token that is not the last one is filled by
            #    the next child's number: '' / ' ' only in the last child
            if not last:
                lits = [v for v in lits if v.strip() != ""]
            #  * <stdev> <variance> <from-dh> … have a character-data handler of their own (optional_*): with no text at all the
            #    handler is never called and the element counts as absent
            if name in optional_leaves:
                lits = [v for v in lits if v != ""]
            #  * handlers that never call pure_data (generated `unguardedExtractions`: the coordinates of <point>) refuse a failed
            #    extraction but not trailing junk
            if parent in unguarded_parents:
                lits = [v for v in lits if v in TRUNCATED]
            if not (last or ctx.thorough):
                lits = rng.sample(lits, min(3, len(lits)))
            for v in lits:
                doc = b[:m.start(2)] + v.encode() + b[m.end(2):]
                out.append((f"{nm}: <{name}> in <{parent}>{' (last child)' if last else ''} = {v!r}", doc, -1, ("refuse_between", lo, hi)))
    return out


# ------------------------------------------------------------------ consecutive field elements: a stale text_buffer

# The elements whose character data (own or pooled from their children) is read by ONE end handler (the `isField` handlers of
# Gen/DataParserConds.lean and the pooling parents).  The expectations below come from the documented format of the gama-g3 /
# adjustment input (manual "gama-g3 input data", xml/gnu-gama-data.xsd), NOT from the model: every child of an observation is
# mandatory and holds one number / one id, so
#   * a well-formed element that FOLLOWS a well-formed element must be accepted,
#   * an element whose mandatory children are empty (or whose last number is malformed) must be refused, and the diagnostic must
#     name the line of ITS end tag (the handler that reads the pooled text runs there) — whatever element precedes it.
# A handler that does not clear text_buffer leaks the first element's text into the second: both expectations break.
G3_HEAD = (b'<?xml version="1.0" ?>\n<gnu-gama-data xmlns="http://www.gnu.org/software/gama/gnu-gama-data">\n<g3-model>\n'
           b'<constants>\n<apriori-standard-deviation>10</apriori-standard-deviation>\n<angular-units-gons/>\n'
           b'<ellipsoid><id>wgs84</id></ellipsoid>\n</constants>\n<fixed><n/><e/><u/></fixed>\n'
           b'<point><id>A</id><x>3897173.613</x><y>997293.454</y><z>4933466.708</z></point>\n'
           b'<point><id>B</id><x>3905644.621</x><y>1024368.968</y><z>4921493.098</z></point>\n'
           b'<point><id>C</id><x>3895644.621</x><y>1014368.968</y><z>4931493.098</z></point>\n')
G3_TAIL = b'</g3-model>\n</gnu-gama-data>\n'
# kind -> (children in the mandatory order, values of a first and a second well-formed instance, number of scalar observations)
G3_OBS_KINDS = {
    "distance": (["from", "to", "val"], ["A", "B", "29655.5"], ["B", "C", "14432.25"], 1),
    "zenith": (["from", "to", "val"], ["A", "B", "100.5"], ["B", "C", "99.25"], 1),
    "azimuth": (["from", "to", "val"], ["A", "B", "71.5"], ["B", "C", "350.25"], 1),
    "vector": (["from", "to", "dx", "dy", "dz"], ["A", "B", "8471.008", "27075.514", "-11973.61"], ["B", "C", "-10000", "-10000", "10000"], 3),
    "xyz": (["id", "x", "y", "z"], ["A", "3897173.613", "997293.454", "4933466.708"], ["B", "3905644.621", "1024368.968", "4921493.098"], 3),
    "hdiff": (["from", "to", "val"], ["A", "B", "12.345"], ["B", "C", "-7.5"], 1),
    "height": (["id", "val"], ["A", "301.5"], ["B", "288.25"], 1),
    "angle": (["from", "left", "right", "val"], ["A", "B", "C", "33.5"], ["B", "C", "A", "66.25"], 1),
}


# <azimuth> is read but `g3_obs` has no branch for it ("INTERNAL ERROR" at </obs>): no document with an azimuth is expected to be accepted
G3_NOT_ADJUSTABLE = {"azimuth"}
# the value of an angle is extracted as a WORD at the end tag of the observation and converted (deg2gon / atof) at </obs>: a malformed
# angle is not refused at the element (corpus/C11/g3-nonnumeric-value-accepted.xml, recorded laxness); empty / missing / doubled still are
G3_ANGLE_AS_WORD = {"zenith", "azimuth", "angle"}


def _g3_elem(kind, vals):
    ch, _a, _b, _n = G3_OBS_KINDS[kind]
    return ("<" + kind + ">" + "".join(f"<{c}>{v}</{c}>" for c, v in zip(ch, vals)) + "</" + kind + ">").encode()


def _g3_obs_doc(elems):
    """(document, [line of the end tag of every element]) : one <obs> holding the elements (each on a line of its own) and a
    diagonal covariance matrix of the right dimension"""
    head_lines = G3_HEAD.count(b"\n")
    body = b"<obs>\n"
    lines = []
    dim = 0
    for kind, vals in elems:
        body += _g3_elem(kind, vals) + b"\n"
        lines.append(head_lines + 1 + len(lines) + 1)
        dim += G3_OBS_KINDS[kind][3]
    body += b"<cov-mat><dim>" + str(dim).encode() + b"</dim><band>0</band>" + b"".join(b"<flt>%d</flt>" % (4 + i) for i in range(dim)) + b"</cov-mat>\n</obs>\n"
    return G3_HEAD + body + G3_TAIL, lines


def stale_buffer_docs():
    """deterministic documents with two consecutive field elements -> (label, bytes, -1, expect), expect = "accept" or
    ("refuse_at", line).  Independent of the translator (they are also run when it raised TieBroken)."""
    out = []
    kinds = list(G3_OBS_KINDS)
    for k1 in kinds:
        ch1, a1, b1, _ = G3_OBS_KINDS[k1]
        # a single element, then the covariance matrix (which reads text_buffer too)
        d, _ = _g3_obs_doc([(k1, a1)])
        if k1 not in G3_NOT_ADJUSTABLE:
            out.append((f"stale-buffer: <{k1}> then <cov-mat>", d, -1, "accept"))
        for k2 in kinds:
            ch2, a2, b2, _ = G3_OBS_KINDS[k2]
            if k1 in G3_NOT_ADJUSTABLE or k2 in G3_NOT_ADJUSTABLE:
                continue
            d, _ = _g3_obs_doc([(k1, a1), (k2, b2)])
            out.append((f"stale-buffer: well-formed <{k1}> then well-formed <{k2}>", d, -1, "accept"))
        # second element of the same / of another kind with EMPTY mandatory children, with a malformed last number, with a missing last number
        for k2 in (k1, kinds[(kinds.index(k1) + 1) % len(kinds)]):
            ch2, a2, b2, _ = G3_OBS_KINDS[k2]
            for what, vals in (("all children empty", [""] * len(ch2)), ("last number malformed", b2[:-1] + ["1x"]),
                               ("last number missing", b2[:-1] + [""]), ("last number doubled", b2[:-1] + [b2[-1] + " 5"])):
                if k2 in G3_ANGLE_AS_WORD and what == "last number malformed":
                    continue
                d, ln = _g3_obs_doc([(k1, a1), (k2, vals)])
                out.append((f"stale-buffer: well-formed <{k1}> then <{k2}> with {what}", d, -1, ("refuse_at", ln[1])))
    # <constants>: elements holding one number each, repeated; the ellipsoid given by a / b resp. a / inv-f (two children pooled)
    def const_doc(inner):
        head = (b'<?xml version="1.0" ?>\n<gnu-gama-data xmlns="http://www.gnu.org/software/gama/gnu-gama-data">\n<g3-model>\n<constants>\n')
        tail = b"</constants>\n" + G3_TAIL
        return head + b"".join(x + b"\n" for x in inner) + tail, 4
    singles = ["apriori-standard-deviation", "confidence-level", "tol-abs"]
    goods = {"apriori-standard-deviation": ("10", "12.5"), "confidence-level": ("0.95", "0.99"), "tol-abs": ("1e-3", "0.002")}
    for k1 in singles:
        for k2 in singles:
            e1 = f"<{k1}>{goods[k1][0]}</{k1}>".encode()
            d, l0 = const_doc([e1, f"<{k2}>{goods[k2][1]}</{k2}>".encode()])
            out.append((f"stale-buffer: <{k1}> then well-formed <{k2}>", d, -1, "accept"))
            for what, v in (("empty", ""), ("malformed", "1x"), ("two numbers", goods[k2][1] + " 7")):
                d, l0 = const_doc([e1, f"<{k2}>{v}</{k2}>".encode()])
                out.append((f"stale-buffer: <{k1}> then <{k2}> {what}", d, -1, ("refuse_at", l0 + 2)))
    for second in ("b", "inv-f"):
        v2 = {"b": "6356752.31425", "inv-f": "298.257223563"}[second]
        for k1 in singles:
            e1 = f"<{k1}>{goods[k1][0]}</{k1}>".encode()
            d, l0 = const_doc([e1, f"<ellipsoid><a>6378137</a><{second}>{v2}</{second}></ellipsoid>".encode(), e1])
            out.append((f"stale-buffer: <{k1}> then <ellipsoid> a/{second} then <{k1}>", d, -1, "accept"))
            for what, va, vb in (("both empty", "", ""), ("second empty", "6378137", ""), ("second malformed", "6378137", "1x")):
                d, l0 = const_doc([e1, f"<ellipsoid><a>{va}</a><{second}>{vb}</{second}></ellipsoid>".encode()])
                out.append((f"stale-buffer: <{k1}> then <ellipsoid> a/{second} {what}", d, -1, ("refuse_at", l0 + 2)))
    # adjustment input: <rows>/<cols>/<nonz> pooled, <row><nonz>, <blocks>/<nonz> pooled, <dim>/<width> pooled, <dim> of vector / array
    def adj_doc(sm=("2", "2", "3"), r1="2", r2="1", bd=("1", "3"), bw=("2", "1"), vdim="2", adim="2"):
        L = [b'<?xml version="1.0" ?>', b"<gnu-gama-data>", b"<adj-input-data>",
             b"<sparse-mat>", f"<rows>{sm[0]}</rows><cols>{sm[1]}</cols><nonz>{sm[2]}</nonz>".encode(),
             b"<row>", f"<nonz>{r1}</nonz>".encode(), b"<int>1</int><flt>1</flt><int>2</int><flt>2</flt></row>",
             b"<row>", f"<nonz>{r2}</nonz>".encode(), b"<int>2</int><flt>3</flt></row>", b"</sparse-mat>",
             b"<block-diagonal>", f"<blocks>{bd[0]}</blocks><nonz>{bd[1]}</nonz>".encode(),
             b"<block>", f"<dim>{bw[0]}</dim><width>{bw[1]}</width>".encode(), b"<flt>4</flt><flt>1</flt><flt>5</flt></block>", b"</block-diagonal>",
             b"<vector>", f"<dim>{vdim}</dim>".encode(), b"<flt>1</flt><flt>2</flt></vector>",
             b"<array>", f"<dim>{adim}</dim>".encode(), b"<int>1</int><int>2</int></array>",
             b"</adj-input-data>", b"</gnu-gama-data>"]
        return b"\n".join(L) + b"\n"
    out.append(("stale-buffer: adjustment input, every field element followed by another", adj_doc(), -1, "accept"))
    for what, kw, line in (("<rows>/<cols>/<nonz> empty", dict(sm=("", "", "")), 5), ("<nonz> of sparse-mat malformed", dict(sm=("2", "2", "3x")), 5),
                           ("<nonz> of the first row empty", dict(r1=""), 7), ("<nonz> of the second row empty", dict(r2=""), 10),
                           ("<nonz> of the second row malformed", dict(r2="1x"), 10),
                           ("<blocks>/<nonz> empty", dict(bd=("", "")), 14), ("<nonz> of block-diagonal malformed", dict(bd=("1", "3x")), 14),
                           ("<dim>/<width> empty", dict(bw=("", "")), 16), ("<width> malformed", dict(bw=("2", "1x")), 16),
                           ("<dim> of vector empty", dict(vdim=""), 20), ("<dim> of vector malformed", dict(vdim="2x"), 20),
                           ("<dim> of array empty", dict(adim=""), 23), ("<dim> of array malformed", dict(adim="2x"), 23)):
        out.append((f"stale-buffer: adjustment input, {what}", adj_doc(**kw), -1, ("refuse_at", line)))
    return out


PD_ALPHABET = b"019+-.eE x"


def run_pure_data(ctx, corr, exe):
    """the real `istr >> …` (libstdc++) and DataParser::pure_data vs PD.extractDouble / extractWord / pureData:
    every string up to length 4 (thorough 5) over a 10-letter alphabet for one double, the truncated literals behind words / numbers"""
    n = 5 if ctx.thorough else 4
    strs = [b""]
    layer = [b""]
    for _ in range(n):
        layer = [x + bytes([c]) for x in layer for c in PD_ALPHABET]
        strs += layer
    ops = [f"pd d {hexs(x)}" for x in strs]
    rng = ctx.rng
    # int / size_t extractions (adjustment input: <dim>, <rows>, <nonz>, <int> …): all strings up to length 3, range borders
    istrs = [x for x in strs if len(x) <= 3]
    ops += [f"pd i {hexs(x)}" for x in istrs] + [f"pd u {hexs(x)}" for x in istrs]
    for v in ("2147483647", "2147483648", "-2147483648", "-2147483649", "18446744073709551615", "18446744073709551616", "-18446744073709551615",
              "-18446744073709551616", "-1", "+1", "-0", "007", "9223372036854775807", "9223372036854775808", "-9223372036854775809", "1.5", "1e3", "12x",
              "99999999999999999999999999"):
        for k in ("i", "u", "ui", "ud", "uu", "uuu"):
            for pre in (b"", b"3 ", b" 4 5 "):
                ops.append(f"pd {k} {hexs(pre + v.encode())}")
                ops.append(f"pd {k} {hexs(pre + v.encode() + b' ')}")
    for k in ("wd", "dd", "wwd", "ddd", "w", "dw"):
        for v in NOT_A_NUMBER + ["1", "1.5e3", "1e999", "-0", "5.", ".5"]:
            for pre in (b"A ", b"A B ", b"1 2 ", b" 7 \n", b""):
                ops.append(f"pd {k} {hexs(pre + v.encode())}")
                ops.append(f"pd {k} {hexs(pre + v.encode() + b' ')}")
    for _ in range(ctx.size(1500, 20000)):
        x = bytes(rng.choice(b"0123456789+-.eE \t\nxA") for _ in range(rng.randint(0, 12)))
        ops.append(f"pd {rng.choice(['d', 'dd', 'wd', 'wwd', 'ddddd', 'i', 'u', 'uu', 'ud', 'wwddd', 'wddd'])} {hexs(x)}")
    chunks = [ops[i:i + 4000] for i in range(0, len(ops), 4000)]
    impl, crashes = run_cases(exe, chunks, timeout=3600)
    model, mcr = run_cases(ctx.driver("drv_dataparser"), chunks, timeout=3600)
    nacc = 0
    for i, c in enumerate(chunks):
        if i in crashes or i in mcr:
            cr = crashes.get(i) or mcr.get(i)
            if _is_wall_timeout(cr):
                _wall_inconclusive(corr, "pure_data stream")
            else:
                corr.fail("pure_data harness/driver crashed", {"stream": "pure-data", "label": "pure_data ops", "ops": c[:3]}, "DataParser::pure_data", cr[1][-2000:])
            continue
        for j, op in enumerate(c):
            a = impl[i][j] if j < len(impl[i]) else None
            m = model[i][j] if j < len(model[i]) else None
            corr.case(key=("pd", op))
            if a != m:
                corr.disagree("pure-data", [op], [a], [m], "failbit/eofbit after the extractions or the verdict of pure_data differ")
            if a and a.endswith(" 1"):
                nacc += 1
            # oracle on the implementation: a failed extraction is never "pure data"
            if a and a.startswith("pd 1") and a.endswith(" 1"):
                corr.fail(f"DataParser::pure_data accepts a stream whose extraction FAILED ({a}) : {op}",
                          {"stream": "pure-data", "label": op, "ops": [op]}, "DataParser::pure_data", a)
    corr.count("pure_data_strings", len(ops))
    corr.count("pure_data_accepted", nacc)
    return len(ops)

# ------------------------------------------------------------------ replay of one recorded document on the real DataParser

def replay_doc(ctx, inp):
    """re-run a recorded document (payload of a dp_events / dp_values failure) on the DataParser of the current tree: prints the
    outcome, re-evaluates the recorded expectation; 1 = still failing"""
    d = ctx.build_gama(sanitize=True)
    objs = sorted(_glob.glob(str(d / "CMakeFiles" / "libgama.dir" / "**" / "*.o"), recursive=True))
    exe = ctx.build_cpp("c11_dataparser", [ctx.verif / "harness" / "c11_dataparser.cpp"], includes=[ctx.verif / "harness"],
                        libs=objs + ["-lexpat"])
    data = inp["doc"].encode()
    impl, crashes = run_cases(exe, [[f"doc {hexs(data)} {inp.get('split', -1)}"]], timeout=600)
    out = impl[0] if impl else []
    O = [l for l in out if l.startswith("O ")]
    M = [l for l in out if l.startswith("M ")]
    print(f"DataParser on {len(data)} bytes ({inp.get('label')})")
    print("\n".join(M + O))
    if 0 in crashes:
        print(crashes[0][1][-1500:])
        return 1
    if not O:
        return 1
    expect = inp.get("expect")
    t = O[0].split()
    if expect == "accept":
        bad = O[0] != "O ok"
    elif isinstance(expect, list) and expect and expect[0] == "refuse_at":
        bad = not (t[1] == "parser" and int(t[2]) == expect[1])
    elif isinstance(expect, list) and expect and expect[0] == "refuse_between":
        bad = not (t[1] == "parser" and expect[1] <= int(t[2]) <= expect[2])
    else:
        bad = (t[1] == "parser" and int(t[2]) < 1) or (O[0] == "O ok" and bool(M))
    print("expectation:", expect, "->", "VIOLATED" if bad else "met")
    return 1 if bad else 0


# ------------------------------------------------------------------ the stream

def run_stream(ctx, corr):
    t0 = time.time()
    try:
        A = _tr.analyse(ctx.repo)
    except TieBroken as e:
        A = None
        ctx.log("DataParser stream: the translator does not recognise the source (" + str(e)[:200] + "); probes are skipped, "
                "archived inputs and their mutations are still run")
    d = ctx.build_gama(sanitize=True)
    objs = sorted(_glob.glob(str(d / "CMakeFiles" / "libgama.dir" / "**" / "*.o"), recursive=True))
    exe = ctx.build_cpp("c11_dataparser", [ctx.verif / "harness" / "c11_dataparser.cpp"], includes=[ctx.verif / "harness"],
                        libs=objs + ["-lexpat"])
    rng = ctx.rng
    if A is None:
        docs = []
        for f in sorted((ctx.verif / "corpus" / "C11").glob("g3-*.xml")):
            docs.append(("corpus " + f.name, f.read_bytes(), -1, None))
        for f in sorted(_glob.glob(str(ctx.repo / "tests" / "gama-g3" / "input" / "*.xml"))):
            b = Path(f).read_bytes()
            tagnames = sorted({m.group(1).decode() for m in OPEN.finditer(b)})
            docs.append(("archived " + os.path.basename(f), b, -1, "accept"))
            for _ in range(ctx.size(40, 400)):
                m, what = mutate(rng, b, tagnames)
                docs.append((f"{os.path.basename(f)}: {what}", m, -1, None))
        # the numeric-leaf oracle does not need the translator: a broken tie still gets its failing input
        files0 = sorted(_glob.glob(str(ctx.repo / "tests" / "gama-g3" / "input" / "*.xml")))
        docs += numeric_leaf_docs(ctx, corr, rng, [f for f in files0 if not f.endswith("-adj.xml")])
        docs += stale_buffer_docs()
        run_docs(ctx, corr, exe, docs, "dp_events")
        return
    reached, names = explore_cached(ctx, corr, exe, A)
    nstates = len(A["states"])
    corr.stats["dp_states"] = nstates
    corr.stats["dp_states_reached"] = len(reached)
    unreached = [A["states"][i] for i in range(nstates) if i not in reached and i != 0]
    installed = {n for n in A["tables"].next.values()} | set(A["tables"].after.values()) | {A["states"].index("s_start")}
    missing = [A["states"][i] for i in sorted(installed) if i not in reached and i != 0]
    corr.stats["dp_states_never_targeted_by_init"] = len([i for i in range(nstates) if i not in installed and i != 0])
    if missing:
        corr.stats["dp_states_not_reached"] = missing[:40]
    docs = probe_docs(ctx, A, reached, names)
    nprobe = len(docs)
    tagnames = [n for n, _ in A["tagtab"]]
    files = sorted(_glob.glob(str(ctx.repo / "tests" / "gama-g3" / "input" / "*.xml")))
    corpus = sorted((ctx.verif / "corpus" / "C11").glob("g3-*.xml"))
    for f in corpus:
        docs.append(("corpus " + f.name, f.read_bytes(), -1, None))
    for f in files:
        b = Path(f).read_bytes()
        nm = os.path.basename(f)
        docs.append(("archived " + nm, b, -1, "accept"))
        for _ in range(ctx.size(1, 6)):
            docs.append(("archived " + nm + " split", b, split_point(rng, b), "accept"))
        for _ in range(ctx.size(12, 250)):
            m, what = mutate(rng, b, tagnames)
            docs.append((f"{nm}: {what}", m, -1, None))
            if rng.random() < 0.3:
                docs.append((f"{nm}: {what} (split)", m, rng.randrange(len(m) + 1), None))
    g3inputs = [f for f in files if not f.endswith("-adj.xml")]
    nd = numeric_leaf_docs(ctx, corr, rng, g3inputs)
    docs += nd
    docs += stale_buffer_docs()
    run_docs(ctx, corr, exe, docs, "dp_events")
    npd = run_pure_data(ctx, corr, exe)
    ctx.log(f"DataParser numeric elements: {len(nd)} documents with a non-number in a numeric leaf, {npd} strings through pure_data")
    if len(reached) < 0.9 * max(1, len(installed)):
        corr.inconclusive.append(f"DataParser: only {len(reached)} of {len(installed)} states targeted by init() were reached by the exploration")
    if corr.stats.get("dp_outcome_ok", 0) < 10:
        corr.inconclusive.append("DataParser: fewer than 10 accepted documents")
    ctx.log(f"DataParser stream: {len(reached)}/{nstates} states reached ({len(missing)} targeted states missed), {nprobe} probes, "
            f"{len(docs) - nprobe} archived/mutated documents, {corr.stats.get('dp_explore_docs', 0)} exploration documents, {time.time() - t0:.1f}s")
