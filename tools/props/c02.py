"""C02 — the four algorithms give the same adjustment (and refuse the same inputs)."""
import concurrent.futures
import glob
import math
import tempfile
from fractions import Fraction as F
from lib.core import *
from lib import gen_ls as g
from lib import gen_net as gn
from lib.exact_verdict import XJudge
from props import c01

ID = "C02"
PROPS_FILES = sorted("Gama/Props/" + Path(f).name for f in glob.glob(str(LEAN / "Gama/Props/C02*.lean")))
LEAN_TARGETS = [f[:-5].replace("/", ".") for f in PROPS_FILES]
DRIVERS = ["drv_ls", "drv_netdecision"]
RULE = ("(a) problems (A,b,C,S) from tools/lib/gen_ls.py (dense with planted dependent columns, levelling graphs incl. "
        "disconnected; a guaranteed quota of exact free-network Jacobians — 2D distances / distances+directions (datum "
        "defect 3), directions only and space networks (defect 4), unknowns in point order or shuffled — and of two-part "
        "problems whose kernel lives on a proper part of the unknowns; unit/diagonal/banded SPD covariance; the subset "
        "'all' and PROPER subsets (coordinates of some points, one axis, random) that resolve AND that do not, decided "
        "exactly) x {env,chol,gso,svd} x {solver,adj}: x, r, rtr, defect, all q_xx, q_bb, and lindep(1..n) of every "
        "solver on every singular problem (after an accepted and after a refused unknowns()): #flags = defect, "
        "flagged unknowns in the support of ker A, the other columns independent (exact rational rank); measured: "
        "groups per defect, cases in which AdjCholDec's null-space Gram-Schmidt swapped / scanned a non-identity g_perm "
        "(model trace), problems whose real RCM ordering is not an involution (probe envinfo); (b) networks from "
        "tools/lib/gen_net.py (2D/3D, fixed / free with all or some points constrained, distance-only / directions / "
        "angles / azimuths / slope distances / zenith angles / height differences / vectors, correlated clusters, "
        "points without coordinates, gross errors above tol-abs) x gama-local --algorithm {envelope,cholesky,gso,svd}; "
        "archived gama-g3 inputs x 4 algorithms; (c) decision-layer scripts (scenario tables of solver answers) run "
        "through the real LocalNetwork::null_space/GeneralParameters with a scripted solver and through the Lean "
        "model NetDecision. non-trivial = defect>0 or correlated or removed items; distinct by input text")
LEVEL_TEXT = ("Lean 4 theorems: (1) any two answers that satisfy the least-squares specification IsLSSolution for the "
              "same problem and a regularisation subset that resolves the defect coincide in x, v, v'Pv and A x, and "
              "any two generalised inverses give the same A Q A' — instantiated for the solver models whose C01 "
              "theorems exist; (2) if every solver model refuses exactly the non-resolving subsets, all four refuse the "
              "same inputs, and under one first-stage gap per algorithm plus the dichotomy SDich on (A,S) each of the four answers iff S "
              "resolves the defect (C02_four_answered_iff_resolves; through LocalNetwork C02_net_four_answered_iff_resolves); "
              "(3) the decision layer of LocalNetwork/gama-local (null_space point removal, huge-covariance "
              "loop, verdict of GeneralParameters), modelled as a function of the solver's answers only, returns equal "
              "removed points and verdicts for equal (defect, flagged unknowns, throw/no-throw), for every network size; "
              "a concrete witness shows the flags themselves may legitimately differ between algorithms. Tied to the "
              "C++ by pairwise differential runs of the real solvers and of gama-local/gama-g3 across the four "
              "algorithms, and by a correspondence run of the decision model against the real null_space/GeneralParameters "
              "driven by a scripted solver.")
LEVEL_NOTE = ("The per-solver premises are now FULL theorems of the solver models, none of them _partial: IsLSSolution for "
              "env (regular and singular, envCore and envSolve with its own homogenisation and RCM ordering), cholesky "
              "(regular and singular), gso, svd (for the factors Svd.decompose returns; no certificate: Props/C02SvdDecompose.lean); "
              "pair theorems gso=chol, gso=env, gso=envSolve, gso=svd for x, v, v'Pv, defect and q_xx(i,j) for ALL index pairs, "
              "with joint witnesses (one problem meeting both sides' hypotheses: Props/C02Joint.lean, C02JointEnvSolve.lean, "
              "C02SvdDecompose.lean with the svd factors computed by the model's own iteration over R), and through both "
              "facades for correlated weights and any two algorithms (C02_same_adj, C02_same_net); refusal iff the subset does "
              "not resolve the defect for gso (C02_refusal_gso), cholesky (C02_refusal_chol), envelope (C02_refusal_env, "
              "C02_refusal_envsolve) and svd (C02_refusal_svd, C02_refusal_svdsolve; pair C02_refusal_gso_chol, "
              "C02_refusal_gso_svd) - each under its algorithm's second-stage premise (the S-norm its Gram-Schmidt / "
              "min_subset_x loop tests is exactly 0 or above the threshold; for svd stated as one exact hypothesis on (A,S,tol)); "
              "since rounds 7-8 ONE statement for the four solvers: answered => Resolves, margin => all four answer "
              "(C02_four_refusal_band), answered iff Resolves under SDich (C02_four_answered_iff_resolves; LocalNetwork level "
              "C02_net_four_answered_iff_resolves with two run-level premises: the svd iteration returns, Homogenization::run accepts "
              "the blocks prepareProjectEquations accepted = C10-TINY); the facade pairs under ONE input-side hypothesis per algorithm "
              "and without Resolves (InputGap = RankGap + thresholds for env/chol/gso, SingGap for svd: C02_same_net_gap, "
              "C02_same_adj_gap), applied over R to two DIFFERENT algorithms on one LocalNetwork problem (C02_same_net_witness, "
              "C02_same_net_svd_witness); the decision layer's worlds are derived from the solver models (Props/C02Agree.lean, "
              "C02AgreeEnv.lean) and, round 7, from the EXECUTED models: project_equations() = PE.peWorld (drv_pe), solver object read "
              "off netSolve (obsNet) - C02_decision_agree_single_point_of_project_equations, C02_decision_agree_of_first_of_project_equations "
              "for any two of env/chol/gso (svd excluded: F7-svd), premises WorldHyp (on every configuration of the removal loop: "
              "m0 != 0, covariance invertible, the algorithm's first- and second-stage unambiguity) and 'same first removal' (what F7 violates). "
              "Hypotheses that stay: rank numerically unambiguous (as an exact gap of A'PA on the input: Props/C01/Gap.lean, Gap2.lean, "
              "SvdGap.lean, InputGap.lean), WorldHyp for the removal loop - since round 13 needed only on the configurations reachable by "
              "the removal loop (sub-configurations of the given network: C02_decision_agree_*_of_project_equations_reachable / "
              "_subconfigurations, Props/C02ProjectEquationsReachable.lean; not yet one input-side hypothesis; over R witnessed on the "
              "given configuration of Ex.netWobs only), "
              "convergence of the svd QR iteration (= Svd.decompose returns), IEEE rounding. That the absolute sqrt(eps) pivot tolerance of the envelope / cholesky kernels "
              "does not scale with the weights is known finding F22 (C09-F2, C10-TINY, C19-envelope-defect-undercount elsewhere): "
              "there the algorithms legitimately differ on the real code. 'Tolerance "
              "proportional to conditioning' is tested (1e-8 x scale on generator-bounded conditioning), not proved.")
TECHNIQUE = "Lean 4 proof (uniqueness of the regularised least-squares solution; structural induction on the removal recursion) + differential runs"
TRUSTED = ["scripted solver in harness/c02_netdecision.cpp replaces LocalNetwork::least_squares (test double, real LocalNetwork code)",
           "XML/text readers of gama-local output in tools/props/c02.py",
           "tools/lib/exact_verdict.py + gen_ls.reference: decide ls cases whose x / q_xx answers miss the fixed 1e-9 comparison on a demonstrably ill-conditioned problem (both sides against the exact solution; capped, counted)"]
MODELLED = ["IEEE rounding", "project_equations/linearisation: a parameter ('world') of NetDecision; the theorems instantiate it with the executed model PE.peWorld + obsNet, but the nd correspondence stream still drives the real null_space/GeneralParameters with a scripted table-driven world (no driver runs the composed world)",
            "printing of results (compared at the level of the XML documents)"]
ASSUMPTIONS = ["rank numerically unambiguous (generators keep pivots 0 or O(1); networks on jittered grids)"]

ALGS = ["env", "chol", "gso", "svd"]
GALGS = ["envelope", "cholesky", "gso", "svd"]


# =============================================================================================
# (a) solver level: pairwise differential runs through adj_harness
# =============================================================================================

def ls_queries(rng, p):
    n, m = p["n"], p["m"]
    q = ["x", "r", "rtr", "defect"]
    q += [f"qxx {i} {j}" for i in range(1, n + 1) for j in range(i, n + 1)]
    if m <= 9:
        q += [f"qbb {i} {j}" for i in range(1, m + 1) for j in range(i, m + 1)]
    else:
        q += [f"qbb {i} {i}" for i in range(1, m + 1)]
        for _ in range(25):
            q.append(f"qbb {rng.randint(1, m)} {rng.randint(1, m)}")
    return q


def ls_quota(nprob, thorough=False):
    """guaranteed problems on top of the `nprob` of the historical mix: free-network Jacobians (defect 3 and 4, kinds
    cycled so that every kind occurs) and two-part problems (kernel on a proper part of the unknowns)"""
    if thorough:
        return {"free": max(12, nprob // 3), "parts": max(8, nprob // 5)}
    return {"free": 12, "parts": 8}


def ls_problems(ctx, nprob, quota=None):
    """[(problem, [(S, resolves)…])]"""
    quota = ls_quota(nprob, ctx.thorough) if quota is None else quota
    out = []
    for _ in range(nprob):
        p = g.gen_problem(ctx.rng)
        subs = g.gen_subsets(ctx.rng, p, 3)
        if p["defect"]:
            # a subset that certainly does not resolve the defect: unknowns on which a kernel vector vanishes
            gk = ctx.rng.choice(p["kernel"])
            zero = [i + 1 for i, v in enumerate(gk) if v == 0]
            if zero:
                S = sorted(ctx.rng.sample(zero, ctx.rng.randint(1, len(zero))))
                subs.append((S, g.resolves(p, S)))
        out.append((p, subs))
    for k in range(quota.get("free", 0)):
        # unit covariance for two of three: the solver entry of chol/gso/svd takes dense (A, b) only
        p = g.gen_problem(ctx.rng, family="free-" + g.FREE_KINDS[k % len(g.FREE_KINDS)], correlated=(k % 3 == 2))
        subs = [(list(range(1, p["n"] + 1)), True)] + g.gen_proper_subsets(ctx.rng, p, 3, 1)
        out.append((p, subs))
    for k in range(quota.get("parts", 0)):
        p = g.gen_problem(ctx.rng, family="parts", correlated=(k % 3 == 2))
        subs = [(list(range(1, p["n"] + 1)), True)] + g.gen_proper_subsets(ctx.rng, p, 2, 1)
        out.append((p, subs))
    return out


def ls_cases(ctx, nprob, quota=None):
    """one group per (problem, subset); inside a group one case per (alg, entry) with identical queries"""
    groups, cases = [], []
    for pi, (p, subs) in enumerate(ls_problems(ctx, nprob, quota)):
        n = p["n"]
        seen = set()
        for S, ok in subs:
            if tuple(S) in seen:
                continue
            seen.add(tuple(S))
            qs = ls_queries(ctx.rng, p)
            if not ok:
                # history-free reading: every query goes to a brand-new object (what a query returns AFTER a
                # refused solve on the same object is property C04's business)
                qs = ["fresh " + q for q in qs]
            reg = "all" if (len(S) == n and ctx.rng.random() < 0.5) else S
            idx = []
            for alg in ALGS:
                for entry in ("solver", "adj"):
                    if entry == "solver" and alg != "env" and not p["unit_cov"]:
                        continue
                    lines = g.problem_lines(p, reg) + [f"new {alg} {entry}"] + qs
                    if entry == "solver" and ok:
                        lines += [f"lindep {i}" for i in range(1, n + 1)]
                    elif entry == "solver" and p["defect"]:
                        # the way LocalNetwork::null_space asks: unknowns() (refused), then defect(), lindep(1..n) of
                        # the SAME object
                        lines += ["x", "defect"] + [f"lindep {i}" for i in range(1, n + 1)]
                    idx.append((len(cases), alg, entry))
                    cases.append(lines)
            groups.append({"p": p, "pi": pi, "S": S, "ok": ok, "qs": qs, "idx": idx, "proper": len(S) < n})
    return groups, cases


def judged_positions(qs, off=2):
    """output indexes of the answers an exact-reference verdict may excuse (tools/lib/exact_verdict.py): the FIRST `x`
    answer and every `qxx i j` answer of the query list (answers start at out[off])"""
    x_at = tuple(off + k for k, q in enumerate(qs) if q == "x")[:1]
    qxx_at = {}
    for k, q in enumerate(qs):
        t = q.split()
        if len(t) == 3 and t[0] == "qxx":
            qxx_at[off + k] = (int(t[1]), int(t[2]))
    return x_at, qxx_at


def _nums(line):
    t = line.split()
    if t and t[0] in ("vec", "val") and all(is_hex(x) for x in t[1:]):
        return [hex2float(x) for x in t[1:]]
    if t and t[0] == "int":
        return [int(t[1])]
    return None


def ls_group_oracle(grp, outs):
    """outs: {(alg,entry): output lines}.  Returns list of (what, site)."""
    p, S, ok, qs = grp["p"], grp["S"], grp["ok"], grp["qs"]
    bad = []
    nq = len(qs)
    ans = {}
    for key, out in outs.items():
        if len(out) < 2 + nq or out[0] != "ok" or out[1] != "ok":
            bad.append((f"{key[0]}/{key[1]}: harness protocol: {' | '.join(out[:3])}", f"{key[0]}/{key[1]}"))
            continue
        ans[key] = out[2:2 + nq]
    if not ans:
        return bad
    if "_ref_all" not in p:                                    # v, rtr are the same for every S: once per problem
        p["_ref_all"] = g.reference(p, list(range(1, p["n"] + 1)))
    ref = p["_ref_all"]
    vs = 1.0 + max([abs(float(v)) for v in ref["v"]] + [0.0])
    if not ok:
        # S does not resolve the defect: nobody may report unknowns or their cofactors
        for key, a in ans.items():
            nm = f"{key[0]}/{key[1]}"
            for q, l in zip(qs, a):
                q = q.replace("fresh ", "")
                if q == "x" or q.startswith("qxx"):
                    if not l.startswith("throw"):
                        bad.append((f"{nm}: regularisation subset {S} does not resolve the defect {p['defect']} but "
                                    f"'{q}' was answered ({l[:60]}) instead of refused", nm))
                        break
                    if l != "throw BadRegularization" and not (key[1] == "adj" and l == "throw adjustment"):
                        bad.append((f"{nm}: non-resolving subset refused with '{l}', expected BadRegularization", nm))
                        break
            # whatever IS answered must be right (S-independent quantities)
            for q, l in zip(qs, a):
                q = q.replace("fresh ", "")
                v = _nums(l)
                if v is None:
                    continue
                if q == "r" and max(abs(x - float(y)) for x, y in zip(v, ref["v"])) > 1e-8 * vs:
                    bad.append((f"{nm}: residuals answered for a non-resolving subset are not A x - b of a minimiser", nm))
                if q == "rtr" and abs(v[0] - float(ref["rtr"])) > 1e-8 * (1 + abs(float(ref["rtr"]))):
                    bad.append((f"{nm}: sum of squares {v[0]!r} answered for a non-resolving subset != {float(ref['rtr'])!r}", nm))
                if q == "defect" and v[0] != p["defect"]:
                    bad.append((f"{nm}: defect {v[0]} != n - rank A = {p['defect']}", nm))
        return bad
    # resolving subset: everybody answers, and all answers agree pairwise
    keys = list(ans)
    for key in keys:
        nm = f"{key[0]}/{key[1]}"
        thrown = [(q, l) for q, l in zip(qs, ans[key]) if _nums(l) is None]
        if thrown:
            bad.append((f"{nm}: well-posed problem (defect {p['defect']}, subset {S} resolves it) but "
                        f"'{thrown[0][0]}' -> {thrown[0][1]}", nm))
    keys = [k for k in keys if all(_nums(l) is not None for l in ans[k])]
    if len(keys) < 2:
        return bad
    k0 = keys[0]
    xs = 1.0 + max([abs(v) for v in _nums(ans[k0][0])] + [0.0])
    qscale = 1.0 + max([abs(_nums(l)[0]) for q, l in zip(qs, ans[k0]) if q.startswith("qxx")] + [0.0])
    for k in keys[1:]:
        nm = f"{k0[0]}/{k0[1]} vs {k[0]}/{k[1]}"
        for q, l0, l1 in zip(qs, ans[k0], ans[k]):
            a, b = _nums(l0), _nums(l1)
            if q == "defect":
                if a != b:
                    bad.append((f"{nm}: defect {a[0]} vs {b[0]}", k[0]))
                continue
            if q.startswith("qbb"):
                # solver-entry q_bb of a correlated problem refers to the homogenised system
                if not p["unit_cov"] and (k0[1] != k[1]):
                    continue
                sc = 1.0 + max(abs(a[0]), abs(b[0]))
            elif q.startswith("qxx"):
                sc = qscale
            elif q == "x":
                sc = xs
            elif q == "r":
                if not p["unit_cov"] and (k0[1] != k[1]):
                    pass
                sc = vs
            else:
                sc = 1.0 + abs(a[0])
            if len(a) != len(b):
                bad.append((f"{nm}: '{q}' lengths {len(a)} vs {len(b)}", k[0]))
                continue
            d = max([abs(x - y) for x, y in zip(a, b)] + [0.0])
            if not d <= 1e-8 * sc:
                bad.append((f"{nm}: '{q}' differs by {d:.3g} (scale {sc:.3g})", k[0]))
                break
    return bad


def lindep_flags(out, off, n):
    """flags of the n `lindep i` answers starting at out[off]; None if one of them is not a flag"""
    fl = []
    for l in out[off:off + n]:
        t = l.split()
        if len(t) == 2 and t[0] == "flag" and t[1] in ("0", "1"):
            fl.append(int(t[1]))
        else:
            return None
    return fl if len(fl) == n else None


def lindep_oracle(p, fl):
    """the unknowns a solver names as linearly dependent (fl: n flags) on a problem with exact kernel p['kernel']:
    as many as the defect, each one moved by some kernel vector, and the columns that are left independent"""
    n, d = p["n"], p["defect"]
    F_ = [i for i in range(n) if fl[i]]
    bad = []
    if len(F_) != d:
        bad.append(f"{len(F_)} unknowns flagged as dependent {[i + 1 for i in F_]} but the defect n - rank A is {d}")
    out = [i + 1 for i in F_ if all(gk[i] == 0 for gk in p["kernel"])]
    if out:
        bad.append(f"unknowns {out} are flagged as dependent but no vector of ker A moves them (their columns are "
                   f"independent of all the others)")
    A = g.dense(p)
    keep = [j for j in range(n) if j not in F_]
    r = g.rank([[row[j] for j in keep] for row in A]) if keep else 0
    if r != len(keep):
        bad.append(f"deleting the flagged unknowns {[i + 1 for i in F_]} leaves {len(keep)} columns of rank {r}"
                   f" (rank A = {n - d})")
    return bad


def gs_trace(ctx, groups, cases):
    """model-only probe: pivot order of AdjCholDec's null-space Gram-Schmidt (op `gstrace` of drv_ls) for the chol
    cases of groups with defect >= 2 and a resolving subset.  {case index: (swaps, offid)}"""
    pick = [ci for grp in groups if grp["ok"] and grp["p"]["defect"] >= 2 for ci, alg, entry in grp["idx"] if alg == "chol"]
    probe = []
    for ci in pick:
        c = cases[ci]
        k = c.index("end")
        probe.append(c[:k + 2] + ["gstrace"])
    out, _ = run_cases(ctx.driver("drv_ls"), probe)
    res = {}
    for ci, o in zip(pick, out):
        t = o[-1].split() if o else []
        if len(t) >= 7 and t[0] == "gstrace" and t[2] == "ok":
            res[ci] = (int(t[4]), int(t[6]))
    return res


def env_orderings(exe, groups, cases):
    """the ordering the REAL envelope solver computed (probe op `envinfo`), per problem: {pi: invp (1-based list)}"""
    first = {}
    for grp in groups:
        if grp["p"]["defect"] and grp["pi"] not in first:
            ci = next((ci for ci, alg, entry in grp["idx"] if alg == "env" and entry == "solver"), None)
            if ci is not None:
                first[grp["pi"]] = ci
    probe = []
    for pi, ci in first.items():
        c = cases[ci]
        probe.append(c[:c.index("end") + 2] + ["envinfo"])
    out, _ = run_cases(exe, probe)
    res = {}
    for pi, o in zip(first, out):
        t = o[-1].split() if o else []
        if t and t[0] == "envinfo" and "invp" in t:
            n = int(t[1])
            k = t.index("invp")
            res[pi] = [int(x) for x in t[k + 1:k + 1 + n]]
    return res


F7SVD_REGISTERED = any(f.get("id") == "F7-svd" for f in load_findings("C02"))

def ls_corpus(ctx, corr, exe, with_model=True):
    """corpus/C02/ls-*.ops: minimised solver-level inputs kept from past rounds (raw protocol lines of the form
    problem… / new <alg> solver / x [r rtr] defect / lindep 1..n): model vs implementation, the exact reference for x
    when the stored subset resolves the defect, the lindep oracle"""
    files = sorted((ctx.verif / "corpus" / "C02").glob("ls-*.ops"))
    cases = [[l for l in f.read_text().splitlines() if l.strip() and not l.startswith("#")] for f in files]
    if not cases:
        return
    impl, crashes = run_cases(exe, cases)
    model = run_cases(ctx.driver("drv_ls"), cases)[0] if with_model else None
    for i, (f, c) in enumerate(zip(files, cases)):
        corr.case(key="corpus:" + f.name)
        corr.count("ls_corpus_cases")
        rep = {"stream": "ls", "ops": c, "file": f.name}
        if i in crashes:
            corr.fail("corpus case crashes the solver", rep, "corpus/" + f.name, crashes[i][1])
            continue
        p, minx = g.problem_from_lines(c)
        n = p["n"]
        S = list(range(1, n + 1)) if minx in (None, "all") else minx
        ok = g.resolves(p, S)
        k = c.index("end") + 1                      # c[k] = "new …"; answers start at out[2]
        alg = c[k].split()[1]
        out = impl[i]
        if model is not None:
            miss = [j for j, (a, b) in enumerate(zip(out, model[i]))
                    if not (b == "not-modelled" or (not ok and a != b and b.startswith("throw")))
                    and not lines_equal(a, b, rtol=1e-9, atol=1e-9)]
            if miss:
                x_at, qxx_at = judged_positions(c[k + 1:])
                okj, why = XJudge(corr, "ls_corpus_x").misses(p, S, out, model[i], miss, x_at=x_at, qxx_at=qxx_at, resolving=ok)
                if not okj:
                    corr.disagree("ls-corpus", c, out, model[i], f.name + (": " + why if why else ""))
        bad = []
        qs = c[k + 1:]
        if ok and qs[:4] == ["x", "r", "rtr", "defect"]:
            bad += c01.oracle(p, S, out[:6], g.reference(p, S))
        if not ok and qs and qs[0] == "x" and not (len(out) > 2 and out[2].startswith("throw")):
            bad.append(f"subset {S} does not resolve the defect {p['defect']} but unknowns() -> {out[2][:60] if len(out) > 2 else ''}")
        li = [j for j, q in enumerate(qs) if q.startswith("lindep ")]
        if li and p["defect"]:
            fl = lindep_flags(out, 2 + li[0], n)
            bad += ["lindep not answered"] if fl is None else lindep_oracle(p, fl)
        if bad:
            corr.fail(f"{alg}/solver ({f.name}): " + "; ".join(bad), rep,
                      f"{alg}/solver/lindep" if any("flagged" in b for b in bad) else f"{alg}/solver", " | ".join(out[:8]))


# quick-tier minimum of the case mix (thorough has more of everything); not met -> inconclusive
LS_MIN = {"ls_groups_defect_3": 20, "ls_groups_defect_4": 15, "ls_groups_defect_ge3_proper_resolving": 25,
          "ls_groups_defect_ge3_proper_not_resolving": 6, "ls_chol_gs_cases_swapped": 20, "ls_chol_gs_cases_offid": 10,
          "ls_env_problems_rcm_not_involutive": 8, "ls_env_problems_perm_invp_distinguishable": 4,
          "ls_lindep_oracle_refused": 20, "ls_lindep_oracle_accepted": 60}


def check_ls(ctx, corr, nprob, with_model=True, quota=None):
    exe = c01.harness(ctx)
    ls_corpus(ctx, corr, exe, with_model)
    groups, cases = ls_cases(ctx, nprob, quota)
    model = None
    with concurrent.futures.ThreadPoolExecutor(max_workers=2) as ex:
        fm = ex.submit(g.run_cases_par, ctx.driver("drv_ls"), cases, 3) if with_model else None
        impl, crashes = g.run_cases_par(exe, cases, 4)
        if fm:
            model, _ = fm.result()
    if with_model:
        for ci, (sw, off) in gs_trace(ctx, groups, cases).items():
            corr.count("ls_chol_gs_cases_traced")
            if sw:
                corr.count("ls_chol_gs_cases_swapped")
            if off:
                corr.count("ls_chol_gs_cases_offid")
    invps = env_orderings(exe, groups, cases)
    seen_p = set()
    judge = XJudge(corr, "ls_x")
    for gi, grp in enumerate(groups):
        p = grp["p"]
        n, nq = p["n"], len(grp["qs"])
        nontrivial = p["defect"] > 0 or not p["unit_cov"]
        outs = {}
        for ci, alg, entry in grp["idx"]:
            c = cases[ci]
            corr.case(key=(" ".join(c)) if nontrivial else None,
                      sample={"ops": c[:c.index("end") + 6] + ["..."], "impl": impl[ci][:6]} if ci in (0, 9) else None)
            corr.count(f"ls_alg_{alg}_{entry}")
            corr.count(f"ls_cases_defect_{p['defect']}")
            if ci in crashes:
                corr.fail("solver crashed / sanitizer report", {"stream": "ls", "ops": c}, f"{alg}/{entry}", crashes[ci][1])
                continue
            outs[(alg, entry)] = impl[ci]
            if model is not None:
                nm, miss = False, []
                for k, (a, b) in enumerate(zip(impl[ci], model[ci])):
                    if b == "not-modelled":
                        nm = True
                        continue
                    # the null_space-style tail after a refused unknowns(): the history-free model keeps refusing where
                    # the object answers defect()/lindep() (C04's business): compared only where the model answers
                    if not grp["ok"] and k >= 2 + nq and a != b and b.startswith("throw"):
                        nm = True
                        continue
                    if not lines_equal(a, b, rtol=1e-9, atol=1e-9):
                        miss.append(k)
                if miss:
                    # a miss only in x / q_xx answers of a resolving subset: wrong, or rounding on an ill-conditioned
                    # problem?  decided against the EXACT solution / cofactors (tools/lib/exact_verdict.py); anything
                    # else is a disagreement as before
                    x_at, qxx_at = judged_positions(grp["qs"])
                    okj, why = judge.misses(p, grp["S"], impl[ci], model[ci], miss, x_at=x_at, qxx_at=qxx_at, resolving=grp["ok"])
                    if not okj:
                        corr.disagree("ls", c, impl[ci], model[ci], f"{alg}/{entry}" + (": " + why if why else ""))
                elif len(impl[ci]) != len(model[ci]):
                    corr.disagree("ls", c, impl[ci], model[ci], "length")
                corr.count("ls_not_modelled" if nm else "ls_modelled")
        corr.count("ls_groups")
        corr.count("ls_singular" if p["defect"] else "ls_regular")
        corr.count(f"ls_groups_defect_{p['defect']}")
        corr.count("ls_correlated" if not p["unit_cov"] else "ls_unit_cov")
        corr.count("ls_subset_resolves" if grp["ok"] else "ls_subset_not_resolving")
        corr.count("ls_family_" + p["family"])
        if p["defect"] >= 3 and grp["proper"]:
            corr.count("ls_groups_defect_ge3_proper_" + ("resolving" if grp["ok"] else "not_resolving"))
        # ---- lindep on the implementation, all four solvers, refused and accepted ---------------------------
        # which unknowns are flagged may differ between algorithms (finding F7 / C02_flags_differ): measured;
        # every flag set by itself must be the complement of a column basis inside the support of the kernel
        fl = {}
        for (alg, entry), out in outs.items():
            if entry != "solver" or not p["defect"]:
                continue
            off = 2 + nq + (0 if grp["ok"] else 2)
            f = lindep_flags(out, off, n)
            ops = next(cases[ci] for ci, a, e in grp["idx"] if (a, e) == (alg, entry))
            rep = {"stream": "ls", "ops": ops, "subset": grp["S"], "resolves": grp["ok"]}
            if f is None:
                corr.fail(f"{alg}/solver: lindep(1..{n}) on a singular problem (defect {p['defect']}, subset "
                          f"{'resolves' if grp['ok'] else 'does not resolve'}) not answered: {' | '.join(out[off:off + 3])}",
                          rep, f"{alg}/solver/lindep", " | ".join(out[:4]))
                continue
            fl[alg] = tuple(f)
            corr.count("ls_lindep_oracle_" + ("accepted" if grp["ok"] else "refused"))
            bad = lindep_oracle(p, f)
            if alg == "svd" and bad and sum(f) == p["defect"]:
                # F7-svd (known finding registered for C20; Lean: C20_svd_lindep): SVD::lindep(i) tests the i-th
                # SINGULAR VALUE, not unknown i.  Counted here; reported as a failure (classified F7-svd) once a line
                # with that id exists for C02 in known_findings.jsonl.  The number of flags (what does hold,
                # C20_svd_lindep_partial) stays a failure for svd too.
                corr.count("ls_svd_lindep_F7svd_cases")
                if F7SVD_REGISTERED:
                    corr.fail(f"svd/solver lindep: " + "; ".join(bad), rep, "svd/solver/lindep", " | ".join(out[off:off + n]))
                bad = []
            if not grp["ok"] and out[off - 1] != f"int {p['defect']}":
                bad.append(f"defect() after the refused unknowns() -> '{out[off - 1]}', n - rank A = {p['defect']}")
            if bad:
                corr.fail(f"{alg}/solver lindep: " + "; ".join(bad), rep, f"{alg}/solver/lindep", " | ".join(out[off:off + n]))
            if alg == "env" and grp["pi"] in invps and grp["pi"] not in seen_p:
                seen_p.add(grp["pi"])
                invp = invps[grp["pi"]]
                if sorted(invp) == list(range(1, n + 1)):
                    perm = [0] * n
                    for i, q in enumerate(invp):
                        perm[q - 1] = i + 1
                    if perm != invp:
                        corr.count("ls_env_problems_rcm_not_involutive")
                        Z = {invp[i] for i in range(n) if f[i]}
                        f2 = [1 if perm[i] in Z else 0 for i in range(n)]
                        if f2 != list(f) and lindep_oracle(p, f2):
                            corr.count("ls_env_problems_perm_invp_distinguishable")
                    corr.count("ls_env_problems_probed")
        if p["defect"] and len(set(fl.values())) > 1:
            corr.count("ls_groups_where_flag_sets_differ")
        for what, site in ls_group_oracle(grp, outs):
            alg = site.split("/")[0].split()[0]
            ops = next((cases[ci] for ci, a, e in grp["idx"] if a == alg), cases[grp["idx"][0][0]])
            allops = [cases[ci] for ci, a, e in grp["idx"]]
            corr.fail(what, {"stream": "ls", "ops": ops, "group": allops, "subset": grp["S"], "resolves": grp["ok"]}, site,
                      " | ".join(outs.get((alg, "solver"), outs.get((alg, "adj"), []))[:8]))
    judge.finish(len(cases))
    tot = corr.stats.get("ls_groups", 0)
    if tot and corr.stats.get("ls_singular", 0) < 0.25 * tot:
        corr.inconclusive.append("fewer than 25% singular problems (solver level)")
    if tot and corr.stats.get("ls_subset_not_resolving", 0) < 0.05 * tot:
        corr.inconclusive.append("fewer than 5% non-resolving subsets (solver level)")
    for k, need in LS_MIN.items():
        if not with_model and k.startswith("ls_chol_gs"):
            continue
        if tot and corr.stats.get(k, 0) < need:
            corr.inconclusive.append(f"solver level case mix: {k} = {corr.stats.get(k, 0)} < {need}")


# =============================================================================================
# (b) executable level: gama-local x 4 algorithms, gama-g3 x 4 algorithms
# =============================================================================================

def build_gama_retry(ctx, **kw):
    for attempt in range(3):
        try:
            return ctx.build_gama(**kw)
        except BuildError as e:
            if attempt == 2 or "No such file or directory" not in e.log:
                raise
            time.sleep(3 + 5 * attempt)


def run_gama(gama, path, alg, out_prefix, extra=()):
    txt, xml = str(out_prefix) + ".txt", str(out_prefix) + ".xml"
    for f in (txt, xml):
        try:
            os.unlink(f)
        except OSError:
            pass
    for attempt in range(4):
        try:
            rc, out, err = sh([str(gama / "gama-local"), str(path), "--algorithm", alg, "--language", "en",
                               "--text", txt, "--xml", xml] + list(extra), timeout=120)
            break
        except OSError:
            if attempt == 3:
                raise
            time.sleep(2 + 3 * attempt)
        except subprocess.TimeoutExpired:
            return {"rc": -9, "text": "", "xml": "", "out": "<timeout>", "err": ""}
    t = Path(txt).read_text(errors="replace") if Path(txt).exists() else ""
    x = Path(xml).read_text(errors="replace") if Path(xml).exists() else ""
    return {"rc": rc, "text": t, "xml": x, "out": out, "err": err}


def text_removed_points(text):
    m = re.search(r"Removed points and coordinates\n\*+\n\n(.*?)\n\n", text, re.S)
    res = []
    if m:
        for l in m.group(1).splitlines():
            mm = re.match(r"\s*(\S+)\s{3}(.*\S)\s*$", l)
            if mm:
                res.append((mm.group(1), mm.group(2)))
    return res


def text_verdict(r):
    """what gama-local said: 'adjusted' | 'free-network-diagnosis' | 'error:<description>' | 'other'"""
    allt = r["text"] + r["out"]
    if re.search(r"<error ", r["xml"]):
        d = re.findall(r"<description>(.*?)</description>", r["xml"], re.S)
        return "error:" + " / ".join(x.strip() for x in d[1:] or d)
    if "can not be adjusted" in allt or "Free network" in allt and "singular variables" in allt:
        return "free-network-diagnosis"
    if r["rc"] == 0 and "<adjusted>" in r["xml"]:
        return "adjusted"
    m = re.search(r"\*{6} (.*)", allt)
    if m:
        return "error:" + m.group(1).strip()
    return "other"


def text_singular_variables(r):
    """the 'index type point' table of the free-network diagnosis: [(index, type, point id)]"""
    allt = r["out"] + r["text"]
    m = re.search(r"index\s+type\s+point\s*\n-+\n\n(.*?)\n\n", allt, re.S)
    res = []
    if m:
        for l in m.group(1).splitlines():
            t = l.split()
            if len(t) >= 3 and t[0].isdigit():
                res.append((int(t[0]), t[1], t[2]))
    return res


_TOL = {  # innermost tag -> (rtol, atol); see RULE / report
    "x": (0, 2e-6), "y": (0, 2e-6), "z": (0, 2e-6), "X": (0, 2e-6), "Y": (0, 2e-6), "Z": (0, 2e-6),
    "adj": (1e-9, 5e-6), "approx": (1e-9, 5e-6), "obs": (1e-12, 1e-9),
    "stdev": (2e-5, 2e-5), "major": (2e-5, 2e-5), "minor": (2e-5, 2e-5), "alpha": (0, 2e-4),
    "qrr": (0, 2.1e-3), "f": (2e-5, 2.1e-3), "std-residual": (2e-4, 2.1e-3), "err-obs": (2e-4, 2.1e-3), "err-adj": (2e-4, 2.1e-3),
    "sum-of-squares": (5e-6, 1e-9), "apriori": (1e-6, 0), "aposteriori": (5e-6, 1e-7), "confidence-scale": (1e-6, 0),
    "ratio": (0, 1.1e-3), "lower": (0, 1.1e-3), "upper": (0, 1.1e-3), "probability": (0, 0),
    "dx": (1e-9, 5e-6), "dy": (1e-9, 5e-6), "dz": (1e-9, 5e-6),
}
_num = re.compile(r"^[+-]?(\d+\.?\d*|\.\d+)([eE][+-]?\d+)?$")


def xml_tokens(xml):
    xml = re.sub(r'gama-local-algorithm="[^"]*"', "", xml)
    xml = re.sub(r"<!--.*?-->", "", xml, flags=re.S)
    toks, stack = [], []
    for m in re.finditer(r"<(/?)([A-Za-z0-9_-]+)([^>]*?)(/?)>|([^<]+)", xml):
        if m.group(2):
            tag = m.group(2)
            if m.group(1):
                if stack:
                    stack.pop()
                toks.append(("/" + tag, None))
            else:
                toks.append((tag, m.group(3).strip()))
                if not m.group(4):
                    stack.append(tag)
        else:
            for w in m.group(5).split():
                toks.append((None, (stack[-1] if stack else "", w)))
    return toks


def compare_xml(xa, xb):
    """differences between two adjustment XML documents of the same input (other algorithm)"""
    ta, tb = xml_tokens(xa), xml_tokens(xb)
    diffs = []
    flt_scale = max([abs(float(w[1])) for t, w in ta if t is None and w[0] == "flt" and _num.match(w[1])] + [0.0])
    if len(ta) != len(tb):
        return [f"documents have different structure ({len(ta)} vs {len(tb)} tokens)"] + _first_struct_diff(ta, tb)
    ellipse = {}
    for i, ((t1, w1), (t2, w2)) in enumerate(zip(ta, tb)):
        if t1 != t2:
            return diffs + [f"structure differs at token {i}: <{t1}> vs <{t2}>"]
        if t1 is not None:
            if w1 != w2:
                diffs.append(f"<{t1} {w1}> vs <{t2} {w2}>")
            continue
        tag, a = w1
        _, b = w2
        if a == b:
            if tag in ("major", "minor") and _num.match(a):
                ellipse[tag] = float(a)
            continue
        if _num.match(a) and _num.match(b):
            x, y = float(a), float(b)
            if tag in ("major", "minor"):
                ellipse[tag] = x
            if tag == "flt":
                rt, at = 1e-6, 2e-7 * flt_scale + 1e-12
            elif tag == "alpha":
                # direction of a (nearly) circular ellipse is arbitrary; alpha is periodic with pi
                ma, mi = ellipse.get("major", 1.0), ellipse.get("minor", 0.0)
                if ma - mi <= 1e-3 * (ma + 1e-12):
                    continue
                d = abs(x - y) % math.pi
                if min(d, math.pi - d) <= 2e-4 * ma / (ma - mi):
                    continue
                rt, at = 0, 0
            elif re.fullmatch(r"[+-]?\d+", a) and re.fullmatch(r"[+-]?\d+", b) and tag not in _TOL:
                rt, at = 0, 0
            else:
                rt, at = _TOL.get(tag, (1e-6, 1e-6))
            if not abs(x - y) <= at + rt * max(abs(x), abs(y)):
                diffs.append(f"<{tag}> {a} vs {b}")
        else:
            diffs.append(f"<{tag}> '{a}' vs '{b}'")
        if len(diffs) > 12:
            break
    return diffs


def _first_struct_diff(ta, tb):
    for i, (p, q) in enumerate(zip(ta, tb)):
        if p[0] != q[0]:
            return [f"first structural difference at token {i}: {p} vs {q}"]
    return []


def compare_runs(ra, rb):
    """all observable differences between two runs of the same input with different algorithms"""
    d = []
    if ra["rc"] != rb["rc"]:
        d.append(f"exit status {ra['rc']} vs {rb['rc']}")
    va, vb = text_verdict(ra), text_verdict(rb)
    if va != vb:
        d.append(f"verdict '{va}' vs '{vb}'")
    pa, pb = sorted(text_removed_points(ra["text"] + ra["out"])), sorted(text_removed_points(rb["text"] + rb["out"]))
    if pa != pb:
        d.append(f"removed points {pa} vs {pb}")
    if bool(ra["xml"]) != bool(rb["xml"]):
        d.append(f"XML result present: {bool(ra['xml'])} vs {bool(rb['xml'])}")
    elif ra["xml"] and not d:
        d += compare_xml(ra["xml"], rb["xml"])
    if va == vb == "free-network-diagnosis":
        da, db = re.search(r"defect is (\d+)", ra["out"] + ra["text"]), re.search(r"defect is (\d+)", rb["out"] + rb["text"])
        if (da and da.group(1)) != (db and db.group(1)):
            d.append(f"diagnosed defect {da and da.group(1)} vs {db and db.group(1)}")
    return d


def nonfinite(r):
    bad = []
    for name in ("text", "xml", "out"):
        m = re.search(r"(?<![A-Za-z_\-\"'.])[-+]?(nan|inf|infinity)(?![A-Za-z_\-\"'])", r[name], re.I)
        if m:
            ln = r[name].count("\n", 0, m.start())
            bad.append(f"{name} output line {ln + 1}: '{r[name].splitlines()[ln].strip()[:80]}'")
    return bad


# ---- network generator ---------------------------------------------------------------------

def spd_band(rng, sds, band):
    n = len(sds)
    L = [[0.0] * n for _ in range(n)]
    for i in range(n):
        L[i][i] = sds[i]
        for j in range(max(0, i - band), i):
            L[i][j] = rng.choice([-0.5, -0.25, 0.25, 0.5]) * sds[i]
    return [[sum(L[i][k] * L[j][k] for k in range(n)) for j in range(n)] for i in range(n)]


def gen_network(rng):
    """a network that is well determined given its datum definition"""
    dim = rng.choice([2, 2, 2, 3])
    npts = rng.randint(4, 7)
    datum = rng.choice(["fixed", "fixed", "free-all", "free-some", "free-some"])
    if dim == 2:
        kinds = rng.choice([("direction", "distance"), ("distance",), ("direction", "distance", "angle"),
                            ("azimuth", "distance"), ("direction", "distance", "azimuth"), ("angle", "distance")])
    else:
        kinds = rng.choice([("direction", "s-distance", "z-angle"), ("direction", "distance", "dh"),
                            ("direction", "s-distance", "z-angle", "vector"), ("s-distance", "z-angle", "direction", "dh")])
    tags = {"dim": dim, "datum": datum, "kinds": "+".join(kinds)}
    free = datum != "fixed"
    cons = None
    if datum == "free-some":
        ids = [f"P{k + 1}" for k in range(npts)]
        cons = sorted(rng.sample(ids, rng.randint(2, npts - 1)))
    net = gn.make_network(rng, npts=npts, dim=dim, nfixed=2, kinds=kinds, density=rng.choice([0.6, 0.8, 1.0]),
                          noise=1.0, free=free, constrained=cons, heights=(dim == 3 and rng.random() < 0.5))
    net["params"]["tol-abs"] = 1000
    # correlated clusters
    if rng.random() < 0.45:
        tags["correlated"] = 1
        for o in net["obs"]:
            if o["kind"] == "obs" and len(o["items"]) >= 2 and rng.random() < 0.6:
                o["cov"] = spd_band(rng, [it["stdev"] for it in o["items"]], rng.randint(1, len(o["items"]) - 1))
            if o["kind"] == "vectors" and rng.random() < 0.7:
                n = 3 * len(o["items"])
                o["cov"] = spd_band(rng, [rng.choice([2.0, 3.0, 5.0]) for _ in range(n)], rng.randint(1, min(5, n - 1)))
                o["band"] = None
    if rng.random() < 0.3:
        ids = [p for p, q in net["points"].items() if q["status"] != "fix"]
        pick = rng.sample(ids, min(len(ids), rng.randint(1, 2)))
        items = []
        for pid in pick:
            q = net["points"][pid]
            it = {"id": pid, "x": q["x"] + rng.gauss(0, 0.003), "y": q["y"] + rng.gauss(0, 0.003)}
            if dim == 3 and rng.random() < 0.5:
                it["z"] = q["z"] + rng.gauss(0, 0.003)
            items.append(it)
        n = sum(len(it) - 1 for it in items)
        net["obs"].append({"kind": "coords", "items": items, "cov": spd_band(rng, [rng.choice([3.0, 5.0, 8.0]) for _ in range(n)],
                                                                            rng.randint(0, n - 1))})
        tags["coords"] = 1
    # removed items
    if rng.random() < 0.3:
        # a point without coordinates seen by a single direction/distance: cannot be computed -> removed
        st = rng.choice([o for o in net["obs"] if o["kind"] == "obs"])
        net["points"]["U1"] = {"x": 1.0, "y": 2.0, "status": "adj", "approx": False}
        if dim == 3:
            net["points"]["U1"]["z"] = 3.0
        st["items"].append({"t": "distance", "to": "U1", "val": 123.456, "stdev": 5.0})
        if "cov" in st:
            del st["cov"]
        tags["removed_point"] = 1
    if rng.random() < 0.2:
        cand = [(o, it) for o in net["obs"] if o["kind"] == "obs" and "cov" not in o for it in o["items"]
                if it["t"] in ("distance", "s-distance") and it["to"] != "U1"]
        if cand:
            o, it = rng.choice(cand)
            it["val"] += 7.5         # metres; tol-abs = 1000 mm
            tags["gross_error"] = 1
    return net, tags


def net_to_gkf(net, tags=None):
    return gn.to_gkf(net, nd=10, description="C02 " + json.dumps(tags or {}, sort_keys=True))


def run_net4(gama, gkf, work, name, extra=()):
    p = Path(work) / f"{name}.gkf"
    p.write_text(gkf)
    return {a: run_gama(gama, p, a, Path(work) / f"{name}-{a}", extra) for a in GALGS}


def net_oracle(runs):
    """pairwise equality of everything observable across the four algorithms; returns [(what, site, detail)]"""
    bad = []
    ref = runs["envelope"]
    for a in GALGS:
        r = runs[a]
        if r["rc"] not in (0, 1) or "Sanitizer" in r["err"] or r["rc"] == -9:
            bad.append((f"gama-local --algorithm {a} ended abnormally (rc={r['rc']})", f"gama-local/{a}", r["err"][-1500:]))
    if bad:
        return bad
    for a in GALGS[1:]:
        d = compare_runs(ref, runs[a])
        if d:
            bad.append((f"gama-local --algorithm envelope vs {a}: " + "; ".join(d[:6]), f"gama-local/{a}",
                        (runs[a]["out"] + runs[a]["err"])[-600:]))
    return bad


def check_nets(ctx, corr, n):
    gama = build_gama_retry(ctx, sanitize=False, targets=("gama-local", "gama-g3"))
    nets = []
    for f in sorted((ctx.verif / "corpus" / "C02").glob("*.gkf")):
        nets.append((f.read_text(), {"corpus": f.name}, None))
    for _ in range(n):
        net, tags = gen_network(ctx.rng)
        nets.append((net_to_gkf(net, tags), tags, net))
    with tempfile.TemporaryDirectory(prefix="c02-") as work:
        with concurrent.futures.ThreadPoolExecutor(max_workers=12) as ex:
            futs = [ex.submit(run_net4, gama, gkf, work, f"n{i}") for i, (gkf, tags, net) in enumerate(nets)]
            results = [f.result() for f in futs]
    for i, ((gkf, tags, net), runs) in enumerate(zip(nets, results)):
        v = text_verdict(runs["envelope"])
        defect = re.search(r"<defect>(\d+)</defect>", runs["envelope"]["xml"])
        nontrivial = bool(tags.get("correlated") or tags.get("removed_point") or tags.get("gross_error") or tags.get("coords")
                          or (defect and int(defect.group(1)) > 0))
        corr.case(key=gkf if nontrivial else None,
                  sample={"net": tags, "verdict": v, "rc": runs["envelope"]["rc"]} if i < 2 else None)
        corr.count("net_cases")
        corr.count("net_verdict_" + v.split(":")[0])
        for k, val in tags.items():
            if k in ("dim", "datum"):
                corr.count(f"net_{k}_{val}")
            elif k in ("correlated", "removed_point", "gross_error", "coords"):
                corr.count(f"net_{k}")
        if defect:
            corr.count(f"net_defect_{defect.group(1)}")
        if text_removed_points(runs["envelope"]["text"]):
            corr.count("net_with_removed_points")
        for what, site, detail in net_oracle(runs):
            corr.fail(what, {"stream": "net", "gkf": gkf, "tags": tags}, site, detail)
        for a in GALGS:
            for b in nonfinite(runs[a]):
                corr.fail(f"gama-local --algorithm {a} printed a non-finite number: {b}", {"stream": "net", "gkf": gkf, "tags": tags},
                          f"gama-local/{a}")
    tot = corr.stats.get("net_cases", 0)
    if tot and corr.stats.get("net_verdict_adjusted", 0) < 0.6 * tot:
        corr.inconclusive.append("fewer than 60% of the generated networks were adjusted (network level)")


# ---- gama-g3 on the archived inputs -----------------------------------------------------------

_G3TOL = {"dn": (0, 2e-3), "de": (0, 2e-3), "du": (0, 2e-3), "sum-of-squares": (1e-5, 1e-9), "aposteriori-variance": (1e-5, 1e-9)}


def g3_compare(xa, xb):
    def strip(x):
        x = re.sub(r"<algorithm>.*?</algorithm>", "", x, flags=re.S)
        return xml_tokens(x)
    ta, tb = strip(xa), strip(xb)
    if len(ta) != len(tb):
        return [f"documents have different structure ({len(ta)} vs {len(tb)} tokens)"] + _first_struct_diff(ta, tb)
    cscale = max([abs(float(w[1])) for t, w in ta if t is None and re.fullmatch(r"c[a-z]{2}", w[0]) and _num.match(w[1])] + [0.0])
    diffs = []
    for i, ((t1, w1), (t2, w2)) in enumerate(zip(ta, tb)):
        if t1 != t2:
            return diffs + [f"structure differs at token {i}: <{t1}> vs <{t2}>"]
        if t1 is not None or w1 == w2:
            continue
        tag, a = w1
        b = w2[1]
        if _num.match(a) and _num.match(b):
            x, y = float(a), float(b)
            if re.fullmatch(r"c[a-z]{2}", tag):
                rt, at = 2e-6, 2e-7 * cscale
            elif tag.endswith("-correction") or tag.endswith("-adjusted") or tag.endswith("-given"):
                rt, at = 0, 2.1e-7 if not tag[0] in "bl" else 2.1e-6
            else:
                rt, at = _G3TOL.get(tag, (1e-5, 1e-6))
            if not abs(x - y) <= at + rt * max(abs(x), abs(y)):
                diffs.append(f"<{tag}> {a} vs {b}")
        else:
            ma, mb = re.fullmatch(r"(-?\d+)-(\d+)-([\d.]+)", a), re.fullmatch(r"(-?\d+)-(\d+)-([\d.]+)", b)
            if ma and mb and ma.group(1, 2) == mb.group(1, 2) and abs(float(ma.group(3)) - float(mb.group(3))) <= 2.1e-6:
                continue
            diffs.append(f"<{tag}> '{a}' vs '{b}'")
        if len(diffs) > 8:
            break
    return diffs


def check_g3(ctx, corr):
    gama = build_gama_retry(ctx, sanitize=False, targets=("gama-local", "gama-g3"))
    # the two sjtsk05 inputs (1.5 / 3.8 MB, thousands of unknowns) take minutes per dense algorithm (> 4 min measured):
    # only the six small archives are run
    limit = 100_000
    inputs = sorted(f for f in (ctx.repo / "tests/gama-g3/input").rglob("*.xml")
                    if not f.name.endswith("-adj.xml") and f.stat().st_size < limit)
    with tempfile.TemporaryDirectory(prefix="c02g3-") as work:
        for f in inputs:
            res = {}
            for a in GALGS:
                out = Path(work) / f"{f.stem}-{a}.xml"
                try:
                    rc, so, se = sh([str(gama / "gama-g3"), "--algorithm", a, str(f), str(out)], timeout=900 if ctx.thorough else 60)
                except subprocess.TimeoutExpired:
                    rc, so, se = -9, "", "timeout"
                res[a] = (rc, out.read_text(errors="replace") if out.exists() else "", so + se)
            corr.case(key="g3 " + f.name, sample=None)
            corr.count("g3_inputs")
            for a in GALGS[1:]:
                d = []
                if res[a][0] != res["envelope"][0]:
                    d.append(f"exit status {res['envelope'][0]} vs {res[a][0]}")
                else:
                    d = g3_compare(res["envelope"][1], res[a][1])
                if d:
                    corr.fail(f"gama-g3 {f.name}: --algorithm envelope vs {a}: " + "; ".join(d[:5]),
                              {"stream": "g3", "input": str(f.relative_to(ctx.repo))}, f"gama-g3/{a}", res[a][2][-800:])
            for a in GALGS:
                if re.search(r"(?<![A-Za-z_\-])(nan|inf)(?![A-Za-z_\-])", res[a][1], re.I):
                    corr.fail(f"gama-g3 {f.name} --algorithm {a} printed a non-finite number", {"stream": "g3", "input": str(f.relative_to(ctx.repo))},
                              f"gama-g3/{a}")


# =============================================================================================
# (c) decision layer: model NetDecision vs real LocalNetwork::null_space / GeneralParameters
# =============================================================================================

def nd_harness(ctx):
    d = build_gama_retry(ctx, sanitize=True)
    objs = sorted(str(p) for p in (d / "CMakeFiles" / "libgama.dir").rglob("*.o"))
    if not objs:
        raise BuildError("c02_netdecision", "no libgama objects under " + str(d))
    return ctx.build_cpp("c02_netdecision", [ctx.verif / "harness" / "c02_netdecision.cpp"], libs=objs + ["-lexpat"],
                         includes=[ctx.verif / "harness"])


ND_KINDS = ["BadRegularization", "BadRegularization", "BadRegularization", "Singular", "NoConvergence"]


def nd_unknowns(pts):
    us = []
    for pid, xy, z in pts:
        if xy in "ac":
            us += [f"X:{pid}", f"Y:{pid}"]
        if z in "ac":
            us.append(f"Z:{pid}")
    return us


def nd_key(pts):
    return ";".join(f"{pid}:{xy}{z}" for pid, xy, z in pts if (xy, z) != ("u", "u")) or "-"


def nd_gkf(pts):
    out = ['<?xml version="1.0" ?>', '<gama-local xmlns="http://www.gnu.org/software/gama/gama-local">', "<network>",
           '<parameters sigma-apr="10" conf-pr="0.95" tol-abs="1000" sigma-act="apriori" />', "<points-observations>"]
    obs, n = [], 0
    for k, (pid, xy, z) in enumerate(pts):
        a, o = f'<point id="{pid}"', f'<point id="{pid}"'
        if xy != "u":
            a += f' x="{100 + 10 * k}" y="{200 + 7 * k}"'
            o += f' x="{100 + 10 * k}.001" y="{200 + 7 * k}.002"'
            n += 2
        if z != "u":
            a += f' z="{50 + k}"'
            o += f' z="{50 + k}.003"'
            n += 1
        fix = ("xy" if xy == "f" else "") + ("z" if z == "f" else "")
        adj = {"a": "xy", "c": "XY"}.get(xy, "") + {"a": "z", "c": "Z"}.get(z, "")
        if fix:
            a += f' fix="{fix}"'
        if adj:
            a += f' adj="{adj}"'
        out.append(a + " />")
        obs.append(o + " />")
    out.append("<coordinates>")
    out += obs
    out.append(f'<cov-mat dim="{n}" band="0">' + " ".join(["1"] * n) + "</cov-mat>")
    out += ["</coordinates>", "</points-observations>", "</network>", "</gama-local>", ""]
    return "\n".join(out)


def nd_scenario(rng):
    """a network of points observed by their own coordinates + a table of scripted solver answers for every
    configuration reachable by switching adjusted/constrained coordinate groups off"""
    npts = rng.randint(1, 4)
    pts = []
    for k in range(npts):
        while True:
            xy, z = rng.choice("uaacf"), rng.choice("uuaacf")
            if (xy, z) != ("u", "u"):
                break
        pts.append(("ABCDEFG"[k], xy, z))
    if not any(c in "ac" for _, xy, z in pts for c in (xy, z)):
        pts[0] = (pts[0][0], "a", pts[0][2])
    groups = [(i, g) for i, (pid, xy, z) in enumerate(pts) for g, st in ((1, xy), (2, z)) if st in "ac"]
    style = rng.choice(["plain", "plain", "refusing", "huge", "wild"])
    lines = [f"point {pid} {xy} {z}" for pid, xy, z in pts] + ["m0 " + float2hex(10.0)]
    table = {}
    for mask in range(1 << len(groups)):
        cur = [list(p) for p in pts]
        for b, (i, g) in enumerate(groups):
            if mask >> b & 1:
                cur[i][g] = "u"
        cur = [tuple(c) for c in cur]
        us = nd_unknowns(cur)
        n = len(us)
        npt = sum(1 for _, xy, z in cur if (xy, z) != ("u", "u"))
        q = r = "ok"
        defect, flags = 0, []
        if n:
            u = rng.random()
            if style == "plain":
                defect = rng.choice([0, 0, 0, 1])
            elif style == "refusing":
                defect = rng.choice([0, 1, 1, 2, 3])
            else:
                defect = rng.choice([0, 0, 1, 2])
            defect = min(defect, n)
            flags = sorted(rng.sample(range(1, n + 1), defect))
            refuse = defect > 0 and rng.random() < (0.75 if style == "refusing" else 0.4)
            if refuse:
                which = rng.choice(["both", "both", "q", "r"])
                q = "BadRegularization" if which in ("both", "q") else "ok"
                r = "BadRegularization" if which in ("both", "r") else "ok"
            if style != "wild" and (q != "ok" or r != "ok") and not flags:
                flags = [rng.randint(1, n)]
            if style == "wild":
                if rng.random() < 0.2:
                    flags = sorted(rng.sample(range(1, n + 1), rng.randint(0, n)))
                if rng.random() < 0.15:
                    q = rng.choice(ND_KINDS)
                if rng.random() < 0.15:
                    r = rng.choice(ND_KINDS)
        qxx = []
        for _ in range(n):
            v = rng.choice([0.01, 0.25, 1.0, 4.0, 100.0])
            if style in ("huge", "wild") and rng.random() < 0.25:
                v = rng.choice([1e6, 1.0000001e6, 1e7, 4e8, 0.99e6, float("nan"), -1.0, float("inf")])
            qxx.append(v)
        nobs = sum((2 if xy != "u" else 0) + (1 if z != "u" else 0) for _, xy, z in cur)
        table[nd_key(cur)] = {"unknowns": us, "nobs": nobs, "npts": npt}
        lines.append("state %s %s nobs=%d npts=%d defect=%d flags=%s qxx=%s q=%s r=%s" % (
            nd_key(cur), ",".join(us) or "-", nobs, npt, defect, ",".join(map(str, flags)) or "-",
            ",".join(float2hex(v) for v in qxx) or "-", q, r))
    return pts, lines, table, style


def check_decision(ctx, corr, n):
    exe = nd_harness(ctx)
    with tempfile.TemporaryDirectory(prefix="c02nd-") as work:
        cases, meta = [], []
        for k in range(n):
            pts, lines, table, style = nd_scenario(ctx.rng)
            gkf = nd_gkf(pts)
            p = Path(work) / f"s{k}.gkf"
            p.write_text(gkf)
            cases.append(lines + [f"gkf {p}", "run"])
            meta.append((pts, table, style, gkf))
        impl, crashes = run_cases(exe, cases)
        model, _ = run_cases(ctx.driver("drv_netdecision"), cases)
    for i, (c, (pts, table, style, gkf)) in enumerate(zip(cases, meta)):
        rep = {"stream": "nd", "ops": [l for l in c if not l.startswith("gkf ")], "gkf": gkf}
        res = [l for l in impl[i] if l.startswith(("removed", "verdict"))]
        nontrivial = any(l.startswith("removed") and l != "removed -" for l in res) or any("cannot" in l or "exception" in l for l in res)
        corr.case(key=" ".join(rep["ops"]) if nontrivial else None,
                  sample={"ops": rep["ops"][:8] + ["..."], "impl": impl[i][-3:], "model": model[i][-3:]} if i < 2 else None)
        corr.count("nd_cases")
        corr.count("nd_style_" + style)
        if i in crashes:
            corr.fail("decision harness crashed / sanitizer report", rep, "LocalNetwork::null_space", crashes[i][1])
            continue
        for l in res:
            if l.startswith("verdict"):
                corr.count("nd_" + "_".join(l.split()[:3] if "exception" in l else l.split()[:2]))
            if l.startswith("removed") and l != "removed -":
                corr.count("nd_with_removals")
                corr.maxstat("nd_max_removed", len(l.split()) - 1)
        # the generator's world is the real project_equations(): unknown map and counts as predicted
        for l in impl[i]:
            t = l.split()
            if t and t[0] == "unscripted":
                corr.disagree("nd-world", c, impl[i], model[i], "configuration not in the scenario table: " + l)
            if t and t[0] == "view":
                want = table.get(t[1])
                got = {"unknowns": [] if t[2] == "-" else t[2].split(","), "nobs": int(t[3].split("=")[1]), "npts": int(t[4].split("=")[1])}
                corr.count("nd_views")
                if want is None or want["unknowns"] != got["unknowns"] or want["nobs"] != got["nobs"]:
                    corr.disagree("nd-world", c, impl[i], [json.dumps(want)], "project equations differ from the scenario's prediction: " + l)
                    break
        if res != model[i] and not any(d["case"] is c for d in corr.disagreements):
            corr.disagree("nd", c, impl[i], model[i], "removed points / verdict")
    tot = corr.stats.get("nd_cases", 0)
    if tot and corr.stats.get("nd_with_removals", 0) < 0.2 * tot:
        corr.inconclusive.append("fewer than 20% decision scenarios with a removal")


# ---------------------------------------------------------------------------------------------
# (d) numeric half of LocalNetwork::singular_coords(A): model Gama.SingularCoords vs the REAL private member
# ---------------------------------------------------------------------------------------------

def sc_case(rng):
    """k points (ids ascending), xy statuses, index_x/index_y into a dense matrix whose column pairs are
    planted: generic / exactly parallel / nearly parallel around the 1e-12 threshold / orthogonal /
    one zero column / both zero / missing index"""
    k = rng.randint(1, 4)
    rows = rng.randint(1, 6)
    cols = 2 * k
    A = [[0.0] * cols for _ in range(rows)]
    pts, expect = [], {}
    for j in range(k):
        pid = "ABCD"[j]
        st = rng.choice("uaaaccf")
        ix, iy = 2 * j + 1, 2 * j + 2
        if rng.random() < 0.5:
            ix, iy = iy, ix
        kind = rng.choice(["generic", "parallel", "near5", "near6", "near7", "orth", "zero1", "zero2", "noindex"])
        a = [float(rng.randint(-9, 9)) for _ in range(rows)]
        if all(v == 0 for v in a):
            a[0] = 3.0
        if kind == "generic":
            b = [rng.uniform(-10, 10) for _ in range(rows)]
        elif kind == "parallel":
            lam = rng.choice([0.5, -2.0, 4.0, 1.0, -0.25])
            b = [lam * v for v in a]
        elif kind.startswith("near"):
            eps = {"near5": 1e-5, "near6": 1e-6, "near7": 1e-7}[kind]
            lam = rng.choice([0.5, -2.0, 1.0])
            b = [lam * v + eps * rng.uniform(-1, 1) for v in a]
        elif kind == "orth":
            a = [0.0] * rows
            b = [0.0] * rows
            a[0] = float(rng.randint(1, 9))
            if rows > 1:
                b[1] = float(rng.randint(1, 9))
            else:
                kind = "zero1"
        elif kind == "zero1":
            b = [0.0] * rows
            if rng.random() < 0.5:
                a, b = b, a
        elif kind == "zero2":
            a = [0.0] * rows
            b = [0.0] * rows
        else:
            b = [rng.uniform(-10, 10) for _ in range(rows)]
        for r in range(rows):
            A[r][ix - 1] = a[r]
            A[r][iy - 1] = b[r]
        if kind == "noindex":
            if rng.random() < 0.5:
                ix = 0
            else:
                iy = 0
        pts.append((pid, st, ix, iy))
        live = st in "ac"
        if live:
            if kind in ("parallel", "zero2", "noindex"):
                expect[pid] = True
            elif kind in ("orth", "zero1") or (kind == "generic" and rows >= 2):
                expect[pid] = False if kind != "generic" else None
        else:
            expect[pid] = False
    line = f"sc {k} " + " ".join(f"{p} {s} {i} {j}" for p, s, i, j in pts) + f" {rows} {cols} " + \
        " ".join(float2hex(A[r][c]) for r in range(rows) for c in range(cols))
    return [line], pts, expect


def check_singular(ctx, corr, n):
    exe = nd_harness(ctx)
    cases, meta = [], []
    for _ in range(n):
        c, pts, expect = sc_case(ctx.rng)
        cases.append(c)
        meta.append((pts, expect))
    impl, crashes = run_cases(exe, cases)
    model, _ = run_cases(ctx.driver("drv_netdecision"), cases)
    for i, (c, (pts, expect)) in enumerate(zip(cases, meta)):
        rep = {"stream": "sc", "ops": c}
        corr.count("sc_cases")
        if i in crashes:
            corr.case(key=None)
            corr.fail("singular_coords harness crashed / sanitizer report", rep, "LocalNetwork::singular_coords", crashes[i][1])
            continue
        out = impl[i][0] if impl[i] else ""
        t = out.split()
        removed = [] if "|" not in t else [w for w in t[t.index("|") + 1:] if w != "-"]
        corr.case(key=c[0] if removed else None, sample={"ops": c, "impl": impl[i], "model": model[i]} if i < 2 else None)
        if removed:
            corr.count("sc_with_removal")
        if impl[i] != model[i]:
            corr.disagree("sc", c, impl[i], model[i], "singular_coords: flag / statuses / removed ids")
        if not t or t[0] != "sing":
            corr.fail("singular_coords op not answered: " + out, rep, "LocalNetwork::singular_coords")
            continue
        # oracle on the implementation's own answer
        if (t[1] == "1") != bool(removed):
            corr.fail(f"singular_coords returned {t[1]} but removed {removed}", rep, "LocalNetwork::singular_coords")
        for pid, want in expect.items():
            if want is None:
                continue
            if want != (pid in removed):
                corr.fail(f"singular_coords: point {pid} " + ("not removed although its xy columns are exactly dependent / an index is missing"
                          if want else "removed although its xy columns are orthogonal / one is zero / the point is fixed or unused"),
                          rep, "LocalNetwork::singular_coords")
    tot = corr.stats.get("sc_cases", 0)
    if tot and corr.stats.get("sc_with_removal", 0) < 0.2 * tot:
        corr.inconclusive.append("fewer than 20% singular_coords cases with a removal")


def correspond(ctx, corr):
    check_ls(ctx, corr, ctx.size(16, 700))
    ctx.log("solver level done:", {k: v for k, v in corr.stats.items() if k.startswith("ls_g") or k.startswith("ls_s")})
    check_nets(ctx, corr, ctx.size(28, 900))
    check_g3(ctx, corr)
    ctx.log("network level done")
    check_decision(ctx, corr, ctx.size(150, 4000))
    check_singular(ctx, corr, ctx.size(200, 4000))


def search(ctx, broken, corr):
    big = Ctx(ctx.id, "thorough", ctx.seed + 1000)
    big.thorough = True
    c2 = Corr()
    check_ls(big, c2, 250, with_model=False, quota={"free": 80, "parts": 50})
    if not c2.failures:
        check_nets(big, c2, 400)
    c2.failures.sort(key=lambda f: len(json.dumps(f.replay)))
    return c2.failures[:6]


def classify(ctx, failure):
    inp = failure.replay if isinstance(failure.replay, dict) else {}
    w = failure.what
    if inp.get("stream") == "ls" and failure.site == "svd/solver/lindep" and w.startswith("svd/solver lindep:") \
            and " unknowns flagged as dependent " not in w:
        return "F7-svd"       # the count of flags is right, the named unknowns are not (see check_ls)
    # F22: AdjEnvelope/Envelope::cholDec decides the rank with an ABSOLUTE pivot tolerance sqrt(eps) and no pivoting; when the
    # ordering meets a small legitimate pivot (1e-6..1e-4: a coordinate fixed so far only by a nearly collinear
    # observation) the rounding residue of a later dependent pivot is amplified above the tolerance, the defect of a
    # free network is under-counted (2 instead of 3), the cofactors explode and vyrovnani_ strips every point.
    # Signature: ONLY the envelope run deviates, by ending with 'No unknowns have been defined' where the other
    # algorithm adjusts, on a free network.
    if inp.get("stream") == "net" and re.match(
            r"gama-local --algorithm envelope vs (cholesky|gso|svd): (exit status 1 vs 0; )?verdict "
            r"'error:No unknowns have been defined' vs 'adjusted'", w):
        g_ = inp.get("gkf", "")
        if re.search(r'adj="[XYZ]+"', g_) and not re.search(r'fix="', g_):
            return "F22"
    return None


def replay(ctx, payload):
    f = payload.get("failure")
    if not f:
        print(json.dumps(payload.get("no_longer_checks"), indent=1)[:3000])
        return 1
    inp = f["input"]
    print(f["what"])
    if inp.get("stream") == "ls":
        exe = c01.harness(ctx)
        grp = inp.get("group") or [inp["ops"]]
        impl, crashes = run_cases(exe, grp)
        for c, o in zip(grp, impl):
            print("\n".join(c[:c.index("end") + 2]), "...")
            print("->", o[:8], "...")
        print(crashes)
        if f.get("site", "").endswith("/lindep") and not crashes:
            # the lindep oracle re-evaluated on the current tree (exact kernel recomputed from the recorded problem)
            c, o = grp[0], impl[0]
            p, _ = g.problem_from_lines(c)
            k = [i for i, l in enumerate(c) if l.startswith("lindep ")]
            off = k[0] - (c.index("end") + 1) + 1 if k else None
            fl = lindep_flags(o, off, p["n"]) if k else None
            print("lindep ->", fl, "defect", p["defect"])
            bad = ["lindep not answered"] if fl is None else lindep_oracle(p, fl)
            for b in bad:
                print("FAIL", b)
            return 1 if bad else 0
        return 1
    if inp.get("stream") == "net":
        gama = build_gama_retry(ctx, sanitize=False, targets=("gama-local", "gama-g3"))
        with tempfile.TemporaryDirectory(prefix="c02r-") as work:
            runs = run_net4(gama, inp["gkf"], work, "replay")
            for a in GALGS:
                print(f"--algorithm {a}: rc={runs[a]['rc']} verdict={text_verdict(runs[a])} removed={text_removed_points(runs[a]['text'] + runs[a]['out'])}")
            bad = net_oracle(runs)
            for b in bad:
                print("FAIL", b[0])
            return 1 if bad else 0
    if inp.get("stream") == "sc":
        impl, crashes = run_cases(nd_harness(ctx), [inp["ops"]])
        model, _ = run_cases(ctx.driver("drv_netdecision"), [inp["ops"]])
        print("ops  :", inp["ops"])
        print("impl :", impl[0], crashes)
        print("model:", model[0])
        # rc 0 only if the real code agrees with the model again (the oracle needs the generator's plan)
        return 0 if impl[0] == model[0] and not crashes else 1
    print(json.dumps(inp)[:2000])
    return 1
