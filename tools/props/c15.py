"""C15 — dense matrix library (lib/matvec) obeys the algebra it implements."""
import itertools
import math
from fractions import Fraction
from lib.core import *
from gen import c15_dimchecks
from gen import c15_members
from gen import c15_members2
from gen import c15_kernels

ID = "C15"
PROPS_FILES = ["Gama/Props/C15.lean", "Gama/Props/C15SvdDecompose.lean", "Gama/Props/C15Kernels.lean", "Gama/Props/C15Obj.lean"]
LEAN_TARGETS = ["Gama.Props.C15", "Gama.Props.C15SvdDecompose", "Gama.Props.C15Kernels", "Gama.Props.C15Obj"]
DRIVERS = ["drv_matvec"]
RULE = ("object scripts: random histories of ctor/copy/move/assign/move-assign/resize(reset)/write/fill/transpose/dtor "
        "on 8 slots of MemRep, Vec, Mat, SymMat with sizes 0..4 (plus every ordered size pair for b=a then write); "
        "Mat histories with invert: in-place invert / transpose / *= / reset inside copy, move, assign chains between "
        "objects of equal and different sizes (fixed chains for n=1..3 against 6 other shapes + random histories), every "
        "object's value followed with exact rationals; non-trivial = a copy of an inverted object is inverted again; "
        "objhist: random histories of SymMat / Vec / Mat objects (construct, copy, move, assign, reset, element write, set_all, "
        "*=, +=, -=, in-place cholDec / invert) that contain THROWING lines (dimension guards, SymMat(r,c) with r != c, invert / "
        "cholDec of an indefinite matrix, exactly singular Mat, Vec(-1), a+b of different dimensions), each caught, followed by "
        "dumps of every object; non-trivial = at least one dump after a caught throw; "
        "algebra: every operator on all dimension pairs 0..N (N=3 quick, 4 thorough), on shape pairs with equal element "
        "count but different shape (2x3/3x2, 1x4/2x2, 0x3/2x0, ...) for every member and non-member variant, and exhaustively on all operands "
        "with entries in {-1,0,1,2} for the tiny shapes, random small-integer / dyadic operands beyond; "
        "non-trivial = script with at least one copy or assignment between objects of different sizes, or an algebra "
        "line whose operands are non-empty; distinct by the text of the script / line")
LEVEL_TEXT = ("Lean 4 theorems for all sizes and all operation histories: the heap model of MemRep refines independent "
              "values and keeps an ownership invariant; a store of Mat objects (MemRep sub-object + every other persistent data "
              "member, list regenerated from the headers; implicit memberwise copy; in-place transpose and in-place Gauss-Jordan "
              "invert on the block the member pointer pentry addresses, its initialisation regenerated from Mat::invert) refines "
              "the value-level semantics for every history, an operation never changes another object's value, and invert leaves "
              "the two-sided inverse in its target; index maps of Mat/SymMat are bijections; sums, both product "
              "implementations and transposes equal the entrywise definitions; the BadRank guard of every operator "
              "(table regenerated from the headers on each run) implies conformity in shape, IS the guard of the operator model "
              "(45 of 52 entries: model throws BadRank iff the table's guard fires on the reported shapes) and, when it passes, every "
              "checked read of the model stays inside the operands (false, with a witness, only for Vec*TransMat); Mat::invert (Gauss-Jordan "
              "with full pivoting and the permutation undo) returns a two-sided inverse whenever it does not throw; "
              "SymMat::cholDec/solve reproduce and solve (square-root law witnessed jointly over R); SymMat::invert on a positive "
              "definite matrix meets only positive pivots, does not throw and returns the two-sided inverse; the model of SVD::svd returns a "
              "decomposition that reconstructs A with orthonormal factors whenever it returns (any shape), and pinv built from it "
              "satisfies the four Moore-Penrose conditions when the dropped singular values are exact zeros (for double: the "
              "certificate is evaluated per run for tall, square, wide and rank-deficient matrices); the whole function pinv "
              "(decompose, then W_inv and the triple loop) taken from A alone is the Moore-Penrose inverse whenever it returns. "
              "The LOOPS of Mat*Vec, MatBase*Vec, TransMat*Vec, Vec*TransMat, TransVec*Mat, TransVec*MatBase and VecBase::dot are "
              "regenerated statement by statement from the headers (pointers walking the operands) and proved EQUAL to the executed "
              "closed-form models for all operands; their values are Matrix.mulVec / vecMul / dotProduct for all dimensions over "
              "any semiring (Vec*TransMat: what the code computes, known finding). Round 10: also the loops of Mat*Mat (pointer version), "
              "TransMat*Mat, Mat*TransMat, TransMat*TransMat, trans(TransMat) and the storage primitives MatVecBase::mul/add/sub and "
              "operator*= (16 regenerated functions at round 10; 18 since rounds 12-13 with Mat*SymMat and SymMat*SymMat: C15_mat_symmat_source_tie, C15_symmat_symmat_source_tie, C15_symmat_symmat_as_coded) are regenerated and proved EQUAL to the executed models "
              "(C15_matrix_kernels_source_tie); the four matrix products equal Matrix.mul of the (transposed) views for all dimensions, "
              "trans(TransMat) returns the transposed view, the primitives return the entrywise result whatever the target held "
              "(C15_mat_mat_value, C15_transmat_mat_value, C15_mat_transmat_value, C15_transmat_transmat_value, C15_trans_view, "
              "C15_trans_transmat_value, C15_storage_primitives_value). Stores of SymMat objects (dim_, idf_, tol_, row_, col_ + "
              "MemRep; in-place cholDec and invert) and of Vec objects (implicit moves) refine their value-level semantics for every "
              "history (member lists and move/copy generation regenerated from the headers); histories that CONTINUE after a caught "
              "BadRank/Singular refine the value-level semantics with the same catch rule: a dimension-guard throw leaves every object "
              "unchanged, Singular out of Mat::invert leaves the half-eliminated block the model defines. "
              "Models tied to lib/matvec by a translator (guards) and differential correspondence (exact rational and IEEE double "
              "instances of the same definitions) and an always-on property oracle on the C++ answers.")
LEVEL_NOTE = ("Trusted: Lean kernel, statements in Props/C15.lean, C15SvdDecompose.lean, C15Kernels.lean, C15Obj.lean, "
              "harness/generator/comparator. The two operators whose faithful model still violates the property (Vec*TransMat: "
              "vec_transmat_violates, guards_vec_transmat_violates, and what it computes: C15_vec_transmat_as_coded; SymMat*SymMat: "
              "symmat_product_violates, on the regenerated loop C15_symmat_product_violates_source) are proved to violate it on a witness and are the two KNOWN findings; the other former "
              "findings are FIXED in /repo and the models follow the current tree (TransMat(r,c) dimensions f2f37a8: "
              "transmat_sum_shape; TransMat*TransMat stride cb8c13f and TransVec*MatBase bound ef27491: regression examples; "
              "memcpy(nullptr,..,0) 87f5175: no_null_memcpy; SymMat of dimension 0 45f8c0a). Regenerated loops: the seven "
              "vector-valued kernels of C15_kernels_source_tie (round 9) and the nine of C15_matrix_kernels_source_tie (round 10: "
              "Mat*Mat pointer version, the three TransMat products, trans(TransMat), mul/add/sub/*=) and Mat*SymMat (round 12: "
              "C15_mat_symmat_source_tie, packed-triangle walk; value C15_mat_symmat_value = A * Square(B)) and SymMat*SymMat as coded "
              "(round 13: C15_symmat_symmat_source_tie; C15_symmat_symmat_as_coded - cell (i,j), j <= i, is (AB)(i,j), so the result is "
              "AB exactly when AB is symmetric; C15_symmat_product_violates_source - the known finding on the regenerated loop); free "
              "SymMat + - += -=, Mat(TransMat), Mat+-TransMat, SymMat::cholDec/invert, Mat::invert are hand models behind regenerated "
              "guards + correspondence; the accessor variants MatBase*Vec, TransVec*MatBase return what the pointer loops return on the "
              "view of a Mat / TransMat (C15_accessor_variants_value); sums and scalar multiples of the single classes "
              "are not composed from the primitives' value theorem. The object stores (MatObj, SymObj, VecObj, ObjCatch incl. what a throwing call "
              "leaves) are hand models with regenerated member lists. SVD::svd (Golub-Reinsch) is modelled statement by statement as Svd.decompose (Model/Ls/Svd/Decomp.lean; "
              "executed next to the C++ by drv_ls in C01's check, not in this one) and proved to return a factorisation whenever "
              "it returns, for tall, square and wide A (Props/C15SvdDecompose.lean: C15_svd_reconstructs - A = U W V^T, V^T V = 1, "
              "U^T U = 1 on the columns with W != 0, W >= 0; C15_pinv_moore_penrose_svd - pinv from those factors is the "
              "Moore-Penrose inverse provided every singular value set_inv_W drops is an exact zero). Not proved: convergence of "
              "the QR iteration (NoConvergence after 30 sweeps) and rounding: for double the certificate (A = U W V^T, V^T V = 1, "
              "U^T U = 1 on kept columns, dropped singular values negligible) is still evaluated on the C++'s own U, W, V on every run. "
              "C15_pinv_of_decompose (the whole pinv from A alone) keeps one hypothesis: every singular value of that run which "
              "set_inv_W drops is an exact zero.")
TECHNIQUE = ("Lean 4 proof (refinement + invariant by induction over operation histories; entrywise algebra; loop invariants of "
             "Gauss-Jordan, Cholesky and the symmetric exchange inversion; Moore-Penrose from an SVD certificate) + translator "
             "(dimension guards, data members of Mat / SymMat / Vec and the initialisation of Mat::pentry, the loops of the "
             "matrix-vector products, dot, the Mat / TransMat matrix products, trans(TransMat) and the storage primitives regenerated "
             "from the headers) + correspondence")
TRUSTED = ["harness/c15_matvec.cpp: counting replacements of operator new[]/delete[] and a null-counting memcpy wrapper "
           "(observation only; the wrapper does not forward a null pointer)",
           "translator tools/gen/c15_dimchecks.py (regex over the headers: the BadRank guard of every operator -> Gen/DimChecks; "
           "a guard nested under a condition, a spurious throw, a class matched by NAME are not noticed)",
           "translators tools/gen/c15_members.py, c15_members2.py (data members of Mat / SymMat / Vec class chains, declared "
           "destructors, copies and moves, the initialisation of Mat::pentry -> Gen/MatMembers, Gen/SymVecMembers)",
           "translator tools/gen/c15_kernels.py on the C front end tools/gen/cfun.py (eighteen functions statement by statement -> "
           "Gen/MatVecKernels; any other statement form stops the run)"]
MODELLED = ["IEEE rounding (theorems over ordered fields; Float instance compared with tolerance)",
            "indeterminate content of new Float[n] (model: a fixed placeholder; never observed before written)",
            "SVD::svd (Golub-Reinsch iteration): in THIS check per-run certificate on the C++'s factors (all shapes incl. wide); "
            "its model Svd.decompose is tied by C01's drv_ls stream, its algebra proved (C15_svd_reconstructs), convergence and "
            "rounding not; pinv: formula modelled from (U,W,V,W_tol), run next to the C++ on the C++'s own decomposition; "
            "Moore-Penrose proved from the certificate (pinv_moore_penrose) and for the factors decompose returns "
            "(C15_pinv_moore_penrose_svd)",
            "std::sort (sortvec.h), iostream operators, GSO (gso.h, exercised through C01/C02)",
            "negative dimensions passed to resize/reset/constructors other than MemRep(n<0)",
            "objects after a caught exception: modelled since round 9 (Model/ObjCatch.lean: thrown; stream objhist continues "
            "the history and dumps every object after the throw); Singular out of Mat::invert leaves the half-eliminated "
            "block (C15_caught_singular_half_eliminated), BadRank out of SymMat::cholDec/invert the partial factor / the "
            "completed exchange steps - these partial states are definitions of the hand model, compared with the C++, "
            "not derived from regenerated loops",
            "move operations: Mat and SymMat have none (declared destructors; rvalue forms are copies), Vec uses MemRep's "
            "move - computed from the headers (symMoves = false, vecMoves = true) on every run",
            "the two temporaries of Mat::transpose() (allocated and released inside the call; the model consumes no addresses for them)"]
ASSUMPTIONS = ["element access operator()(r,c) with indices out of range is outside the property (unchecked by design)"]

KNOWN = {
    "C15-memcpy-null": "MemRep copy-ctor / copy-assign call memcpy with a null pointer when the source is empty (UB, size 0)",
    "C15-transmat-sum-shape": "TransMat +/- TransMat of non-square operands returns the wrong shape and entries",
    "C15-transmat-transmat-stride": "TransMat * TransMat with non-square right operand uses the wrong stride (wrong result / reads outside)",
    "C15-transvec-matbase-bound": "TransVec * MatBase inner loop runs to A.cols() instead of A.rows() (wrong result / reads outside)",
    "C15-vec-transmat": "Vec * TransMat accepts non-square operands and reads outside them",
    "C15-symmat-product": "SymMat * SymMat returns only the lower triangle of AB as a symmetric matrix",
    "C15-symmat-empty-null-offset": "SymMat::cholDec/invert, SymMat*SymMat, Mat*SymMat form `begin() - 1` on a null pointer when the dimension is 0 (UB)",
}

# ----------------------------------------------------------------------------- translator (guards)

def translate_symvec(ctx):
    """W9c: member lists / implicit copy & move of SymMat and Vec -> Gen/SymVecMembers.lean"""
    try:
        if c15_members2.run(ctx.repo, ctx.lean / "Gama" / "Gen" / "SymVecMembers.lean"):
            ctx.log("Gen/SymVecMembers.lean regenerated (content changed)")
    except c15_members.Unparsable as e:
        raise TieBroken("tools/gen/c15_members2.py", str(e))
    except OSError as e:
        raise TieBroken("tools/gen/c15_members2.py", "cannot read source: " + str(e))


def gen_objhist(rng, maxlen):
    """W9c: random SymMat / Vec / Mat object histories in which throwing lines (BadRank guards, SymMat(r,c) r!=c,
    invert/cholDec of an indefinite matrix, Singular out of Mat::invert, Vec(-1), a + b of different dimensions) are
    CAUGHT and the history goes on; every object is dumped after a throw.  Returns (lines, uses_chol)."""
    ops, chol = [], False
    sl, vl, ml = {}, {}, {}          # live slots -> dimension
    def spd(i, n, indef=False):
        A = [[rng.randint(-2, 2) for _ in range(n)] for _ in range(n)]
        for a in range(n):
            for b in range(a + 1):
                v = (A[a][b] + A[b][a]) / 2.0 + (4.0 * n if a == b else 0.0)
                if indef and a == b == n - 1:
                    v = -v
                ops.append(f"s.set {i} {a + 1} {b + 1} {H(v)}")
    for _ in range(rng.randint(6, maxlen)):
        r = rng.random()
        fs = [i for i in range(8) if i not in sl]; fv = [i for i in range(8) if i not in vl]; fm = [i for i in range(8) if i not in ml]
        if r < 0.10 and fs:
            i, n = rng.choice(fs), rng.randint(0, 3)
            ops.append(f"s.ctor {i} {n}"); sl[i] = n; spd(i, n, rng.random() < 0.25)
        elif r < 0.14 and fs:
            i, a, b = rng.choice(fs), rng.randint(0, 3), rng.randint(0, 3)
            ops.append(f"s.ctor2 {i} {a} {b}")
            if a == b:
                sl[i] = a; spd(i, a)
        elif r < 0.22 and fs and sl:
            i, j = rng.choice(fs), rng.choice(sorted(sl)); ops.append(f"s.{rng.choice(['copy', 'move'])} {i} {j}"); sl[i] = sl[j]
        elif r < 0.30 and sl:
            i, j = rng.choice(sorted(sl)), rng.choice(sorted(sl)); ops.append(f"s.{rng.choice(['assign', 'massign'])} {i} {j}"); sl[i] = sl[j]
        elif r < 0.36 and sl:
            i, j = rng.choice(sorted(sl)), rng.choice(sorted(sl)); ops.append(f"s.{rng.choice(['add', 'sub'])} {i} {j}")
        elif r < 0.44 and sl:
            ops.append(f"s.invert {rng.choice(sorted(sl))}")
        elif r < 0.49 and sl:
            ops.append(f"s.chol {rng.choice(sorted(sl))}"); chol = True
        elif r < 0.53 and sl:
            i = rng.choice(sorted(sl)); a, b = rng.randint(-1, 3), rng.randint(-1, 3)
            if rng.random() < 0.5:
                ops.append(f"s.reset {i} {a}")
                if a >= 0:
                    sl[i] = a; spd(i, a)
            else:
                ops.append(f"s.reset2 {i} {a} {b}")
                if a == b and a >= 0:
                    sl[i] = a; spd(i, a)
        elif r < 0.56 and sl:
            i = rng.choice(sorted(sl)); ops.append(f"s.{rng.choice(['scale', 'tol'])} {i} {H(rng.choice([2, -1, 0.5, 0.25]))}")
        elif r < 0.58 and sl:
            i = rng.choice(sorted(sl)); ops.append(f"s.dtor {i}"); del sl[i]
        elif r < 0.66 and fv:
            i, n = rng.choice(fv), rng.choice([-1, 0, 1, 2, 3, 3])
            ops.append(f"v.ctor {i} {n}")
            if n >= 0:
                vl[i] = n
                for k in range(n):
                    ops.append(f"v.set {i} {k + 1} {H(rng.randint(-5, 5))}")
        elif r < 0.72 and fv and vl:
            i, j = rng.choice(fv), rng.choice(sorted(vl)); how = rng.choice(["copy", "move"]); ops.append(f"v.{how} {i} {j}"); vl[i] = vl[j]
            if how == "move":
                vl[j] = 0
        elif r < 0.78 and vl:
            i, j = rng.choice(sorted(vl)), rng.choice(sorted(vl)); how = rng.choice(["assign", "massign"]); ops.append(f"v.{how} {i} {j}")
            if i != j:
                vl[i] = vl[j]
                if how == "massign":
                    vl[j] = 0
        elif r < 0.84 and vl:
            i, j = rng.choice(sorted(vl)), rng.choice(sorted(vl)); ops.append(f"v.{rng.choice(['add', 'sub'])} {i} {j}")
        elif r < 0.89 and fv and vl:
            i, j, k = rng.choice(fv), rng.choice(sorted(vl)), rng.choice(sorted(vl)); ops.append(f"v.{rng.choice(['plus', 'minus'])} {i} {j} {k}")
            if vl[j] == vl[k]:
                vl[i] = vl[j]
        elif r < 0.91 and vl:
            i = rng.choice(sorted(vl)); ops.append(f"v.scale {i} {H(rng.choice([2, -1, 0.5]))}")
        elif r < 0.95 and fm:
            i, n = rng.choice(fm), rng.choice([1, 2, 2, 3])
            c = n if rng.random() < 0.8 else n + 1
            ops.append(f"m.ctor {i} {n} {c}"); ml[i] = (n, c)
            A = [[rng.randint(-2, 2) for _ in range(c)] for _ in range(n)]
            if n >= 2 and rng.random() < 0.6:
                A[n - 1] = list(A[0])                       # exactly singular: Singular after some elimination steps
            for a in range(n):
                for b in range(c):
                    ops.append(f"m.set {i} {a + 1} {b + 1} {H(A[a][b])}")
        elif ml:
            i = rng.choice(sorted(ml)); ops.append(f"m.invert {i} {H(1e-9)}")
        ops += ["s.xdump", "v.dump", "m.dump"] if rng.random() < 0.5 else []
    ops += ["s.xdump", "v.dump", "m.dump"]
    return ops, chol


def translate(ctx):
    translate_symvec(ctx)
    try:
        if c15_members.run(ctx.repo, ctx.lean / "Gama" / "Gen" / "MatMembers.lean"):
            ctx.log("Gen/MatMembers.lean regenerated (content changed)")
    except c15_members.Unparsable as e:
        raise TieBroken("tools/gen/c15_members.py", str(e))
    except OSError as e:
        raise TieBroken("tools/gen/c15_members.py", "cannot read source: " + str(e))
    try:
        if c15_dimchecks.run(ctx.repo, ctx.lean / "Gama" / "Gen" / "DimChecks.lean"):
            ctx.log("Gen/DimChecks.lean regenerated (content changed)")
    except c15_dimchecks.Unparsable as e:
        raise TieBroken("tools/gen/c15_dimchecks.py", str(e))
    except OSError as e:
        raise TieBroken("tools/gen/c15_dimchecks.py", "cannot read source: " + str(e))
    # round 9: the operator LOOPS (Mat·Vec, TransMat·Vec, Vec·TransMat, TransVec·Mat, accessor variants, dot),
    # one Lean definition per C++ function; tied to the executed hand models by Lemmas/MatVecKernels.lean
    try:
        if c15_kernels.run(ctx.repo, ctx.lean / "Gama" / "Gen" / "MatVecKernels.lean"):
            ctx.log("Gen/MatVecKernels.lean regenerated (content changed)")
    except c15_kernels.Unparsable as e:
        raise TieBroken("tools/gen/c15_kernels.py", str(e))
    except OSError as e:
        raise TieBroken("tools/gen/c15_kernels.py", "cannot read source: " + str(e))


# name of the generated table entry for every (operation, operand kinds) of the algebra stream
GUARD_OF = {
    ("add", "MM"): "Mat::operator+(Mat)", ("sub", "MM"): "Mat::operator-(Mat)",
    ("addg", "MM"): "operator+(MatBase,MatBase)", ("subg", "MM"): "operator-(MatBase,MatBase)",
    ("add", "VV"): "Vec::operator+(Vec)", ("sub", "VV"): "Vec::operator-(Vec)",
    ("addeq", "VV"): "Vec::operator+=(Vec)", ("subeq", "VV"): "Vec::operator-=(Vec)",
    ("add", "WW"): "TransVec::operator+(TransVec)", ("sub", "WW"): "TransVec::operator-(TransVec)",
    ("add", "SS"): "SymMat::operator+(SymMat)", ("sub", "SS"): "SymMat::operator-(SymMat)",
    ("addf", "SS"): "operator+(SymMat,SymMat)", ("subf", "SS"): "operator-(SymMat,SymMat)",
    ("addeq", "SS"): "operator+=(SymMat,SymMat)", ("subeq", "SS"): "operator-=(SymMat,SymMat)",
    ("add", "MT"): "operator+(Mat,TransMat)", ("sub", "MT"): "operator-(Mat,TransMat)",
    ("add", "TM"): "operator+(TransMat,Mat)", ("sub", "TM"): "operator-(TransMat,Mat)",
    ("add", "TT"): "TransMat::operator+(TransMat)", ("sub", "TT"): "TransMat::operator-(TransMat)",
    ("mul", "MM"): "operator*(Mat,Mat)", ("mulg", "MM"): "operator*(MatBase,MatBase)",
    ("mul", "MV"): "operator*(Mat,Vec)", ("mulg", "MV"): "operator*(MatBase,Vec)",
    ("mul", "TM"): "operator*(TransMat,Mat)", ("mul", "MT"): "operator*(Mat,TransMat)",
    ("mul", "TT"): "operator*(TransMat,TransMat)", ("mul", "TV"): "operator*(TransMat,Vec)",
    ("mul", "MS"): "operator*(Mat,SymMat)", ("mul", "SS"): "operator*(SymMat,SymMat)",
    ("mul", "WM"): "operator*(TransVec,Mat)", ("mulg", "WM"): "operator*(TransVec,MatBase)",
    ("mulg", "WT"): "operator*(TransVec,MatBase)", ("mulg", "WS"): "operator*(TransVec,MatBase)",
    ("mul", "VT"): "operator*(Vec,TransMat)", ("mul", "WV"): "operator*(TransVec,Vec)",
    ("dot", "VV"): "VecBase::dot(VecBase)",
}

# shape pairs with the same element count but a different shape (the case `MatVecBase::add`, which
# compares size() only, cannot tell apart), as (rows, cols) of the two operands *as the operator sees them*
EQCOUNT = [((2, 3), (3, 2)), ((1, 4), (2, 2)), ((0, 3), (2, 0)), ((4, 1), (2, 2)), ((1, 6), (2, 3)), ((6, 1), (3, 2)),
           ((2, 2), (4, 1)), ((3, 4), (4, 3)), ((3, 4), (2, 6)), ((1, 2), (2, 1)), ((0, 0), (0, 2)), ((0, 1), (3, 0)),
           ((1, 1), (1, 1)), ((2, 3), (2, 3))]

# ----------------------------------------------------------------------------- helpers

def H(x):
    return float2hex(x)


def hs(xs):
    return " ".join(H(x) for x in xs)


def F(tok):
    """exact value of an output token (hex double or rational)"""
    if is_hex(tok):
        return Fraction(hex2float(tok))
    return Fraction(tok)


class Opnd:
    def __init__(self, kind, r, c, x):
        self.kind, self.r, self.c, self.x = kind, r, c, list(x)

    def text(self):
        k = self.kind
        if k in "MT":
            return f"{k} {self.r} {self.c}" + ("" if not self.x else " " + hs(self.x))
        if k in "VWS":
            return f"{k} {self.r}" + ("" if not self.x else " " + hs(self.x))
        return "K " + H(self.x[0])

    # the mathematical object: (rows, cols, entry function) with Fractions
    def mat(self):
        k, x = self.kind, [Fraction(v) for v in self.x]
        if k == "M":
            return self.r, self.c, [[x[i * self.c + j] for j in range(self.c)] for i in range(self.r)]
        if k == "T":     # trans(M r x c)
            return self.c, self.r, [[x[j * self.c + i] for j in range(self.r)] for i in range(self.c)]
        if k == "V":
            return self.r, 1, [[v] for v in x]
        if k == "W":
            return 1, self.r, [x]
        if k == "S":
            n = self.r
            def e(i, j):
                i, j = max(i, j), min(i, j)
                return x[i * (i + 1) // 2 + j]
            return n, n, [[e(i, j) for j in range(n)] for i in range(n)]
        raise ValueError(k)


def nelem(kind, r, c):
    return r * c if kind in "MT" else (r * (r + 1) // 2 if kind == "S" else (1 if kind == "K" else r))


def mk(rng, kind, r, c=0, vals=(-1, 0, 1, 2)):
    return Opnd(kind, r, c, [rng.choice(vals) for _ in range(nelem(kind, r, c))])


def mmul(a, b):
    (ra, ca, A), (rb, cb, B) = a, b
    return ra, cb, [[sum((A[i][k] * B[k][j] for k in range(ca)), Fraction(0)) for j in range(cb)] for i in range(ra)]


def madd(a, b, sgn=1):
    (ra, ca, A), (rb, cb, B) = a, b
    return ra, ca, [[A[i][j] + sgn * B[i][j] for j in range(ca)] for i in range(ra)]


def flat(m):
    return [v for row in m[2] for v in row]


def parse_out(line):
    """'ok M r c x..' -> ('M', r, c, [Fraction]) ; 'ok V n x..' ; 'ok S n x..' ; 'ok K x'"""
    t = line.split()
    if len(t) < 2 or t[0] != "ok":
        return None
    k = t[1]
    try:
        if k == "M":
            r, c = int(t[2]), int(t[3])
            return k, r, c, [F(v) for v in t[4:4 + r * c]]
        if k in ("V", "W"):
            n = int(t[2])
            return k, n, 1, [F(v) for v in t[3:3 + n]]
        if k == "S":
            n = int(t[2])
            return k, n, n, [F(v) for v in t[3:3 + n * (n + 1) // 2]]
        if k == "K":
            return k, 1, 1, [F(t[2])]
    except (ValueError, IndexError):
        return None
    return None


# ----------------------------------------------------------------------------- object scripts

def gen_script(rng, kind, maxlen):
    """valid histories only (the C++ preconditions are unchecked): tracked with a spec-level simulation"""
    live = {}            # slot -> size descriptor
    ops = []
    mixed = False

    def dims():
        if kind == "m":
            return (rng.randint(0, 3), rng.randint(0, 3))
        return (rng.randint(0, 4),)

    def size(d):
        return d[0] * d[1] if kind == "m" else (d[0] * (d[0] + 1) // 2 if kind == "s" else d[0])

    def fill(i):
        if size(live[i]) > 0:
            ops.append(f"{kind}.fill {i} {H(rng.randint(-9, 9))}")

    for _ in range(rng.randint(3, maxlen)):
        dead = [i for i in range(8) if i not in live]
        alive = sorted(live)
        r = rng.random()
        if (r < 0.22 or not alive) and dead:
            i = rng.choice(dead)
            d = dims()
            ops.append(f"{kind}.ctor {i} " + " ".join(map(str, d)))
            live[i] = d
            fill(i)
        elif r < 0.34 and dead and alive:
            i, j = rng.choice(dead), rng.choice(alive)
            ops.append(f"{kind}.copy {i} {j}")
            live[i] = live[j]
        elif r < 0.42 and dead and alive:
            i, j = rng.choice(dead), rng.choice(alive)
            ops.append(f"{kind}.move {i} {j}")
            live[i] = live[j]
            if kind in "rv":
                live[j] = (0,)
        elif r < 0.62 and alive:
            i, j = rng.choice(alive), rng.choice(alive)
            if size(live[i]) != size(live[j]):
                mixed = True
            ops.append(f"{kind}.assign {i} {j}")
            live[i] = live[j]
        elif r < 0.72 and alive:
            i, j = rng.choice(alive), rng.choice(alive)
            if size(live[i]) != size(live[j]):
                mixed = True
            ops.append(f"{kind}.massign {i} {j}")
            if i != j:
                live[i] = live[j]
                if kind in "rv":
                    live[j] = (0,)
        elif r < 0.82 and alive:
            i = rng.choice(alive)
            d = dims()
            old = live[i]
            if kind == "r":
                ops.append(f"r.resize {i} {d[0]}")
            else:
                ops.append(f"{kind}.reset {i} " + " ".join(map(str, d)))
            live[i] = d
            if kind == "m":
                changed = old != d and size(old) != size(d)
            elif kind == "s":
                changed = size(old) != size(d)
            else:
                changed = size(old) != size(d)
            if changed:
                fill(i)
        elif r < 0.93 and alive:
            i = rng.choice(alive)
            d = live[i]
            if size(d) == 0:
                continue
            v = H(rng.randint(-20, 20))
            if kind == "r":
                ops.append(f"r.write {i} {rng.randrange(d[0])} {v}")
            elif kind == "v":
                ops.append(f"v.set {i} {rng.randint(1, d[0])} {v}")
            elif kind == "m":
                ops.append(f"m.set {i} {rng.randint(1, d[0])} {rng.randint(1, d[1])} {v}")
            else:
                ops.append(f"s.set {i} {rng.randint(1, d[0])} {rng.randint(1, d[0])} {v}")
        elif r < 0.96 and alive and kind == "m":
            i = rng.choice(alive)
            ops.append(f"m.transpose {i}")
            live[i] = (live[i][1], live[i][0])
        elif alive:
            i = rng.choice(alive)
            ops.append(f"{kind}.dtor {i}")
            del live[i]
        if rng.random() < 0.3:
            ops.append(f"{kind}.dump")
    ops.append(f"{kind}.dump")
    return ops, mixed


def pair_scripts():
    """b = a for every ordered pair of sizes incl. 0, then writes on either side (copy independence)"""
    out = []
    for kind in "rvms":
        rng_sizes = range(0, 5) if kind in "rv" else range(0, 4)
        for na in rng_sizes:
            for nb in rng_sizes:
                ops = []
                if kind == "m":
                    da, db = f"{na} {max(na - 1, 0) if na else 0}", f"{nb} {nb}"
                    sa, sb = na * max(na - 1, 0), nb * nb
                else:
                    da, db = str(na), str(nb)
                    sa = na * (na + 1) // 2 if kind == "s" else na
                    sb = nb * (nb + 1) // 2 if kind == "s" else nb
                ops.append(f"{kind}.ctor 0 {da}")
                if sa:
                    ops.append(f"{kind}.fill 0 {H(1)}")
                ops.append(f"{kind}.ctor 1 {db}")
                if sb:
                    ops.append(f"{kind}.fill 1 {H(2)}")
                ops.append(f"{kind}.assign 1 0")
                ops.append(f"{kind}.dump")
                if sa:
                    ops.append(f"{kind}.fill 1 {H(7)}")      # write through the copy
                    ops.append(f"{kind}.dump")
                    ops.append(f"{kind}.fill 0 {H(9)}")      # write through the source
                    ops.append(f"{kind}.dump")
                ops.append(f"{kind}.copy 2 0")
                if sa:
                    ops.append(f"{kind}.fill 2 {H(5)}")
                ops.append(f"{kind}.dump")
                out.append((ops, (kind, sa, sb)))
    return out


def parse_dump(line):
    """'dump live=.. ub=.. | a | b ...' -> (live, ub, [slot text or None])"""
    parts = [p.strip() for p in line.split("|")]
    head = parts[0].split()
    live = int(head[1].split("=")[1])
    ub = int(head[2].split("=")[1])
    return live, ub, [None if p == "-" else p for p in parts[1:]]


# ----------------------------------------------------------------------------- object histories with invert
#
# `Mat::invert()` works in place through the raw member pointer `pentry`; a `Mat` is copied memberwise.
# The scripts below put `m.invert` INSIDE copy / assign chains between objects of equal and of different
# sizes and follow every object's VALUE with exact rationals (value semantics: a copy is independent, an
# operation changes its target only, `invert` is the matrix inverse).  expect[k] is what line k must answer:
#   "ok" | "throw BadRank" | "throw Singular" | {slot: (rows, cols, [Fraction…])} for an `m.dump`.

INV_TOL = 1e-9


class MatSim:
    def __init__(self, rng):
        self.rng, self.live, self.ops, self.expect = rng, {}, [], []
        self.tags = set()
        self.inverted = set()      # slots whose object was inverted (or copied from such an object) — for the tags only

    def emit(self, line, exp="ok"):
        self.ops.append(line); self.expect.append(exp)

    def free(self):
        return [i for i in range(8) if i not in self.live]

    def ctor(self, i, r, c, vals=None, wellcond=True):
        self.emit(f"m.ctor {i} {r} {c}")
        if vals is None:
            vals = [[Fraction(self.rng.randint(-3, 3)) + (Fraction(4 * max(r, c)) if (wellcond and a == b) else 0)
                     for b in range(c)] for a in range(r)]
        self.live[i] = (r, c, [v for row in vals for v in row])
        for a in range(r):
            for b in range(c):
                self.emit(f"m.set {i} {a + 1} {b + 1} {H(float(vals[a][b]))}")
        self.inverted.discard(i)

    def copy(self, i, j, how="copy"):
        self.emit(f"m.{how} {i} {j}")
        self.live[i] = self.live[j]
        if j in self.inverted:
            self.inverted.add(i); self.tags.add("copy_of_inverted")
        else:
            self.inverted.discard(i)

    def assign(self, i, j, how="assign"):
        self.emit(f"m.{how} {i} {j}")
        if len(self.live[i][2]) != len(self.live[j][2]):
            self.tags.add("assign_different_sizes" + ("_from_inverted" if j in self.inverted else ""))
        if i != j:
            if i in self.inverted and j not in self.inverted:
                self.tags.add("assign_from_never_inverted")
            self.live[i] = self.live[j]
            if j in self.inverted:
                self.inverted.add(i); self.tags.add("copy_of_inverted")
            else:
                self.inverted.discard(i)

    def invert(self, i):
        r, c, d = self.live[i]
        line = f"m.invert {i} {H(INV_TOL)}"
        if r != c:
            self.emit(line, "throw BadRank"); self.tags.add("badrank")
            return
        A = [d[a * c:(a + 1) * c] for a in range(r)]
        if r and det(A) == 0:
            self.emit(line, "throw Singular"); self.tags.add("singular")
            v = self.rng.randint(1, 5)                      # the C++ object is left half eliminated: define it again
            self.emit(f"m.fill {i} {H(v)}")
            self.live[i] = (r, c, [Fraction(v)] * (r * c))
            return
        X = inv_exact(A) if r else []
        self.emit(line)
        if i in self.inverted:
            self.tags.add("second_inversion")
        self.live[i] = (r, c, [v for row in X for v in row])
        self.inverted.add(i)

    def reset(self, i, r, c):
        """reset(r, c) and define every element again (the content after a reallocation is indeterminate)"""
        self.emit(f"m.reset {i} {r} {c}")
        if (r, c) != self.live[i][:2]:
            self.tags.add("reset_after_invert" if i in self.inverted else "reset")
        vals = [[Fraction(self.rng.randint(-3, 3)) + (Fraction(4 * max(r, c)) if a == b else 0) for b in range(c)] for a in range(r)]
        self.live[i] = (r, c, [v for row in vals for v in row])
        for a in range(r):
            for b in range(c):
                self.emit(f"m.set {i} {a + 1} {b + 1} {H(float(vals[a][b]))}")

    def transpose(self, i):
        r, c, d = self.live[i]
        self.emit(f"m.transpose {i}")
        self.live[i] = (c, r, [d[a * c + b] for b in range(c) for a in range(r)])
        self.inverted.discard(i)                            # the temporary's pentry (nullptr) is assigned

    def scale(self, i, f):
        r, c, d = self.live[i]
        self.emit(f"m.scale {i} {H(float(f))}")
        self.live[i] = (r, c, [v * f for v in d])

    def setel(self, i):
        r, c, d = self.live[i]
        if r * c == 0:
            return
        a, b = self.rng.randrange(r), self.rng.randrange(c)
        v = Fraction(self.rng.randint(-9, 9)) + (Fraction(4 * max(r, c)) if a == b else 0)
        self.emit(f"m.set {i} {a + 1} {b + 1} {H(float(v))}")
        d = list(d); d[a * c + b] = v
        self.live[i] = (r, c, d)

    def dtor(self, i):
        self.emit(f"m.dtor {i}")
        del self.live[i]; self.inverted.discard(i)

    def dump(self):
        self.emit("m.dump", dict(self.live))


def inv_chain_scripts(rng):
    """the fixed chains, for every size 1..3 and every pair of sizes"""
    out = []
    for n in (1, 2, 3):
        s = MatSim(rng); s.ctor(0, n, n); s.invert(0); s.copy(1, 0); s.invert(1); s.dump()        # A.invert(); B = copy A; B.invert()
        s.invert(0); s.dump(); out.append(s)
        s = MatSim(rng); s.ctor(0, n, n); s.copy(1, 0); s.invert(1); s.copy(2, 1, "move"); s.invert(2); s.dump()   # inv(inv(A))
        out.append(s)
        s = MatSim(rng); s.ctor(0, n, n); s.ctor(1, n, n); s.invert(0); s.assign(1, 0); s.invert(1); s.dump()     # same size
        s.setel(1); s.dump(); s.setel(0); s.dump(); out.append(s)
        s = MatSim(rng); s.ctor(0, n, n); s.ctor(1, n, n); s.invert(0); s.copy(2, 0); s.assign(2, 1); s.invert(2); s.dump()   # never-inverted in between
        s.invert(0); s.assign(0, 1, "massign"); s.invert(0); s.dump(); out.append(s)
        s = MatSim(rng); s.ctor(0, n, n); s.invert(0); s.copy(1, 0); s.transpose(1); s.invert(1); s.dump(); out.append(s)
        s = MatSim(rng); s.ctor(0, n, n); s.invert(0); s.copy(1, 0); s.scale(1, Fraction(2)); s.invert(1); s.dump(); out.append(s)
        for k, l in ((1, 1), (2, 2), (3, 3), (2, 3), (0, 0), (1, 3)):
            if (k, l) == (n, n):
                continue
            s = MatSim(rng); s.ctor(0, n, n); s.invert(0); s.reset(0, k, l); s.dump(); s.invert(0); s.dump()   # same object, new dimensions
            s.copy(1, 0); s.reset(1, n, n); s.invert(1); s.dump(); out.append(s)
            s = MatSim(rng); s.ctor(0, n, n); s.invert(0); s.ctor(1, k, l); s.assign(1, 0); s.dump(); s.invert(1); s.dump()   # X(k,l) = Y(n,n) inverted
            out.append(s)
            s = MatSim(rng); s.ctor(0, n, n); s.invert(0); s.copy(2, 0); s.ctor(1, k, l); s.assign(2, 1); s.dump(); s.invert(2); s.dump()
            out.append(s)
    return out


def gen_inv_script(rng, maxlen):
    s = MatSim(rng)
    for _ in range(rng.randint(4, maxlen)):
        alive, dead = sorted(s.live), s.free()
        r = rng.random()
        if (r < 0.18 or not alive) and dead:
            i = rng.choice(dead)
            n = rng.choice([1, 2, 2, 3, 3])
            if rng.random() < 0.15:
                s.ctor(i, rng.randint(0, 3), rng.randint(0, 3))                                   # any shape
            elif rng.random() < 0.15 and n >= 2:
                A = [[Fraction(rng.randint(-2, 2)) for _ in range(n)] for _ in range(n)]        # exactly singular
                A[n - 1] = [a + b for a, b in zip(A[0], A[1 % n])] if n >= 3 else list(A[0])
                s.ctor(i, n, n, vals=A)
            else:
                s.ctor(i, n, n)
        elif r < 0.32 and dead and alive:
            s.copy(rng.choice(dead), rng.choice(alive), rng.choice(["copy", "move"]))
        elif r < 0.50 and len(alive) >= 1:
            s.assign(rng.choice(alive), rng.choice(alive), rng.choice(["assign", "assign", "massign"]))
        elif r < 0.78 and alive:
            s.invert(rng.choice(alive))
        elif r < 0.81 and alive:
            s.transpose(rng.choice(alive))
        elif r < 0.84 and alive:
            n = rng.choice([1, 2, 3])
            s.reset(rng.choice(alive), n, n if rng.random() < 0.8 else rng.randint(0, 3))
        elif r < 0.87 and alive:
            s.scale(rng.choice(alive), rng.choice([Fraction(2), Fraction(-1), Fraction(1, 2)]))
        elif r < 0.93 and alive:
            s.setel(rng.choice(alive))
        elif alive:
            s.dtor(rng.choice(alive))
        if rng.random() < 0.35:
            s.dump()
    s.dump()
    return s


def dump_values(slot_text):
    t = slot_text.split()
    return int(t[0]), int(t[1]), t[2:]


def inv_oracle(lines_, expect, exact):
    """value semantics on the answers of one Mat history; expect[k] = "ok" | "throw …" | {slot: [rows, cols, [p/q…]]}.
    Returns None or (line index, what)."""
    if len(lines_) != len(expect):
        return (max(len(lines_) - 1, 0), "script stopped")
    for li, (got, exp) in enumerate(zip(lines_, expect)):
        if isinstance(exp, str):
            if got != exp:
                return (li, f"answered {got!r}, value semantics says {exp!r}")
            continue
        try:
            live_, ub_, slots = parse_dump(got)
            for sl in range(8):
                if (slots[sl] is None) != (str(sl) not in exp):
                    raise ValueError(f"slot {sl} liveness")
                if str(sl) in exp:
                    r_, c_, toks = dump_values(slots[sl])
                    er, ec, ed = exp[str(sl)]
                    if (r_, c_) != (er, ec) or len(toks) != len(ed):
                        raise ValueError(f"slot {sl}: shape {r_}x{c_}, expected {er}x{ec}")
                    for tk, q in zip(toks, ed):
                        v, q = F(tk), Fraction(q)
                        if (v != q) if exact else (abs(v - q) > Fraction(1, 10**9) * (1 + abs(q))):
                            raise ValueError(f"slot {sl}: holds {float(v)!r}, value semantics says {float(q)!r} "
                                             f"(objects: {', '.join(sorted(exp))})")
            if ub_:
                raise ValueError("memcpy with a null pointer")
        except (ValueError, IndexError) as e:
            return (li, str(e))
    return None


# ----------------------------------------------------------------------------- algebra

# (name, operand kinds, mathematical rule)
#   rule(ops) -> None                  : non-conforming, must throw BadRank
#             -> (rows, cols, matrix)  : the mathematical result
#             -> "free"                : no mathematical meaning is claimed; only "no read outside operands"
def shape(o):
    if o.kind == "M":
        return o.r, o.c
    if o.kind == "T":
        return o.c, o.r
    if o.kind == "V":
        return o.r, 1
    if o.kind == "W":
        return 1, o.r
    if o.kind == "S":
        return o.r, o.r
    return 1, 1


def r_sum(sgn):
    def f(o):
        if shape(o[0]) != shape(o[1]):
            return None
        return madd(o[0].mat(), o[1].mat(), sgn)
    return f


def r_mul(o):
    if shape(o[0])[1] != shape(o[1])[0]:
        return None
    return mmul(o[0].mat(), o[1].mat())


def r_scale(o):
    a, k = (o[0], o[1]) if o[1].kind == "K" else (o[1], o[0])
    r, c, A = a.mat()
    f = Fraction(k.x[0])
    return r, c, [[v * f for v in row] for row in A]


def r_trans(o):
    r, c, A = o[0].mat()
    return c, r, [[A[i][j] for i in range(r)] for j in range(c)]


def r_same(o):
    return o[0].mat()


def r_dot(o):
    if o[0].r != o[1].r:
        return None
    return 1, 1, [[sum((Fraction(a) * Fraction(b) for a, b in zip(o[0].x, o[1].x)), Fraction(0))]]


def r_lower(o):
    r, c, A = o[0].mat()
    if o[0].kind == "M":       # Lower(const Mat&) -> SymMat made of the lower triangle
        if r != c:
            return None
        return r, c, [[A[max(i, j)][min(i, j)] for j in range(c)] for i in range(r)]
    return r, c, [[A[i][j] if j <= i else Fraction(0) for j in range(c)] for i in range(r)]


def r_upper(o):
    r, c, A = o[0].mat()
    if o[0].kind == "M":       # Upper(const Mat&) -> SymMat made of the upper triangle
        if r != c:
            return None
        return r, c, [[A[min(i, j)][max(i, j)] for j in range(c)] for i in range(r)]
    return r, c, [[A[i][j] if i <= j else Fraction(0) for j in range(c)] for i in range(r)]


def r_vecT(o):          # Vec * TransMat: only the no-overrun clause is checked
    return "free"


BINOPS = [
    ("add", "MM", r_sum(1)), ("sub", "MM", r_sum(-1)), ("addg", "MM", r_sum(1)), ("subg", "MM", r_sum(-1)),
    ("add", "VV", r_sum(1)), ("sub", "VV", r_sum(-1)), ("addeq", "VV", r_sum(1)), ("subeq", "VV", r_sum(-1)),
    ("add", "WW", r_sum(1)), ("sub", "WW", r_sum(-1)),
    ("add", "SS", r_sum(1)), ("sub", "SS", r_sum(-1)), ("addf", "SS", r_sum(1)), ("subf", "SS", r_sum(-1)),
    ("addeq", "SS", r_sum(1)), ("subeq", "SS", r_sum(-1)),
    ("add", "MT", r_sum(1)), ("sub", "MT", r_sum(-1)), ("add", "TM", r_sum(1)), ("sub", "TM", r_sum(-1)),
    ("add", "TT", r_sum(1)), ("sub", "TT", r_sum(-1)),
    ("mul", "MM", r_mul), ("mulg", "MM", r_mul), ("mul", "MV", r_mul), ("mulg", "MV", r_mul),
    ("mul", "TM", r_mul), ("mul", "MT", r_mul), ("mul", "TT", r_mul), ("mul", "TV", r_mul),
    ("mul", "MS", r_mul), ("mul", "SS", r_mul), ("mul", "WM", r_mul), ("mulg", "WM", r_mul),
    ("mulg", "WT", r_mul), ("mulg", "WS", r_mul), ("mul", "VT", r_vecT), ("mul", "WV", r_dot), ("dot", "VV", r_dot),
]
UNOPS = [
    ("trans", "M", r_trans), ("transM", "M", r_trans), ("transT", "M", r_same), ("transpose", "M", r_trans),
    ("trans", "V", r_trans), ("trans", "W", r_trans), ("square", "S", r_same), ("full", "S", r_same),
    ("lower", "S", r_lower), ("upper", "S", r_upper), ("lower", "M", r_lower), ("upper", "M", r_upper),
]
SCALE = [("scale", "MK"), ("scale", "KM"), ("scale", "VK"), ("scale", "KV"), ("scale", "SK"),
         ("scaleeq", "VK"), ("scaleeq", "MK")]

# operators whose C++ code is known to misbehave; value = finding id
DEFECT_OF = {("add", "TT"): "C15-transmat-sum-shape", ("sub", "TT"): "C15-transmat-sum-shape",
             ("mul", "TT"): "C15-transmat-transmat-stride",
             ("mulg", "WT"): "C15-transvec-matbase-bound", ("mulg", "WS"): "C15-transvec-matbase-bound",
             ("mulg", "WM"): "C15-transvec-matbase-bound",
             ("mul", "VT"): "C15-vec-transmat", ("mul", "SS"): "C15-symmat-product"}


def dims_for(kind, N):
    if kind in "MT":
        return [(r, c) for r in range(N + 1) for c in range(N + 1)]
    if kind in "VWS":
        return [(n, 0) for n in range(N + 1)]
    return [(0, 0)]


def line_of(name, ops):
    return f"op {name} " + " ".join(o.text() for o in ops)


def expected_overrun(name, sig, ops):
    """dimension combinations on which the current C++ is known to abort under the sanitizers:
    reads outside its operands (ASan) or `begin() - 1` on the null pointer of an empty SymMat (UBSan)"""
    if (name, sig) in (("mul", "MS"), ("mul", "SS")) and ops[1].r == 0 and (sig != "SS" or ops[0].r == 0):
        return True
    if (name, sig) == ("mul", "VT"):
        r, c = shape(ops[1])
        return r == ops[0].r and c > r
    if (name, sig) in (("mulg", "WT"), ("mulg", "WS"), ("mulg", "WM")):
        r, c = shape(ops[1])
        return r == ops[0].r and c > r
    if (name, sig) == ("mul", "TT"):
        (ra, ca), (rb, cb) = shape(ops[0]), shape(ops[1])
        return ca == rb and cb > rb and ra > 0 and ca > 0
    return False


def check_algebra_line(corr, name, sig, ops, impl_line, crashed, detail):
    """property oracle on the implementation's own answer"""
    rule = next((r for (n, s, r) in BINOPS + UNOPS if n == name and s == sig), None)
    if rule is None and (name, sig) in SCALE:
        rule = r_scale
    if rule is None:
        return
    payload = {"stream": "algebra", "ops": [line_of(name, ops)]}
    site = f"{name}:{sig}"
    if crashed:
        if "applying non-zero offset" in detail and "null pointer" in detail:
            corr.fail(f"operator {name} on {sig}: pointer arithmetic on the null pointer of an empty SymMat (undefined behaviour)",
                      payload, "symmat-empty", detail)
        else:
            corr.fail(f"operator {name} on {sig} reads outside its operands (sanitizer abort)", payload, site, detail)
        return
    want = rule(ops)
    if want == "free":
        return
    if want is None:
        if impl_line != "throw BadRank":
            corr.fail(f"non-conforming operands of {name} {sig} did not raise BadRank", payload, site, impl_line)
        return
    if impl_line.startswith("throw"):
        corr.fail(f"conforming operands of {name} {sig} raised {impl_line}", payload, site, impl_line)
        return
    if want == "free":
        return
    got = parse_out(impl_line)
    if got is None:
        corr.fail(f"{name} {sig}: unreadable answer", payload, site, impl_line)
        return
    k, r, c, x = got
    wr, wc, W = want
    if k == "S":
        n = r
        full = [[x[max(i, j) * (max(i, j) + 1) // 2 + min(i, j)] for j in range(n)] for i in range(n)]
        gr, gc, gx = n, n, [v for row in full for v in row]
    elif k == "W":
        gr, gc, gx = 1, r, x
    elif k == "V":
        gr, gc, gx = r, 1, x
    else:
        gr, gc, gx = r, c, x
    if (gr, gc) != (wr, wc) or gx != flat(want):
        # the signature of known finding C15-symmat-product: a SymMat holding exactly the lower triangle of AB
        lower_ok = (k == "S" and (gr, gc) == (wr, wc) and
                    all(gx[i * gc + j] == W[i][j] for i in range(gr) for j in range(i + 1)))
        corr.fail(f"{name} {sig}: result differs from the mathematical definition" +
                  (" (lower triangle of the exact product, mirrored)" if lower_ok else ""), payload, site,
                  f"got {gr}x{gc} {[str(v) for v in gx][:16]} want {wr}x{wc} {[str(v) for v in flat(want)][:16]}")


# ----------------------------------------------------------------------------- numeric streams

def rand_int_matrix(rng, n, lo=-3, hi=3):
    return [[rng.randint(lo, hi) for _ in range(n)] for _ in range(n)]


def det(A):
    n = len(A)
    A = [[Fraction(v) for v in row] for row in A]
    d = Fraction(1)
    for i in range(n):
        p = next((r for r in range(i, n) if A[r][i] != 0), None)
        if p is None:
            return Fraction(0)
        if p != i:
            A[i], A[p] = A[p], A[i]
            d = -d
        d *= A[i][i]
        for r in range(i + 1, n):
            f = A[r][i] / A[i][i]
            for c in range(i, n):
                A[r][c] -= f * A[i][c]
    return d


def inv_exact(A):
    n = len(A)
    M = [[Fraction(v) for v in row] + [Fraction(int(i == j)) for j in range(n)] for i, row in enumerate(A)]
    for i in range(n):
        p = next(r for r in range(i, n) if M[r][i] != 0)
        M[i], M[p] = M[p], M[i]
        f = M[i][i]
        M[i] = [v / f for v in M[i]]
        for r in range(n):
            if r != i:
                f = M[r][i]
                M[r] = [a - f * b for a, b in zip(M[r], M[i])]
    return [row[n:] for row in M]


def spd_from(rng, n):
    """exactly SPD small-integer matrix L L^T with unit-ish diagonal"""
    L = [[(rng.randint(-2, 2) if j < i else (rng.randint(1, 3) if i == j else 0)) for j in range(n)] for i in range(n)]
    return [[sum(L[i][k] * L[j][k] for k in range(n)) for j in range(n)] for i in range(n)]


def packed(A):
    return [A[i][j] for i in range(len(A)) for j in range(i + 1)]


def fmat(rows, cols, x):
    return [[x[i * cols + j] for j in range(cols)] for i in range(rows)]


def fmul(A, B):
    return [[sum(A[i][k] * B[k][j] for k in range(len(B))) for j in range(len(B[0]) if B else 0)] for i in range(len(A))]


def ftr(A):
    return [list(r) for r in zip(*A)] if A else []


def fmaxdiff(A, B):
    return max([abs(a - b) for ra, rb in zip(A, B) for a, b in zip(ra, rb)] or [0.0])


def cond_matrix(rng, m, n, cond):
    """m x n real matrix with prescribed condition number (product of Householder-ish rotations)"""
    k = min(m, n)
    sv = [cond ** (-i / max(k - 1, 1)) for i in range(k)]

    def rand_orth(d):
        Q = [[float(i == j) for j in range(d)] for i in range(d)]
        for _ in range(2 * d):
            i, j = rng.randrange(d), rng.randrange(d)
            if i == j:
                continue
            t = rng.uniform(0, 2 * math.pi)
            c, s = math.cos(t), math.sin(t)
            for r in range(d):
                a, b = Q[r][i], Q[r][j]
                Q[r][i], Q[r][j] = c * a - s * b, s * a + c * b
        return Q
    U, V = rand_orth(m), rand_orth(n)
    S = [[sv[i] if i == j else 0.0 for j in range(n)] for i in range(m)]
    return fmul(fmul(U, S), ftr(V))


# ----------------------------------------------------------------------------- correspond

def correspond(ctx, corr):
    exe = ctx.build_cpp("c15_matvec", [ctx.verif / "harness" / "c15_matvec.cpp"])
    rng = ctx.rng
    cases = []       # (lines, meta)
    corpus = ctx.verif / "corpus" / "C15"
    if corpus.exists():
        for f in sorted(corpus.glob("*.txt")):
            cases.append(([l for l in f.read_text().split("\n") if l and not l.startswith("#")], ("corpus", f.name)))

    # 1. object scripts ---------------------------------------------------------
    for ops, key in pair_scripts():
        cases.append((ops, ("pair",) + key))
    for kind in "rvms":
        for _ in range(ctx.size(120, 4000)):
            ops, mixed = gen_script(rng, kind, ctx.size(30, 80))
            cases.append((ops, ("script", kind, mixed)))

    # 1b. Mat object histories with invert inside copy / assign chains (value semantics, exact rationals)
    for sim in inv_chain_scripts(rng):
        cases.append((sim.ops, ("invscript", sim.expect, sim.tags, "chain")))
    for _ in range(ctx.size(150, 3000)):
        sim = gen_inv_script(rng, ctx.size(24, 60))
        cases.append((sim.ops, ("invscript", sim.expect, sim.tags, "random")))

    # 1c. (W9c) SymMat / Vec / Mat object histories that go on after caught throws
    for _ in range(ctx.size(250, 4000)):
        ops, chol = gen_objhist(rng, ctx.size(30, 70))
        cases.append((ops, ("objhist", chol)))

    # 2. algebra: all dimension pairs, entries from {-1,0,1,2} -------------------
    N = ctx.size(3, 4)
    alg = []         # (name, sig, ops)
    for name, sig, _ in BINOPS:
        for (r1, c1) in dims_for(sig[0], N):
            for (r2, c2) in dims_for(sig[1], N):
                ops = [mk(rng, sig[0], r1, c1), mk(rng, sig[1], r2, c2)]
                alg.append((name, sig, ops))
    for name, sig, _ in UNOPS:
        for (r1, c1) in dims_for(sig[0], N + 1):
            for _ in range(2):
                alg.append((name, sig, [mk(rng, sig[0], r1, c1, vals=range(-9, 10))]))
    for name, sig in SCALE:
        for kind in sig:
            pass
        for (r1, c1) in dims_for(sig[0] if sig[0] != "K" else sig[1], N):
            a = mk(rng, sig[0] if sig[0] != "K" else sig[1], r1, c1)
            k = Opnd("K", 0, 0, [rng.choice([-2, -1, 0, 1, 3, 0.5])])
            alg.append((name, sig, [a, k] if sig[1] == "K" else [k, a]))

    # 2b. equal element count, different shape: every binary operator on matrix operands, member and
    #     non-member, both orders; the operand is built so that the *view* has the listed shape
    def mk_view(kind, shp):
        r, c = shp
        return mk(rng, kind, c, r) if kind == "T" else mk(rng, kind, r, c)
    n_eq = 0
    for name, sig, _ in BINOPS:
        if sig[0] not in "MT" or sig[1] not in "MT":
            continue
        for (s1, s2) in EQCOUNT:
            for (u, v) in ((s1, s2), (s2, s1)):
                for _ in range(ctx.size(2, 6)):
                    alg.append((name, sig, [mk_view(sig[0], u), mk_view(sig[1], v)]))
                    n_eq += 1
    corr.count("equal_count_different_shape_lines", n_eq)

    # 3. exhaustive tiny operands over {-1,0,1,2} --------------------------------
    vals = (-1, 0, 1, 2)
    tiny = [("mul", "MM", (1, 1), (1, 1)), ("mul", "MM", (1, 2), (2, 1)), ("mul", "MM", (2, 1), (1, 2)),
            ("mulg", "MM", (1, 2), (2, 1)), ("mulg", "MM", (2, 1), (1, 2)),
            ("mul", "MV", (2, 2), (2, 0)), ("mul", "MM", (2, 2), (2, 1)), ("mul", "MM", (1, 2), (2, 2)),
            ("mul", "MM", (3, 1), (1, 1)), ("mul", "MM", (1, 3), (3, 1)), ("mul", "TM", (2, 1), (2, 2)),
            ("mul", "MT", (2, 2), (1, 2)), ("mul", "TV", (2, 2), (2, 0)), ("mul", "WM", (2, 0), (2, 2)),
            ("mul", "MS", (1, 2), (2, 0)), ("add", "MM", (1, 2), (1, 2)), ("sub", "MT", (2, 1), (1, 2)),
            ("add", "SS", (2, 0), (2, 0)), ("mul", "SS", (2, 0), (2, 0)), ("dot", "VV", (3, 0), (3, 0))]
    big = [("mul", "MM", (2, 2), (2, 2)), ("mulg", "MM", (2, 2), (2, 2)), ("add", "MM", (2, 2), (2, 2)),
           ("mul", "TM", (2, 2), (2, 2)), ("mul", "MT", (2, 2), (2, 2))]
    n_exh = 0
    for name, sig, d1, d2 in tiny:
        n1, n2 = nelem(sig[0], *d1), nelem(sig[1], *d2)
        for x in itertools.product(vals, repeat=n1 + n2):
            alg.append((name, sig, [Opnd(sig[0], d1[0], d1[1], x[:n1]), Opnd(sig[1], d2[0], d2[1], x[n1:])]))
            n_exh += 1
    for name, sig, d1, d2 in big:
        n1, n2 = nelem(sig[0], *d1), nelem(sig[1], *d2)
        allx = itertools.product(vals, repeat=n1 + n2)
        if ctx.thorough:
            pick = allx
        else:
            pick = (tuple(rng.choice(vals) for _ in range(n1 + n2)) for _ in range(1500))
        for x in pick:
            alg.append((name, sig, [Opnd(sig[0], d1[0], d1[1], x[:n1]), Opnd(sig[1], d2[0], d2[1], x[n1:])]))
            n_exh += 1
    corr.count("exhaustive_tiny_lines", n_exh)

    # 4. random beyond: sizes up to 6, integers up to 9, dyadic fractions --------
    for _ in range(ctx.size(400, 6000)):
        name, sig, _r = rng.choice([b for b in BINOPS if (b[0], b[1]) not in DEFECT_OF])
        n, m, p = rng.randint(1, 6), rng.randint(1, 6), rng.randint(1, 6)
        dv = [v / 8 for v in range(-40, 41)]
        def mkc(kind, a, b):
            return mk(rng, kind, a, b, vals=dv)
        if name.startswith("mul") or name == "dot":
            if sig == "MM":
                ops = [mkc("M", n, m), mkc("M", m, p)]
            elif sig == "MV":
                ops = [mkc("M", n, m), mkc("V", m, 0)]
            elif sig == "TM":
                ops = [mkc("T", m, n), mkc("M", m, p)]
            elif sig == "MT":
                ops = [mkc("M", n, m), mkc("T", p, m)]
            elif sig == "TV":
                ops = [mkc("T", m, n), mkc("V", m, 0)]
            elif sig == "MS":
                ops = [mkc("M", n, m), mkc("S", m, 0)]
            elif sig == "WM":
                ops = [mkc("W", n, 0), mkc("M", n, m)]
            elif sig in ("WV", "VV"):
                ops = [mkc(sig[0], n, 0), mkc("V", n, 0)]
            else:
                continue
        else:
            if sig in ("MM",):
                ops = [mkc("M", n, m), mkc("M", n, m)]
            elif sig == "MT":
                ops = [mkc("M", n, m), mkc("T", m, n)]
            elif sig == "TM":
                ops = [mkc("T", m, n), mkc("M", n, m)]
            elif sig in ("VV", "SS"):
                ops = [mkc(sig[0], n, 0), mkc(sig[1], n, 0)]
            else:
                continue
        alg.append((name, sig, ops))

    # pack algebra lines: expected sanitizer aborts go into cases of their own (subsampled)
    chunk, aborting = [], []
    for name, sig, ops in alg:
        if expected_overrun(name, sig, ops):
            aborting.append((name, sig, ops))
            continue
        chunk.append((name, sig, ops))
        if len(chunk) == 400:
            cases.append(([line_of(a[0], a[2]) for a in chunk], ("alg", chunk)))
            chunk = []
    if chunk:
        cases.append(([line_of(a[0], a[2]) for a in chunk], ("alg", chunk)))
    rng.shuffle(aborting)
    seen_sites = {}
    for a in aborting:
        k = (a[0], a[1])
        if seen_sites.get(k, 0) < 2:
            seen_sites[k] = seen_sites.get(k, 0) + 1
            cases.append(([line_of(a[0], a[2])], ("alg", [a])))
    corr.count("expected_overrun_lines_skipped", len(aborting) - sum(seen_sites.values()))

    # 5. inverses, Cholesky, solve ------------------------------------------------
    numeric = []     # (line, kind, data)
    tol = 2.0 ** -52 * 1000
    for _ in range(ctx.size(250, 4000)):
        n = rng.randint(1, 5)
        A = rand_int_matrix(rng, n)
        if rng.random() < 0.3 and n >= 2:           # plant an exact singularity
            i, j = rng.sample(range(n), 2)
            A[i] = [a + 2 * b for a, b in zip(A[i], A[j])] if rng.random() < 0.5 else list(A[j])
            if rng.random() < 0.5:
                A[i] = list(A[j])
        numeric.append((f"op inv M {n} {n} {hs(v for r in A for v in r)} K {H(tol)}", "inv", A))
    for (r, c) in [(r, c) for r in range(0, 4) for c in range(0, 4) if r != c]:
        numeric.append((f"op inv M {r} {c}" + ("" if r * c == 0 else " " + hs([1] * (r * c))) + f" K {H(tol)}", "inv-nonsquare", None))
    numeric.append((f"op inv M 0 0 K {H(tol)}", "inv", []))
    for _ in range(ctx.size(200, 3000)):
        n = rng.randint(1, 5)
        A = spd_from(rng, n)
        numeric.append((f"op chol S {n}" + ("" if n == 0 else " " + hs(packed(A))) + f" K {H(1e-8)}", "chol", A))
        numeric.append((f"op sinv S {n}" + ("" if n == 0 else " " + hs(packed(A))), "sinv", A))
    for _ in range(ctx.size(80, 1000)):           # semidefinite / indefinite inputs for the rejection branches
        n = rng.randint(1, 4)
        A = spd_from(rng, n)
        k = rng.randrange(n)
        if rng.random() < 0.5:
            A[k][k] -= rng.randint(1, 30)
        else:
            for j in range(n):
                A[k][j] = A[j][k] = 0
        numeric.append((f"op chol S {n} " + hs(packed(A)) + f" K {H(1e-8)}", "chol-any", A))
        numeric.append((f"op sinv S {n} " + hs(packed(A)), "sinv-any", A))
    # exactly positive SEMI-definite inputs B B^T of rank < n (theorem symchol_psd: L L^T = A for any nullity)
    for _ in range(ctx.size(120, 2000)):
        n = rng.randint(2, 5)
        q = rng.randint(1, n - 1)
        B = [[rng.randint(-2, 2) for _ in range(q)] for _ in range(n)]
        A = [[sum(B[i][k] * B[j][k] for k in range(q)) for j in range(n)] for i in range(n)]
        numeric.append((f"op chol S {n} " + hs(packed(A)) + f" K {H(1e-8)}", "chol-psd", (A, B)))
    for i in range(0, len(numeric), 200):
        part = numeric[i:i + 200]
        cases.append(([p[0] for p in part], ("num", part)))
    # dimension 0 of the packed classes: `begin() - 1` on a null pointer (one case each: they abort)
    for line in (f"op chol S 0 K {H(1e-8)}", "op sinv S 0"):
        cases.append(([line], ("empty-sym", line)))

    # ---- run (phase 1)
    lines = [c[0] for c in cases]
    impl, crashes = run_cases(exe, lines)
    drv = ctx.driver("drv_matvec")
    mrat, _ = run_cases(drv, lines, args=("rat",))
    mflt, _ = run_cases(drv, lines, args=("float",))
    ctx.log(f"phase 1: {sum(len(l) for l in lines)} lines through the harness and both model instances")

    # ---- the generated guard table next to the implementation: for every algebra line of a guarded
    #      operator, `throw BadRank` <=> the guard of Gen/DimChecks.lean fires on the operands' shapes
    glines, gmeta = [], []
    for ci, (ls, meta) in enumerate(cases):
        if meta[0] != "alg" or ci in crashes:
            continue
        for li, (name, sig, ops) in enumerate(meta[1]):
            gname = GUARD_OF.get((name, sig))
            if gname is None or li >= len(impl[ci]):
                continue
            (r1, c1), (r2, c2) = shape(ops[0]), shape(ops[1])
            glines.append(f"guard {gname} {r1} {c1} {r2} {c2}")
            gmeta.append((ci, li, name, sig, gname))
    gout, _ = run_cases(drv, [glines], args=("rat",))
    ctx.log(f"guard table evaluated on {len(glines)} operand shape pairs")
    n_fire = n_eqshape_fire = 0
    for k, (ci, li, name, sig, gname) in enumerate(gmeta):
        g = gout[0][k].split() if k < len(gout[0]) else []
        threw = impl[ci][li] == "throw BadRank"
        if len(g) != 6 or g[0] != "guard":
            corr.disagree("guard-table", [glines[k]], [impl[ci][li]], [" ".join(g)])
            continue
        fires = g[1] == "1"
        n_fire += fires
        ops = cases[ci][1][1][li][2]
        s1, s2 = shape(ops[0]), shape(ops[1])
        if fires and s1 != s2 and s1[0] * s1[1] == s2[0] * s2[1] and sig[0] in "MT" and sig[1] in "MT" and name[:3] in ("add", "sub"):
            n_eqshape_fire += 1
        if fires != threw:
            corr.disagree("guard-table", [cases[ci][0][li], glines[k]], [impl[ci][li]], [" ".join(g)])
        if not fires and g[5] == "0" and (name, sig) not in DEFECT_OF:
            corr.fail(f"the guard of {gname} lets non-conforming operands through", {"stream": "algebra", "ops": [cases[ci][0][li]]},
                      f"{name}:{sig}", " ".join(g))
    corr.count("guard_table_lines", len(gmeta))
    corr.count("guard_table_fires", n_fire)
    corr.count("guard_fires_on_equal_count_different_shape_sums", n_eqshape_fire)
    if gmeta and n_eqshape_fire == 0:
        corr.inconclusive.append("no sum/difference of equally large but differently shaped matrices was generated")

    solve_lines = []
    max_dev = 0.0
    for ci, (ls, meta) in enumerate(cases):
        crashed = ci in crashes
        kind = meta[0]
        out = impl[ci]
        if kind in ("pair", "script", "corpus"):
            key = "\n".join(ls) if (kind == "script" and meta[2]) or (kind == "pair" and meta[2] != meta[3]) else None
            corr.case(key=key, sample={"script": ls[:10], "impl": out[:4]} if ci % 97 == 0 else None)
            if crashed:
                corr.fail("object script aborted under the sanitizers", {"stream": "script", "ops": ls},
                          "MemRep", crashes[ci][1])
                continue
            ok = len(out) == len(mrat[ci]) == len(mflt[ci]) and \
                all(lines_equal(a, b) for a, b in zip(out, mrat[ci])) and \
                all(lines_equal(a, b) for a, b in zip(out, mflt[ci]))
            if not ok:
                corr.disagree("script", ls, out, mrat[ci])
            # oracle on the implementation: UB events, copy independence
            dumps = [parse_dump(l) for l in out if l.startswith("dump")]
            if dumps and dumps[-1][1] > 0:
                corr.fail("memcpy called with a null pointer while copying an empty object (undefined behaviour)",
                          {"stream": "script", "ops": ls}, "MemRep::memcpy-null", f"ub={dumps[-1][1]}")
                corr.count("scripts_with_null_memcpy")
            if kind == "pair" and not crashed and dumps:
                sa = meta[2]
                a0 = dumps[0][2]
                bad = a0[0] != a0[1]
                if sa and len(dumps) >= 4:
                    bad |= dumps[1][2][0] != a0[0]           # writing the copy must not change the source
                    bad |= dumps[2][2][1] != dumps[1][2][1]  # writing the source must not change the copy
                    bad |= dumps[3][2][0] != dumps[2][2][0]
                if bad:
                    corr.fail("copy is not independent of its source", {"stream": "script", "ops": ls}, "MemRep::operator=", str(dumps))
            if dumps:
                corr.maxstat("max_leaked_blocks_in_a_script", max(d[0] for d in dumps) - sum(1 for s in dumps[-1][2] if s))
            continue
        if kind == "objhist":
            throws = [k for k, l in enumerate(out) if l.startswith("throw")]
            after = sum(1 for k in throws if any(o.startswith("dump") for o in out[k + 1:]))
            corr.case(key="\n".join(ls) if throws else None, sample={"script": ls[:10], "impl": out[:4]} if ci % 53 == 0 else None)
            corr.count("objhist_cases")
            corr.count("objhist_caught_throws", len(throws))
            corr.count("objhist_caught_badrank", sum(1 for k in throws if out[k] == "throw BadRank"))
            corr.count("objhist_caught_singular", sum(1 for k in throws if out[k] == "throw Singular"))
            corr.count("objhist_throwing_inplace_sym", sum(1 for k in throws if ls[k].startswith(("s.invert", "s.chol"))))
            corr.count("objhist_dumps_after_a_throw", after)
            payload = {"stream": "objhist", "ops": ls}
            if crashed:
                corr.fail("object history with caught exceptions aborted under the sanitizers", payload, "objhist", crashes[ci][1])
                continue
            agree = len(out) == len(mflt[ci]) and all(lines_equal(a, b, rtol=1e-9, atol=1e-12) for a, b in zip(out, mflt[ci]))
            nonfinite = any(("0x7ff" in l) or ("0xfff" in l) for l in out)    # x/0 in double (zero pivot): no exact counterpart
            corr.count("objhist_compared_with_exact_model", int(not meta[1] and not nonfinite))
            if agree and not meta[1] and not nonfinite:        # no cholDec (sqrt): the exact model too
                agree = len(out) == len(mrat[ci]) and all(lines_equal(a, b, rtol=1e-7, atol=1e-9) for a, b in zip(out, mrat[ci]))
            if not agree:
                k = next((k for k, (a, b) in enumerate(zip(out, mflt[ci])) if not lines_equal(a, b, rtol=1e-9, atol=1e-12)), 0)
                corr.fail("an object's state in a history with caught exceptions is not the state of the object-history model "
                          "(value semantics with the catch rule)", payload, "objhist",
                          f"line {k} `{ls[k] if k < len(ls) else ''}`: implementation {out[k][:300] if k < len(out) else ''} model {mflt[ci][k][:300] if k < len(mflt[ci]) else ''}")
            continue
        if kind == "invscript":
            expect, tags = meta[1], meta[2]
            interesting = "copy_of_inverted" in tags and "second_inversion" in tags
            corr.case(key="\n".join(ls) if interesting else None,
                      sample={"script": ls[:12], "impl": out[:4]} if ci % 41 == 0 else None)
            corr.count("invscript_cases")
            for tg in tags:
                corr.count("invscript_" + tg)
            payload = {"stream": "invscript", "ops": ls}
            if crashed:
                corr.fail("Mat object history with invert aborted under the sanitizers", payload, "Mat::invert/history", crashes[ci][1])
                continue
            agree = len(out) == len(mrat[ci]) == len(mflt[ci]) and \
                all(lines_equal(a, b, rtol=1e-9, atol=1e-12) for a, b in zip(out, mrat[ci])) and \
                all(lines_equal(a, b, rtol=1e-9, atol=1e-12) for a, b in zip(out, mflt[ci]))
            if not agree:
                corr.disagree("invscript", ls, out, mrat[ci])
            # oracle: value semantics with exact rationals, on the implementation AND exactly on the Rat model
            expect_js = [e if isinstance(e, str) else {str(k): [v[0], v[1], [str(q) for q in v[2]]] for k, v in e.items()} for e in expect]
            payload["expect"] = expect_js
            problem = None
            for who, lines_, exact in (("implementation", out, False), ("model", mrat[ci], True)):
                pr = inv_oracle(lines_, expect_js, exact)
                if pr and not problem:
                    problem = (who,) + pr
            if problem and problem[0] == "implementation":
                corr.fail("an object's value after a copy/assign/invert history is not the value computed by value semantics "
                          "(copies are not independent of their source / inv(A) is not the inverse)",
                          payload, "Mat::invert/history", f"line {problem[1]} `{ls[problem[1]] if problem[1] < len(ls) else ''}`: {problem[2]}")
            elif problem:
                corr.disagree("invscript-model-vs-value-semantics", ls, [str(problem)], mrat[ci][:problem[1] + 1][-3:])
            continue
        if kind == "alg":
            items = meta[1]
            for li, (name, sig, ops) in enumerate(items):
                nonempty = all(nelem(o.kind, o.r, o.c) > 0 for o in ops)
                corr.case(key=ls[li] if nonempty else None,
                          sample={"line": ls[li][:200], "impl": (out[li] if li < len(out) else "")[:200]} if (ci * 400 + li) % 5003 == 0 else None)
                corr.count("alg_" + name + "_" + sig)
            if crashed:
                li = len(out) - 1 if out and out[-1].startswith("<crash") else len(out)
                li = min(max(li, 0), len(items) - 1)
                name, sig, ops = items[li]
                model_line = mrat[ci][li] if li < len(mrat[ci]) else ""
                check_algebra_line(corr, name, sig, ops, "", True, crashes[ci][1][-1500:])
                nulloff = "applying non-zero offset" in crashes[ci][1] and "null pointer" in crashes[ci][1]
                if model_line != "reads-outside-operands" and not nulloff:
                    corr.disagree("algebra", [ls[li]], ["<sanitizer abort>"], [model_line])
                out = out[:li]
            for li, (name, sig, ops) in enumerate(items[:len(out)]):
                a, b, c = out[li], mrat[ci][li] if li < len(mrat[ci]) else "", mflt[ci][li] if li < len(mflt[ci]) else ""
                if b == "reads-outside-operands":
                    # the model says the code leaves its operands although the sanitizers did not abort
                    corr.fail(f"operator {name} on {sig} reads outside its operands (model; no sanitizer abort)",
                              {"stream": "algebra", "ops": [ls[li]]}, f"{name}:{sig}", a)
                    continue
                if not lines_equal(a, b) or not lines_equal(a, c, rtol=1e-12, atol=1e-12):
                    corr.disagree("algebra", [ls[li]], [a], [b, c])
                if a.startswith("throw"):
                    corr.count("throws_" + a.split()[1])
                check_algebra_line(corr, name, sig, ops, a, False, "")
            continue
        if kind == "empty-sym":
            corr.case(key=None)
            if crashed and "applying non-zero offset" in crashes[ci][1]:
                corr.fail("SymMat of dimension 0: pointer arithmetic on a null pointer (undefined behaviour)",
                          {"stream": "numeric", "ops": ls}, "symmat-empty", crashes[ci][1][-1500:])
            elif crashed:
                corr.fail("SymMat of dimension 0 aborted under the sanitizers", {"stream": "numeric", "ops": ls}, "numeric", crashes[ci][1])
            elif out != mflt[ci]:
                corr.disagree("empty-sym", ls, out, mflt[ci])
            continue
        if kind == "num":
            for li, (line, nk, A) in enumerate(meta[1]):
                corr.case(key=line if A else None)
                if li >= len(out):
                    break
                a = out[li]
                b = mrat[ci][li] if li < len(mrat[ci]) else ""
                c = mflt[ci][li] if li < len(mflt[ci]) else ""
                payload = {"stream": "numeric", "ops": [line]}
                corr.count("num_" + nk + ("_throw" if a.startswith("throw") else "_ok"))
                if nk.startswith("chol"):
                    # needs sqrt: Float instance only (`skip` at Rat)
                    if not lines_equal(a, c, rtol=1e-9, atol=1e-9):
                        corr.disagree("chol", [line], [a], [c])
                else:
                    # semidefinite / indefinite inputs divide by exact zeros: only the IEEE instance is comparable
                    if not nk.endswith("-any") and not lines_equal(a, b, rtol=1e-7, atol=1e-9):
                        corr.disagree(nk, [line], [a], [b])
                    if not lines_equal(a, c, rtol=1e-7, atol=1e-9):
                        corr.disagree(nk + "-float", [line], [a], [c])
                # oracle on the implementation
                if nk == "inv-nonsquare" and a != "throw BadRank":
                    corr.fail("Mat::invert of a non-square matrix did not raise BadRank", payload, "Mat::invert", a)
                if nk == "inv" and A is not None:
                    n = len(A)
                    d = det(A) if n else Fraction(1)
                    if d == 0:
                        if a != "throw Singular":
                            corr.fail("Mat::invert of an exactly singular matrix did not raise Singular", payload, "Mat::invert", a)
                    else:
                        got = parse_out(a)
                        if got is None:
                            corr.fail("Mat::invert rejected a well-conditioned matrix", payload, "Mat::invert", a)
                        else:
                            X = fmat(n, n, [float(v) for v in got[3]])
                            I = fmul(X, [[float(v) for v in r] for r in A])
                            dev = fmaxdiff(I, [[float(i == j) for j in range(n)] for i in range(n)])
                            max_dev = max(max_dev, dev)
                            if dev > 1e-8:
                                corr.fail("inv(A)*A differs from I", payload, "Mat::invert", f"dev={dev}")
                if nk == "chol" and A is not None:
                    n = len(A)
                    t = a.split()
                    if not a.startswith("ok S") or t[-1] != "0":
                        corr.fail("SymMat::cholDec did not factor an exactly SPD matrix", payload, "SymMat::cholDec", a)
                    else:
                        x = [hex2float(v) for v in t[3:3 + n * (n + 1) // 2]]
                        L = [[x[i * (i + 1) // 2 + j] if j <= i else 0.0 for j in range(n)] for i in range(n)]
                        dev = fmaxdiff(fmul(L, ftr(L)) if n else [], [[float(v) for v in r] for r in A])
                        max_dev = max(max_dev, dev)
                        if dev > 1e-9 * (1 + max([abs(v) for r in A for v in r] or [0])):
                            corr.fail("L*trans(L) differs from A", payload, "SymMat::cholDec", f"dev={dev}")
                        if n:
                            rhs = [rng.randint(-5, 5) for _ in range(n)]
                            solve_lines.append((f"op solve S {n} {' '.join(t[3:3 + n * (n + 1) // 2])} V {n} {hs(rhs)}", A, rhs))
                if nk == "chol-psd":
                    A, B = A
                    n = len(A)
                    t = a.split()
                    # exact rank of B (= rank of B B^T) by fraction elimination
                    Mx = [[Fraction(v) for v in row] for row in B]
                    rank, col = 0, 0
                    while rank < len(Mx) and col < len(Mx[0]):
                        pr = next((r for r in range(rank, len(Mx)) if Mx[r][col] != 0), None)
                        if pr is None:
                            col += 1
                            continue
                        Mx[rank], Mx[pr] = Mx[pr], Mx[rank]
                        for r in range(rank + 1, len(Mx)):
                            f = Mx[r][col] / Mx[rank][col]
                            Mx[r] = [x - f * y for x, y in zip(Mx[r], Mx[rank])]
                        rank += 1
                        col += 1
                    if not a.startswith("ok S"):
                        corr.fail("SymMat::cholDec rejected an exactly positive semi-definite matrix", payload, "SymMat::cholDec", a)
                    else:
                        corr.count("chol_psd_nullity_" + t[-1])
                        x = [hex2float(v) for v in t[3:3 + n * (n + 1) // 2]]
                        L = [[x[i * (i + 1) // 2 + j] if j <= i else 0.0 for j in range(n)] for i in range(n)]
                        dev = fmaxdiff(fmul(L, ftr(L)), [[float(v) for v in r] for r in A])
                        max_dev = max(max_dev, dev)
                        if dev > 1e-6 * (1 + max(abs(v) for r in A for v in r)):
                            corr.fail("L*trans(L) differs from a positive semi-definite A", payload, "SymMat::cholDec", f"dev={dev}")
                        if int(t[-1]) != n - rank:
                            corr.fail("SymMat::cholDec reports a nullity different from n - rank(A)", payload, "SymMat::cholDec",
                                      f"nullity={t[-1]} rank={rank} n={n}")
                if nk == "sinv" and A is not None and len(A):
                    n = len(A)
                    got = parse_out(a)
                    if got is None:
                        corr.fail("SymMat::invert rejected an SPD matrix", payload, "SymMat::invert", a)
                    else:
                        x = [float(v) for v in got[3]]
                        X = [[x[max(i, j) * (max(i, j) + 1) // 2 + min(i, j)] for j in range(n)] for i in range(n)]
                        dev = fmaxdiff(fmul(X, [[float(v) for v in r] for r in A]), [[float(i == j) for j in range(n)] for i in range(n)])
                        max_dev = max(max_dev, dev)
                        if dev > 1e-7:
                            corr.fail("SymMat inverse times A differs from I", payload, "SymMat::invert", f"dev={dev}")
            if crashed:
                corr.fail("numeric stream aborted under the sanitizers", {"stream": "numeric", "ops": ls}, "numeric", crashes[ci][1])

    # ---- phase 2: solve with the implementation's factors; SVD certificate + pinv (model on the C++'s own U, W, V)
    svd_in = []
    shapes = [(m, n) for m in range(1, 7) for n in range(1, 6)]
    n_svd = ctx.size(90, 1500)
    for k in range(n_svd):
        # every third case tall, square, wide in turn, so that each class is exercised on every run
        want = ("tall", "square", "wide")[k % 3]
        m, n = rng.choice([d for d in shapes if (d[0] > d[1], d[0] == d[1], d[0] < d[1])[("tall", "square", "wide").index(want)]])
        r = rng.random()
        if r < 0.45:
            A = cond_matrix(rng, m, n, 10 ** rng.uniform(0, 3))
            cls = "well"
        elif r < 0.7:
            A = cond_matrix(rng, m, n, 10 ** rng.uniform(6, 11))
            cls = "ill"
        else:                                   # exactly rank deficient small-integer matrix (rank < min(m, n) when min > 1)
            q = max(min(m, n) - 1, 1)
            B = [[rng.randint(-3, 3) for _ in range(q)] for _ in range(m)]
            C = [[rng.randint(-2, 2) for _ in range(n)] for _ in range(q)]
            A = [[float(v) for v in row] for row in fmul(B, C)]
            cls = "deficient"
        svd_in.append((m, n, A, cls + "_" + want))
    p2 = [[f"op svd M {m} {n} {hs(v for r in A for v in r)}" for (m, n, A, _) in svd_in],
          [s[0] for s in solve_lines]]
    ctx.log("phase 1 compared; phase 2 (solve, svd, pinv)")
    impl2, crashes2 = run_cases(exe, p2)
    if crashes2:
        corr.fail("svd / solve stream aborted under the sanitizers", {"stream": "svd", "ops": p2[min(crashes2)][:3]}, "SVD", str(crashes2)[:1500])
    ctx.log("svd/solve lines through the harness")
    # the model's substitution loops keep the right-hand side as a function (every read replays the earlier
    # updates): dimension 5 costs most of the time, so the quick tier runs the model up to dimension 4, the thorough tier
    # also on the first 150 systems of dimension 5 (the oracle A x = b on the C++ answer runs on all)
    in_model, n5 = [], 0
    for (_l, A, _r) in solve_lines:
        ok = len(A) <= 4
        if not ok and ctx.thorough and n5 < 150:
            ok, n5 = True, n5 + 1
        in_model.append(ok)
    msolve = [l for l, ok in zip(p2[1], in_model) if ok]
    flt2, _ = run_cases(drv, [[], msolve], args=("float",))
    rat2, _ = run_cases(drv, [[], msolve], args=("rat",))
    ctx.log(f"{len(msolve)} of {len(p2[1])} solve lines through the model")
    corr.count("solve_lines_through_the_model", len(msolve))
    mi = -1
    for li, (line, A, rhs) in enumerate(solve_lines):
        corr.case(key=line)
        if in_model[li]:
            mi += 1
        if li >= len(impl2[1]):
            break
        a = impl2[1][li]
        if in_model[li] and (mi >= len(flt2[1]) or mi >= len(rat2[1]) or not lines_equal(a, flt2[1][mi], rtol=1e-9, atol=1e-9)
                             or not lines_equal(a, rat2[1][mi], rtol=1e-7, atol=1e-9)):
            corr.disagree("solve", [line], [a], [flt2[1][mi] if mi < len(flt2[1]) else "", rat2[1][mi] if mi < len(rat2[1]) else ""])
        got = parse_out(a)
        if got is None:
            corr.fail("SymMat::solve gave no answer", {"stream": "numeric", "ops": [line]}, "SymMat::solve", a)
            continue
        x = [float(v) for v in got[3]]
        res = max(abs(sum(float(A[i][j]) * x[j] for j in range(len(A))) - rhs[i]) for i in range(len(A)))
        max_dev = max(max_dev, res)
        if res > 1e-7 * (1 + max(abs(v) for v in x)):
            corr.fail("SymMat::solve does not solve A x = b", {"stream": "numeric", "ops": [line]}, "SymMat::solve", f"residual={res}")
    corr.maxstat("max_numeric_oracle_deviation", max_dev)

    # SVD certificate (hypotheses of Props.C15.pinv_moore_penrose, evaluated on what the C++ SVD returned, every
    # shape incl. wide) + pinv: the model `pinvFrom` on the C++'s own (U, W, V, W_tol) next to the C++ `pinv`
    pinv_lines, pinvc_lines, pinv_meta = [], [], []
    cert_dev = {"recon": 0.0, "orthU": 0.0, "orthV": 0.0, "dropped": 0.0}
    for li, (m, n, A, cls) in enumerate(svd_in):
        corr.case(key=p2[0][li])
        corr.count("svd_" + cls)
        if li >= len(impl2[0]):
            break
        t = impl2[0][li].split()
        payload = {"stream": "svd", "ops": [p2[0][li]]}
        if t[:2] != ["ok", "U"]:
            if not cls.startswith("ill"):
                corr.fail("SVD failed on a well-conditioned / small-integer matrix", payload, "SVD::svd", impl2[0][li])
            continue
        try:
            assert (int(t[2]), int(t[3])) == (m, n)
            U = fmat(m, n, [hex2float(v) for v in t[4:4 + m * n]])
            o = 4 + m * n
            assert t[o] == "W" and int(t[o + 1]) == n
            W = [hex2float(v) for v in t[o + 2:o + 2 + n]]
            o = o + 2 + n
            assert t[o] == "V" and (int(t[o + 1]), int(t[o + 2])) == (n, n)
            V = fmat(n, n, [hex2float(v) for v in t[o + 3:o + 3 + n * n]])
            o = o + 3 + n * n
            assert t[o] == "K" and len(t) == o + 2
            wtol = hex2float(t[o + 1])
        except (AssertionError, IndexError, ValueError):
            corr.fail("SVD returned factors of the wrong shape", payload, "SVD::svd", impl2[0][li][:300])
            continue
        if any(math.isnan(v) or math.isinf(v) for v in W + [x for r in U for x in r] + [x for r in V for x in r]):
            corr.fail("SVD returned non-finite factors", payload, "SVD::svd", f"class={cls}")
            continue
        scale = max(abs(v) for r in A for v in r) or 1.0
        UW = [[U[i][k] * W[k] for k in range(n)] for i in range(m)]
        recon = fmaxdiff(fmul(UW, ftr(V)), A) / scale
        vmax = max([0.0] + W)                                   # set_inv_W: signed maximum starting from 0
        kept = [k for k in range(n) if abs(W[k]) > wtol * vmax]
        dropped = max([abs(W[k]) / vmax for k in range(n) if k not in kept and vmax > 0] or [0.0])
        UtU = fmul(ftr(U), U)
        orthU = max([abs(UtU[i][j] - float(i == j)) for i in kept for j in kept] or [0.0])
        VtV = fmul(ftr(V), V)
        orthV = fmaxdiff(VtV, [[float(i == j) for j in range(n)] for i in range(n)])
        for kk, vv in (("recon", recon), ("orthU", orthU), ("orthV", orthV), ("dropped", dropped)):
            cert_dev[kk] = max(cert_dev[kk], vv)
        corr.count("svd_kept_rank_" + ("full" if len(kept) == min(m, n) else "deficient"))
        if len(kept) > min(m, n):
            corr.fail("SVD keeps more singular values than min(rows, cols)", payload, "SVD::svd",
                      f"kept={len(kept)} shape={m}x{n} W={W} class={cls}")
        elif recon > 1e-10 or orthU > 1e-10 or orthV > 1e-10 or dropped > 1e-12:
            corr.fail("SVD certificate fails (A != U W V^T, factors not orthonormal, or a dropped singular value is not negligible)",
                      payload, "SVD::svd", f"recon={recon} orthU={orthU} orthV={orthV} dropped={dropped} shape={m}x{n} class={cls}")
        flatA = hs(v for r in A for v in r)
        pinv_lines.append(f"op pinv M {m} {n} {flatA}")
        pinvc_lines.append(f"op pinvc M {m} {n} {flatA} M {m} {n} {hs(v for r in U for v in r)} V {n} {hs(W)} "
                           f"M {n} {n} {hs(v for r in V for v in r)} K {H(wtol)}")
        pinv_meta.append((m, n, A, cls, U, W, V))
    ctx.log("SVD certificates evaluated")
    impl3, crashes3 = run_cases(exe, [pinv_lines])
    if crashes3:
        corr.fail("pinv stream aborted under the sanitizers", {"stream": "svd", "ops": pinv_lines[:3]}, "pinv", str(crashes3)[:1500])
    mod3f, _ = run_cases(drv, [pinvc_lines], args=("float",))
    ctx.log("pinv: Float model done")
    # exact rational evaluation of the same formula: doubles are dyadic rationals, the sums of triple products grow
    # quickly, so the exact instance runs on the small shapes only (quick tier)
    rat_ok = [ctx.thorough or (m * n <= 30) for (m, n, *_r) in pinv_meta]
    rat_out, _ = run_cases(drv, [[l for l, ok in zip(pinvc_lines, rat_ok) if ok]], args=("rat",))
    it = iter(rat_out[0])
    mod3r = [[next(it, "") if ok else None for ok in rat_ok]]
    corr.count("pinv_exact_rational_instances", sum(rat_ok))
    ctx.log(f"pinv: {len(pinvc_lines)} decompositions through the model (Float, Rat)")
    for li, (m, n, A, cls, U, W, V) in enumerate(pinv_meta):
        if li >= len(impl3[0]):
            break
        corr.case(key=pinv_lines[li])
        a = impl3[0][li]
        got = parse_out(a)
        if got is None:
            corr.fail("pinv gave no answer", {"stream": "svd", "ops": [pinv_lines[li]]}, "pinv", a[:300])
            continue
        P = fmat(n, m, [float(v) for v in got[3]])
        ps = max([abs(v) for r in P for v in r] or [1.0]) or 1.0
        # correspondence: the model of pinv.h on the same decomposition (same summation order: Float nearly exact)
        bf = mod3f[0][li] if li < len(mod3f[0]) else ""
        br = mod3r[0][li] if li < len(mod3r[0]) else ""
        if not lines_equal(a, bf, rtol=1e-12, atol=1e-12 * ps) or (br is not None and not lines_equal(a, br, rtol=1e-9, atol=1e-9 * ps)):
            corr.disagree("pinv", [pinv_lines[li], pinvc_lines[li][:400]], [a], [bf, br])
        sc = max(abs(v) for r in A for v in r) or 1.0
        AP, PA = fmul(A, P), fmul(P, A)
        c1 = fmaxdiff(fmul(AP, A), A) / sc
        c2 = fmaxdiff(fmul(PA, P), P) / ps
        c3 = fmaxdiff(AP, ftr(AP))
        c4 = fmaxdiff(PA, ftr(PA))
        worst = max(c1, c2, c3, c4)
        corr.maxstat("pinv_moore_penrose_max_dev_" + cls.split("_")[0], worst)
        # gap between kept and dropped singular values decides how sharp the conditions can be
        lim = 1e-8 if not cls.startswith("ill") else 1e-3
        if worst > lim:
            corr.fail("pinv violates a Moore-Penrose condition", {"stream": "svd", "ops": [pinv_lines[li]]}, "pinv",
                      f"AXA-A={c1} XAX-X={c2} sym(AX)={c3} sym(XA)={c4} shape={m}x{n} class={cls}")
    for k, v in cert_dev.items():
        corr.maxstat("svd_certificate_max_" + k, v)
    for want in ("tall", "square", "wide"):
        if not any(c[3].endswith(want) for c in pinv_meta):
            corr.inconclusive.append(f"no {want} matrix went through the SVD certificate")

    for tg, least in (("copy_of_inverted", 60), ("second_inversion", 60), ("assign_different_sizes_from_inverted", 15),
                      ("assign_from_never_inverted", 15), ("singular", 5), ("badrank", 5), ("reset_after_invert", 15)):
        if corr.stats.get("invscript_" + tg, 0) < least:
            corr.inconclusive.append(f"fewer than {least} Mat histories with invert tagged {tg}")
    for tg, least in (("objhist_caught_badrank", 200), ("objhist_caught_singular", 10), ("objhist_throwing_inplace_sym", 10),
                      ("objhist_dumps_after_a_throw", 200)):
        if corr.stats.get(tg, 0) < least:
            corr.inconclusive.append(f"object histories with caught exceptions: {tg} = {corr.stats.get(tg, 0)} < {least}")
    n_mixed = sum(1 for c in cases if c[1][0] == "script" and c[1][2])
    corr.count("scripts_with_assignment_between_different_sizes", n_mixed)
    if n_mixed < 0.3 * sum(1 for c in cases if c[1][0] == "script"):
        corr.inconclusive.append("fewer than 30% of the object scripts assign between different sizes")


def classify(ctx, failure):
    site, what = failure.site, failure.what
    if site == "MemRep::memcpy-null":
        return "C15-memcpy-null"
    if site == "symmat-empty":
        return "C15-symmat-empty-null-offset"
    if site.count(":") == 1:
        name, sig = site.split(":")
        fid = DEFECT_OF.get((name, sig))
        if fid is None:
            return None
        line = (failure.replay.get("ops") or [""])[0]
        if fid == "C15-symmat-product":
            # only the finding's own face: the lower triangle IS that of AB (symmat.h computes it correctly and mirrors it);
            # any other wrong SymMat*SymMat answer is a new violation
            return fid if "(lower triangle of the exact product, mirrored)" in what else None
        return fid
    return None


def explained_by_known(ctx, broken_item, matched_ids):
    return False


def replay(ctx, payload):
    f = payload.get("failure") or {}
    inp = f.get("input") or {}
    ops = inp.get("ops")
    print(json.dumps({k: f.get(k) for k in ("what", "site")}, indent=1))
    if not ops:
        print(json.dumps(payload.get("no_longer_checks"), indent=1)[:4000])
        return 0
    try:
        translate(ctx)          # the driver must be the model of THIS tree (Gen/MatMembers.lean, Gen/DimChecks.lean)
    except TieBroken as e:
        print("translator:", e)
    ok, log = ctx.lake_build(DRIVERS)
    if not ok:
        print("lake build drv_matvec failed:", log[-400:])
    exe = ctx.build_cpp("c15_matvec", [ctx.verif / "harness" / "c15_matvec.cpp"])
    impl, crashes = run_cases(exe, [ops])
    model, _ = run_cases(ctx.driver("drv_matvec"), [ops], args=("rat",))
    if inp.get("stream") == "invscript" and inp.get("expect") and not crashes:
        pr = inv_oracle(impl[0], inp["expect"], False)
        for l in ops[:40]:
            print("  >", l[:300])
        print("implementation:", *[l[:300] for l in impl[0][-6:]], sep="\n  ")
        print("value semantics:", "agrees" if pr is None else f"line {pr[0]}: {pr[1]}")
        return 0 if pr is None and all(lines_equal(a, b, rtol=1e-9, atol=1e-12) for a, b in zip(impl[0], model[0])) else 1
    for l in ops[:40]:
        print("  >", l[:300])
    print("implementation:", *[l[:300] for l in impl[0][-6:]], sep="\n  ")
    print("model (Rat):", *[l[:300] for l in model[0][-6:]], sep="\n  ")
    if crashes:
        print(crashes[0][1][-1500:])
    return 1 if (crashes or impl[0] != model[0]) else 0
