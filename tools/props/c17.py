"""C17 — statistical critical values invert the distributions they belong to."""
import math
import subprocess
from lib.core import *

ID = "C17"
PROPS_FILES = ["Gama/Props/C17.lean"]
LEAN_TARGETS = ["Gama.Props.C17"]
DRIVERS = ["drv_statan"]
RULE = ("ops normal/student/chi/nd/ks; alpha: fixed grid 0.0005..0.9995 (accuracy, against mpmath at 30 digits) plus seeded "
        "random alphas, log-spaced 1e-12..0.5 and mirrored (monotone/finite); dof 1..30, 40, 60, 120, 1000, 1e4, 1e6; chi-square "
        "lower critical values p in (0.5, 0.9995] x n = 3..8 (fixed + seeded); NormalDistribution x in [-40,40] with every branch "
        "region populated: power series [-2.32, 3.5], continued fraction WITH the maxd/mind rescaling [-2.80, -2.32) (counted by a "
        "replica of the loop; inconclusive if fewer than 20 rescaled cases), continued fraction without rescaling, density "
        "underflow |x| > 38.6, branch points 0, +-2.32, +-3.5; fine grids (49 points, relative step 2.5e-9) across the Chi_square "
        "polynomial switch |Normal(p)| = (n-1)/4 for n = 3..20, both signs, and 200 points (relative step 1.35e-6) at alpha = 1e-12 "
        "for Normal (every upward step is an oracle failure; C17-F2 is a known finding, C17-F3 is repaired); distinct = distinct op line; non-trivial = alpha != 0.5 / x != 0")
TRUSTED = ["mpmath 30-digit erfc / regularised incomplete beta and gamma (quadrature of the density for dof > 5000) as the "
           "reference distribution functions (tools/gen/c17_ref.py, run with python3-vt)",
           "translator tools/gen/c17_statan.py (own expression parser over regex-located fragments of statan.cpp: loop exit tests, "
           "maxd/mind rescaling block, Chi_square selector and polynomials, KSprob tests, which tail Normal takes -> Gen/StatanGen)",
           "translator tools/gen/c17_constants.py on the C front end tools/gen/cfun.py (Normal, Student, Chi_square, "
           "NormalDistribution whole, one definition per function, literals as exact decimals -> Gen/StatanFns; the two loop bodies "
           "of NormalDistribution are PINNED text: a change inside a loop stops the run, it is not regenerated)",
           "tools/gen/c17_chimono.py is NOT a translator and not run by the check: it printed the rational bounds inside "
           "Lemmas/StatanChiMono.lean; the Lean proof re-derives the expansion by ring against the regenerated polynomials"]
MODELLED = ["libm exp/log/pow/sqrt/sin/cos (shared by model execution and C++)",
            "IEEE rounding (theorems are about the same formulas over the reals)",
            "exit of the power-series loop of NormalDistribution: over R its test D - s <= 0 never fires (proved); in floating point "
            "it fires by absorption. The model takes fuel (1e8 in the driver, never exhausted); over R fuel = number of terms, with a "
            "proved truncation bound. The continued-fraction loop provably stops within 1e5 passes over R."]
ASSUMPTIONS = ["0 < alpha < 1, N >= 1 (the functions do not check their arguments)"]
LEVEL = "proof"
LEVEL_TEXT = ("PARTIAL. Lean 4 theorems over R about a line-by-line model of statan.cpp whose decision fragments (loop exit tests, "
              "the maxd/mind rescaling block, the Chi_square selector and polynomials) are regenerated from the C++ on every run, and "
              "which is proved EQUAL (C17_statan_source_tie) to Normal / Student / Chi_square / NormalDistribution regenerated whole "
              "from the source - every coefficient, threshold, branch and statement; the two loop bodies of NormalDistribution are "
              "pinned text: "
              "Normal(1-a) = -Normal(a), Student antisymmetry and Student(1/2,N) = 0; the closed forms N = 1 (Cauchy tail "
              "1/2 - arctan(t)/pi = a), N = 2, chi-square n = 2 (exp(-x/2) = p) and n = 1 (= Normal(p/2)^2) are exact inverses and "
              "strictly monotone (n = 1 given monotone Normal; the start value of Normal is proved monotone); no singular operation "
              "in Normal, in Chi_square, in Student (N <= 2; N >= 3: prelude, first Hill divisor for every x <= 1 i.e. under the "
              "stated bound -1 <= Normal, second Hill divisor for N <= 10000 - over R it does vanish for N > 29560). "
              "NormalDistribution: the rescaling leaves every convergent unchanged (rescale_invariant), continued-fraction invariant "
              "(positive denominators, decreasing positive convergents, gap <= 6 e0/((k+1)(k+2)(k+3))), the loop stops within 1e5 "
              "passes so every fuel >= 1e5 gives the same value, range of the computed tail, power series = partial sum with a "
              "geometric truncation bound (its exit test never fires over R), D(-x) = 1 - D(x) where both signs take the same branch; "
              "the Chi_square selector depends on |t| only. Chi_square(p, n), n >= 3, equals n*chiZ(Normal p)^3 (the probability enters "
              "through Normal(p) only); both regenerated polynomials are strictly increasing in t/sqrt(n) on [-7/4, 7/4] for every "
              "n >= 3 (so Chi_square is monotone in Normal(p) inside the window t^2 <= 49n/16 - all |t| <= 3.5 for n >= 4 - and "
              "inside one piece of the selector); junction inequalities for n = 4, 16; NEG theorems: a downward step at the junction "
              "t = -2 for n = 9 (known finding C17-F2, replayed: n = 7, 8, 9) and the turned polynomial in the extreme tail (known finding C17-F1). "
              "Student N >= 3: the tail Hill branch strictly decreasing in alpha for N <= 10000; the first Hill branch equals "
              "sqrt(N*hillExp(a*y1^2)) with x = -Normal(alpha) entering through y1 only, its outer map (incl. the 0.002 switch "
              "between 0.5y^2+y and exp(y)-1) strictly increasing, so Student is monotone there GIVEN y1^2 ordered (the rational "
              "function of x and Normal itself: not proved). KSprob regenerated whole (constants, start values; loops pinned) and "
              "proved equal to the model (C17_ksprob_source_tie). "
              "Student, 3 <= N <= 10000, on the regenerated function: Hill's tail branch ((d*2a)^(2/N) <= a + 0.05) is strictly "
              "decreasing in the probability and positive below 1/2, mirrored above (C17_hill_tail_radicand_anti, "
              "C17_student_mono_hill_tail); for N = 3 that is every alpha <= 1/24 (C17_student_mono_N3); the other Hill branch "
              "(through Normal) and the junction between the branches are not proved. Normal: the model carries both forms of the "
              "upper tail of the start value (1 - D(z) and D(-z)), selected by the regenerated flag StatanGen.normalUpperDirect - true "
              "since /repo 708b5036 (finding C17-F3, FIXED); symmetry, definedness, fuel independence hold for both. Model tied to the C++ by translation of the fragments + correspondence at "
              "Float (bit-identical in practice). "
              "The ACCURACY clauses (1e-6 / 5e-4 / 5e-3), MONOTONICITY of Normal itself (hence of Chi_square n >= 3 in p, proved only "
              "relative to it: C17_chi2_mono_given_normal), of Student's first Hill branch, and NormalDistribution(Normal(a)) = 1 - a "
              "are NOT proved (Mathlib has no verified enclosures of the normal/Student/chi-square distribution functions): they are "
              "searched on every run against mpmath references on the grid stated in the rule.")
LEVEL_NOTE = ("partial: accuracy, monotonicity of Normal itself (hence of chi-square n >= 3 in p, proved only relative to it, "
              "piecewise and inside the window t^2 <= 49n/16) and of Student's first Hill branch and branch junction (the tail "
              "branch is proved for 3 <= N <= 10000), Phi o Normal = id are explored (mpmath; fine-grid probes at the "
              "chi-square polynomial switch and at alpha = 1e-12 for Normal: C17-F2 is a KNOWN finding - upward steps are "
              "classified oracle failures; C17-F3 is FIXED in /repo 708b5036 - the probe is a regression test and finds no step), "
              "not proved. hpos/hmono of C17_chi2_1_mono and hz of C17_normal_fuel are hypotheses without an instance; "
              "C17_finite_student covers the first Hill divisor for every x <= 1, that the code's x = -Normal(u/2) is <= 1 is not "
              "proved. KSprob's constants (1e-20, 1.18, 100) are not regenerated. The limit of the series / continued fraction is not identified with Phi. Second Hill divisor "
              "only for N <= 10000. D(-x) = 1 - D(x) is exact only outside 2.32 < |x| <= 3.5.")
TECHNIQUE = ("Lean 4 proof (closed forms, symmetry, monotone closed forms, definedness, loop invariant/termination/truncation, "
             "rescale invariance; polynomial monotonicity by expansion + Lipschitz bounds, Hill tail branch) + translators for the "
             "decision fragments (c17_statan.py) and for the four functions whole (c17_constants.py, model = regenerated by "
             "C17_statan_source_tie) + model/implementation correspondence + mpmath reference search")

TOL = {"normal": 1e-6, "student": 5e-4, "chi": 5e-3}
DOFS = list(range(1, 31)) + [40, 60, 120, 1000, 10000, 1000000]
GRID = [0.0005, 0.001, 0.0025, 0.005, 0.01, 0.02, 0.025, 0.05, 0.1, 0.15, 0.2, 0.25, 0.3, 0.4, 0.45, 0.49]
GRID = GRID + [0.5] + [round(1 - a, 6) for a in reversed(GRID)]


def hx(x):
    return float2hex(x)


def translate(ctx):
    import sys
    sys.path.insert(0, str(ctx.verif / "tools"))
    from gen import c17_statan as g
    try:
        frags, changed = g.run(ctx.repo, ctx.lean)
    except g.Unreadable as e:
        raise TieBroken("c17_statan", str(e))
    except (OSError, ValueError) as e:
        raise TieBroken("c17_statan", repr(e))
    if changed:
        ctx.log("Gen/StatanGen.lean regenerated: rescale block =", "; ".join(s for s, _, _ in frags["rescale"]),
                "| selector =", frags["chiSel"][0])
    # round 7: Normal / Student / Chi_square / NormalDistribution whole, every coefficient and threshold (Gen/StatanFns.lean)
    from gen import c17_constants as gc
    try:
        if gc.run(ctx.repo, ctx.lean):
            ctx.log("Gen/StatanFns.lean regenerated")
    except gc.Unparsable as e:
        raise TieBroken("c17_constants", str(e))
    except (OSError, ValueError) as e:
        raise TieBroken("c17_constants", repr(e))


def reference(ctx, queries):
    """upper-tail probabilities from mpmath (python3-vt subprocess); list of floats-as-Fractions"""
    if not queries:
        return []
    p = subprocess.run(["python3-vt", str(ctx.verif / "tools" / "gen" / "c17_ref.py")], input=json.dumps(queries),
                       capture_output=True, text=True, timeout=3000)
    if p.returncode != 0:
        raise BuildError("c17_ref.py (mpmath)", p.stderr[-2000:])
    return [float(v) for v in json.loads(p.stdout)]


def cf_replica(x):
    """replica (Python floats = IEEE doubles, same operations) of the branch selection and of the continued-fraction loop
    of NormalDistribution: returns (region, passes, rescales); used only to count which regions the stream populates"""
    if x == 0:
        return ("zero", 0, 0)
    typv = x <= 0
    b = abs(x)
    x2 = x * x
    f = 0.3989422804014327 * math.exp(-0.5 * x2)
    if f / b <= 0:
        return ("underflow", 0, 0)
    if b - (2.32 if typv else 3.5) <= 0:
        return ("series", 0, 0)
    a1, a2, t = 2.0, 0.0, x2 + 3
    p1, q1, p2, q2 = f, b, (t - 1) * f, t * b
    r, D = p1 / q1, p2 / q2
    if not typv:
        r, D = 1 - r, 1 - D
    n = k = 0
    while True:
        t += 4; a1 -= 8; a2 += a1
        s = a2 * p1 + t * p2; p1 = p2; p2 = s
        s = a2 * q1 + t * q2; q1 = q2; q2 = s
        if q2 > 1e30:
            q1 *= 1e-30; q2 *= 1e-30; p1 *= 1e-30; p2 *= 1e-30
            k += 1
        r = D
        D = p2 / q2
        if not typv:
            D = 1 - D
        n += 1
        if not (abs(r - D) > 2.220446049250313e-16) or n > 100000:
            break
    return ("cf-rescaled" if k else "cf", n, k)


def alphas_mono(n):
    lo = [10 ** (-12 + 11.7 * i / (n - 1)) for i in range(n)]       # 1e-12 .. 0.5
    lo = [a for a in lo if a < 0.5]
    return lo + [0.5] + [1 - a for a in reversed(lo)]


class Work:
    def __init__(self, ctx, corr):
        self.ctx, self.corr = ctx, corr
        self.exe = ctx.build_cpp("c17_statan", [ctx.verif / "harness" / "c17_statan.cpp", ctx.repo / "lib" / "gnu_gama" / "statan.cpp"])
        self.nfail = {}

    def fail(self, what, ops, sig, site):
        self.nfail[sig] = self.nfail.get(sig, 0) + 1
        self.corr.count("oracle_fail_" + sig)
        if self.nfail[sig] <= 3:
            self.corr.fail(what, {"stream": "statan", "ops": ops, "signature": sig}, site)

    def run_ops(self, ops, with_model=True):
        """ops: flat list of op lines -> list of output lines of the implementation (tie checked on the way)"""
        chunk = 500
        cases = [ops[i:i + chunk] for i in range(0, len(ops), chunk)]
        impl, crashes = run_cases(self.exe, cases)
        for i in crashes:
            self.fail("harness crashed / sanitizer report", cases[i][:5], "crash", "statan")
        if with_model:
            model, _ = run_cases(self.ctx.driver("drv_statan"), cases)
            for i, c in enumerate(cases):
                if len(impl[i]) != len(model[i]):
                    self.corr.disagree("statan", c[:5], impl[i][:5], model[i][:5], "different number of lines")
                    continue
                for op, a, b in zip(c, impl[i], model[i]):
                    if a == b:
                        self.corr.count("tie_lines_identical")
                    elif lines_equal(a, b, rtol=1e-12, atol=1e-300):
                        self.corr.count("tie_lines_within_1e-12")
                    else:
                        self.corr.disagree("statan", [op], [a], [b])
        return [l for o in impl for l in o]


def vals(line):
    t = line.split()
    if not t or t[0] != "ok":
        raise ValueError(line)
    return [hex2float(v) for v in t[1:]]


def check(ctx, corr, w, scale, with_model=True):
    rng = ctx.rng
    # ---------------- accuracy against mpmath
    alphas = list(GRID) + [round(rng.uniform(0.0005, 0.9995), 6) for _ in range(12 * scale)]
    ops, meta = [], []
    for a in alphas:
        ops.append("normal " + hx(a)); meta.append(("normal", a, 0))
        for n in DOFS:
            ops.append(f"student {hx(a)} {n}"); meta.append(("student", a, n))
            ops.append(f"chi {hx(a)} {n}"); meta.append(("chi", a, n))
    # chi-square LOWER critical values (p > 0.5) for the small dof where the selector / the small-n polynomial matter
    lower = [0.55, 0.7, 0.8, 0.9, 0.95, 0.9675, 0.975, 0.98, 0.99, 0.995, 0.997, 0.999, 0.9995]
    lower += [round(rng.uniform(0.5, 0.9995), 6) for _ in range(10 * scale)] + [round(1 - 10 ** rng.uniform(-3.3, -1), 6) for _ in range(6 * scale)]
    for a in lower:
        for n in range(3, 9):
            ops.append(f"chi {hx(a)} {n}"); meta.append(("chi", a, n))
    for f in sorted((ctx.verif / "corpus" / "C17").glob("*.txt")) if (ctx.verif / "corpus" / "C17").exists() else []:
        for l in f.read_text().split("\n"):
            t = l.split()
            if t and t[0] in ("normal", "student", "chi") and not l.startswith("#"):
                ops.append(l.strip()); meta.append((t[0], hex2float(t[1]), int(t[2]) if len(t) > 2 else 0))
    out = w.run_ops(ops, with_model)
    queries, qmeta = [], []
    for (kind, a, n), op, line in zip(meta, ops, out):
        corr.case(key=op if a != 0.5 else None, sample={"op": op, "impl": line} if corr.evaluations % 700 == 5 else None)
        try:
            v = vals(line)[0]
        except (ValueError, IndexError):
            w.fail(f"{op}: no value ({line})", [op], "novalue", kind)
            continue
        if not math.isfinite(v):
            w.fail(f"{kind}({a}, {n}) = {v}", [op], "nonfinite", kind)
            continue
        if a == 0.5 and kind != "chi":
            if abs(v) > 1e-12:
                w.fail(f"{kind}(0.5, {n}) = {v!r}, expected 0", [op], "median", kind)
            continue
        if not (0.0005 <= a <= 0.9995):
            continue            # accuracy is claimed on [0.0005, 0.9995] only (corpus points outside: tie + finiteness)
        tol = TOL[kind]
        x = abs(v) if kind != "chi" else v
        aa = a if (kind == "chi" or a < 0.5) else 1 - a          # upper tail of |v|
        if kind != "chi" and (v > 0) != (a < 0.5):
            w.fail(f"{kind}({a}, {n}) = {v!r} has the wrong sign", [op], "sign", kind)
            continue
        name = kind if kind != "normal" else "normal"
        for xx in (x * (1 - tol), x, x * (1 + tol)):
            queries.append([name, repr(xx)] + ([n] if kind != "normal" else []))
        qmeta.append((kind, a, n, aa, v, op))
    ref = reference(ctx, queries)
    corr.count("chi_lower_critical_n3_8", sum(1 for (kind, a, n, aa, v, op) in qmeta if kind == "chi" and a > 0.5 and 3 <= n <= 8))
    for i, (kind, a, n, aa, v, op) in enumerate(qmeta):
        hi, mid, lo = ref[3 * i], ref[3 * i + 1], ref[3 * i + 2]      # tail is decreasing in x
        tol = TOL[kind]
        est = tol * 2 * abs(mid - aa) / max(hi - lo, 1e-300)          # linearised relative error of the quantile
        corr.maxstat(f"max_rel_err_{kind}", est)
        if not (lo <= aa * (1 + 1e-12) and aa * (1 - 1e-12) <= hi):
            w.fail(f"{kind}({a!r}, {n}) = {v!r}: true tail probability of that value is {mid!r}; relative error of the "
                   f"critical value about {est:.3g} > {tol:g}", [op], f"accuracy-{kind}", kind)

    # ---------------- monotone and finite on (0,1) down to 1e-12
    al = alphas_mono(60 * scale)
    dofs = DOFS if ctx.thorough else [1, 2, 3, 4, 5, 6, 7, 10, 20, 30, 120, 1000000]
    ops, meta = [], []
    for a in al:
        ops.append("normal " + hx(a)); meta.append(("normal", 0))
    for n in dofs:
        for a in al:
            ops.append(f"student {hx(a)} {n}"); meta.append(("student", n))
        for a in al:
            ops.append(f"chi {hx(a)} {n}"); meta.append(("chi", n))
    out = w.run_ops(ops, with_model)
    prev = {}
    for (kind, n), op, line in zip(meta, ops, out):
        a = hex2float(op.split()[1])
        corr.case(key=op if a != 0.5 else None)
        try:
            v = vals(line)[0]
        except (ValueError, IndexError):
            w.fail(f"{op}: no value ({line})", [op], "novalue", kind)
            continue
        if not math.isfinite(v):
            w.fail(f"{kind}({a!r}, {n}) = {v} (not finite)", [op], "nonfinite", kind)
            continue
        if (kind, n) in prev:
            pa, pv, pop = prev[(kind, n)]
            if v > pv:        # critical values decrease as the tail probability grows
                w.fail(f"{kind}(., {n}) not monotone: f({pa!r}) = {pv!r} < f({a!r}) = {v!r}", [pop, op], f"monotone-{kind}", kind)
        prev[(kind, n)] = (a, v, op)

    # ---------------- round 9: fine-grid monotonicity probes for two steps the coarse grid above cannot see
    # (a) Chi_square at the switch between its two polynomials, |Normal(p)| = (n-1)/4 (proved in the model for n = 9:
    #     C17_chi2_junction_step_9); (b) Normal below 1e-9: sawtooth of `f = 1 - f` (D close to 1 is quantised by 1.1e-16).
    # Both were genuine (findings C17-F2: recorded; C17-F3: repaired by /repo 708b5036, the probe stays as a regression test).
    # Every upward step is an oracle failure; the step sizes also go to the evidence.
    ops, meta = [], []
    for n in range(3, 21):
        for sgn in (-1.0, 1.0):
            pc = 0.5 * math.erfc(sgn * (n - 1) / 4.0 / math.sqrt(2.0))          # upper tail probability of t = sgn (n-1)/4
            for k in range(-24, 25):
                ops.append(f"chi {hx(pc * (1 + k * 2.5e-9))} {n}"); meta.append((n, sgn))
    out = w.run_ops(ops, with_model)
    prev, nstep, worst = {}, 0, 0.0
    for (n, sgn), op, line in zip(meta, ops, out):
        corr.case(key=op)
        v = vals(line)[0]
        if (n, sgn) in prev and v > prev[(n, sgn)][0] + 1e-9:
            nstep += 1
            worst = max(worst, v - prev[(n, sgn)][0])
            w.fail(f"chi(., {n}) steps up by {v - prev[(n, sgn)][0]:.3g} at the polynomial switch |Normal(p)| = {(n - 1) / 4}: "
                   f"{prev[(n, sgn)][1]} -> {prev[(n, sgn)][0]!r}, {op} -> {v!r}", [prev[(n, sgn)][1], op], "junction-chi", "chi")
        prev[(n, sgn)] = (v, op)
    corr.count("chi_junction_upward_steps", nstep)
    corr.maxstat("max_chi_junction_upward_step", worst)
    ops = ["normal " + hx(1e-12 * (1 + k * 1.35e-6)) for k in range(0, 200)]
    out = w.run_ops(ops, with_model)
    pv, pop, nstep, worst = None, None, 0, 0.0
    for op, line in zip(ops, out):
        corr.case(key=op)
        v = vals(line)[0]
        if pv is not None and v > pv + 1e-9:
            nstep += 1
            worst = max(worst, v - pv)
            w.fail(f"Normal not monotone near 1e-12: {pop} -> {pv!r} < {op} -> {v!r} (step {v - pv:.3g})", [pop, op],
                   "sawtooth-normal", "normal")
        pv, pop = v, op
    corr.count("normal_sawtooth_upward_steps", nstep)
    corr.maxstat("max_normal_sawtooth_step", worst)

    # ---------------- symmetry on the implementation
    ops = []
    sym = [rng.uniform(1e-9, 0.5) for _ in range(40 * scale)] + [0.0005, 0.025, 0.25]
    for a in sym:
        n = rng.choice(DOFS)
        ops += ["normal " + hx(a), "normal " + hx(1 - a), f"student {hx(a)} {n}", f"student {hx(1 - a)} {n}"]
    out = w.run_ops(ops, with_model)
    for i in range(0, len(ops), 2):
        corr.case(key=ops[i])
        x, y = vals(out[i])[0], vals(out[i + 1])[0]
        a = hex2float(ops[i].split()[1])
        # 1 - (1 - a) differs from a by rounding: allow the corresponding change of the quantile
        if abs(x + y) > 1e-9 * max(1.0, abs(x)) + 3e-16 / a * (abs(x) + 1):
            w.fail(f"not antisymmetric: {ops[i]} -> {x!r}, {ops[i + 1]} -> {y!r}", ops[i:i + 2], "symmetry", ops[i].split()[0])

    # ---------------- NormalDistribution: vs mpmath on [-40, 40]; NormalDistribution(Normal(a)) = 1 - a
    xs = [0.0, -0.0, 2.32, -2.32, 3.5, -3.5, 2.3200000000000003, 3.5000000000000004, 1e-300, -1e-300, 40.0, -40.0, 38.5, -38.5, 8.3, -8.3]
    xs += [rng.uniform(-40, 40) for _ in range(60 * scale)] + [rng.uniform(-6, 6) for _ in range(60 * scale)]
    # every branch region of NormalDistribution: series on both sides, continued fraction with the maxd/mind rescaling
    # (x in about [-2.80, -2.32): many passes, q2 exceeds 1e30), continued fraction without rescaling, density underflow
    xs += [-2.3200000000000003, -2.33, -2.4, -2.5, -2.6, -2.7, -2.75, -2.79, -2.8, -2.801, -2.802, -2.81, -2.9, -3.0, 3.51, 3.6, 4.0,
           -38.4, 38.4, -38.7, 38.7, -39.0, 39.0, 1e-8, -1e-8, 0.5, -0.5, 2.0, -2.0, 3.4, -2.31]
    xs += [rng.uniform(-2.80, -2.3201) for _ in range(40 * scale)]                 # rescaling fires
    xs += [rng.uniform(-2.32, 0) for _ in range(15 * scale)] + [rng.uniform(0, 3.5) for _ in range(15 * scale)]   # power series
    xs += [-rng.uniform(2.81, 8) for _ in range(15 * scale)] + [rng.uniform(3.5, 8) for _ in range(15 * scale)]   # cf, few passes
    xs += [rng.choice([-1, 1]) * rng.uniform(8, 38.6) for _ in range(10 * scale)]                                # far tails
    maxpass = 0
    for x in xs:
        reg, npass, nres = cf_replica(x)
        corr.count("nd_region_" + reg)
        maxpass = max(maxpass, npass)
    corr.maxstat("nd_cf_max_passes", maxpass)
    if sum(1 for x in xs if cf_replica(x)[0] == "cf-rescaled") < 20:
        corr.inconclusive.append("fewer than 20 NormalDistribution arguments made the maxd/mind rescaling fire")
    ops = ["nd " + hx(x) for x in xs]
    out = w.run_ops(ops, with_model)
    ref = reference(ctx, [["ncdf", repr(x)] for x in xs])
    for x, op, line, r in zip(xs, ops, out, ref):
        corr.case(key=op if x != 0 else None)
        D, f = vals(line)
        dens = math.exp(-0.5 * x * x) / math.sqrt(2 * math.pi)
        # relative accuracy on the smaller tail, absolute 1e-15 elsewhere
        err = abs(D - r)
        small = min(r, 1 - r) if 0 < r < 1 else 0.0
        relerr = err / max(small, 1e-300) if x < 0 else err
        corr.maxstat("max_abs_err_NormalDistribution", err)
        if not (0 <= D <= 1) or err > 1e-12 + 1e-9 * r or (x < 0 and r > 1e-300 and err > 1e-6 * r) or abs(f - dens) > 1e-14 + 1e-12 * dens:
            w.fail(f"NormalDistribution({x!r}) = ({D!r}, {f!r}), reference D = {r!r}, f = {dens!r}", [op], "ncdf", "NormalDistribution")
    al = [a for a in alphas_mono(20 * scale)]
    ops = ["normal " + hx(a) for a in al]
    zs = [vals(l)[0] for l in w.run_ops(ops, with_model)]
    ops2 = ["nd " + hx(z) for z in zs]
    out2 = w.run_ops(ops2, with_model)
    for a, z, op, line in zip(al, zs, ops, out2):
        corr.case(key=op if a != 0.5 else None)
        D = vals(line)[0]
        tailv = 1 - D if a < 0.5 else D          # the small one
        aa = min(a, 1 - a)
        corr.maxstat("max_rel_err_Phi_of_Normal", abs(tailv - aa) / aa if aa > 1e-9 else 0.0)
        # 1 - D loses digits for tiny alpha (D close to 1): tolerance 1e-6 relative + 2e-16 absolute
        if abs(tailv - aa) > 1e-6 * aa + 3e-16:
            w.fail(f"NormalDistribution(Normal({a!r}) = {z!r}) = {D!r}, expected {1 - a!r}", [op, "nd " + hx(z)], "phi-normal", "Normal")

    # ---------------- KSprob: range and monotone
    ks = sorted([10 ** rng.uniform(-3, 1.3) for _ in range(40 * scale)] + [1.18, 1.1799999999999, 1.36, 0.5, 1e-21, 1e21, 0.0])
    out = w.run_ops(["ks " + hx(x) for x in ks], with_model)
    pv = -1.0
    for x, line in zip(ks, out):
        corr.case(key=f"ks {x}")
        v = vals(line)[0]
        if not (0 <= v <= 1 + 1e-12) or v < pv - 1e-9:
            w.fail(f"KSprob({x!r}) = {v!r} (previous {pv!r}): not a monotone probability", ["ks " + hx(x)], "ks", "KSprob")
        pv = v


def correspond(ctx, corr):
    w = Work(ctx, corr)
    check(ctx, corr, w, ctx.size(1, 8))


def search(ctx, broken, corr):
    c2 = Corr()
    w = Work(ctx, c2)
    ctx.rng = __import__("random").Random(f"C17-search-{ctx.seed}")
    check(ctx, c2, w, 4, with_model=False)
    return c2.failures


def classify(ctx, failure):
    """C17-F1: Chi_square(p, n), 3 <= n <= 8, not monotone in the extreme tails (1 - p < 1e-6, or p < 1e-10 for n = 3)"""
    r = failure.replay if isinstance(failure.replay, dict) else {}
    if r.get("signature") == "monotone-chi" and failure.site == "chi":
        try:
            ops = [o.split() for o in r["ops"]]
            al = [hex2float(o[1]) for o in ops]
            n = int(ops[0][2])
        except (KeyError, IndexError, ValueError):
            return None
        if 3 <= n <= 8 and (all(1 - a < 1e-6 for a in al) or (n == 3 and all(a < 1e-10 for a in al))):
            return "C17-F1"
    if r.get("signature") == "junction-chi" and failure.site == "chi":
        # C17-F2: upward step of a few 1e-5 where |Normal(p)| passes (n-1)/4 (switch between the two polynomials), n = 7, 8, 9
        try:
            ops = [o.split() for o in r["ops"]]
            n = int(ops[0][2])
            al = [hex2float(o[1]) for o in ops]
        except (KeyError, IndexError, ValueError):
            return None
        pc = 0.5 * math.erfc(-(n - 1) / 4.0 / math.sqrt(2.0))
        if 7 <= n <= 9 and all(abs(a - pc) < 1e-6 * pc for a in al):
            return "C17-F2"
    if r.get("signature") == "sawtooth-normal" and failure.site == "normal":
        # C17-F3: Normal(alpha) for alpha < 1e-9: cancellation in f = 1 - f
        try:
            al = [hex2float(o.split()[1]) for o in r["ops"]]
        except (KeyError, IndexError, ValueError):
            return None
        if all(a < 1e-9 for a in al):
            return "C17-F3"
    return None


def replay(ctx, payload):
    f = payload.get("failure")
    if not f:
        print(json.dumps(payload.get("no_longer_checks"), indent=1)[:4000])
        return 0
    ops = f["input"]["ops"]
    c = Corr()
    w = Work(ctx, c)
    out = w.run_ops(ops, with_model=False)
    print(f["what"])
    for o, l in zip(ops, out):
        print(o, "->", l, vals(l))
    return 1
